#!/venv/bin/python
"""Regenerate sa/reference_names.json from the current /repo tree (run when the rules are re-validated against a new tree)."""
import json, os, sys
os.environ["VERIF_BUILDING_REFERENCE"] = "1"
from pathlib import Path
ROOT = Path(__file__).resolve().parent.parent
sys.path.insert(0, str(ROOT))
from sa import core, alpha
alpha.REF.write_text("{}")
alpha._REF_CACHE = None
repo = core.Repo()
ref = alpha.build_reference(repo)
alpha.REF.write_text(json.dumps(ref, indent=0, sort_keys=True) + "\n")
print(len(ref), "functions with locals recorded")
sh = alpha.build_shapes(repo)
alpha.SHAPES.write_text(json.dumps(sh, indent=0, sort_keys=True) + "\n")
print(len(sh), "function shapes recorded")
