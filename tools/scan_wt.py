import json, os, sys
PNAME = os.environ.get("PATCH_NAME", "patch.diff")   # refactor_ok.diff = the correct twin of a round-6 change
from pathlib import Path
from concurrent.futures import ProcessPoolExecutor
sys.path.insert(0, "/verif")
def one(arg):
    d, prop = arg
    from sa import core, mutate
    from sa.rules import load_all
    load_all()
    d = Path(d)
    allp = sorted({p for r in core.RULES.values() for p in r.props})
    try:
        with mutate.scratch_copy() as root:
            mutate.apply_patch(root, d / PNAME)
            res = mutate.run_props(root, allp)
    except Exception as exc:
        return str(d), prop, None, f"ERROR {exc!r}", []
    fired = {}; errs = []
    for p, (code, viol, es) in res.items():
        for v in viol:
            fired.setdefault(v[0], set()).add(p)
        errs += es
    own = any(prop in ps for ps in fired.values())
    return str(d), prop, own, {k: sorted(v) for k, v in fired.items()}, errs[:2]
if __name__ == "__main__":
    args = []
    only = set(sys.argv[1:])   # e.g. C03/out/3
    for c in sorted(Path(os.environ.get("WT_ROOT", "/tmp/wt")).glob("C??")):
        for k in sorted((c / "out").glob("*")):
            if (k / PNAME).exists() and (not only or f"{c.name}/out/{k.name}" in only or c.name in only):
                args.append((str(k), c.name))
    with ProcessPoolExecutor(8) as ex:
        rows = list(ex.map(one, args))
    caught = own = 0
    for d, prop, ownhit, fired, errs in rows:
        status = "MISS" if not fired else ("own" if ownhit else "other-prop")
        if fired and not isinstance(fired, str): caught += 1
        if ownhit: own += 1
        print(f"{d[len(os.environ.get('WT_ROOT', '/tmp/wt'))+1:]:14s} {status:10s} {fired if fired else ''} {errs if errs else ''}")
    print(f"caught {caught}/{len(rows)} (own {own})")
