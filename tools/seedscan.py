#!/venv/bin/python
"""Apply every seeded patch to a scratch copy and report which rules fire (16 processes)."""
import json, sys, os
from pathlib import Path
from concurrent.futures import ProcessPoolExecutor
ROOT = Path(__file__).resolve().parent.parent
sys.path.insert(0, str(ROOT))

def one(d):
    from sa import core, mutate
    from sa.rules import load_all
    load_all()
    d = Path(d)
    prop = json.loads((d / "meta.json").read_text())["property"]
    allp = sorted({p for r in core.RULES.values() for p in r.props})
    try:
        with mutate.scratch_copy() as root:
            mutate.apply_patch(root, d / "patch.diff")
            res = mutate.run_props(root, allp)
    except Exception as exc:
        return d.name, prop, None, f"ERROR {exc!r}"
    fired = {}
    errs = []
    for p, (code, viol, es) in res.items():
        for v in viol:
            fired.setdefault(v[0], set()).add(p)
        errs += es
    own = any(prop in ps for ps in fired.values())
    return d.name, prop, own, {k: sorted(v) for k, v in fired.items()}, errs[:12]

if __name__ == "__main__":
    dirs = sorted(str(p) for p in (ROOT / "seeded").glob("*") if (p / "patch.diff").exists())
    if len(sys.argv) > 1:
        dirs = [d for d in dirs if any(a in d for a in sys.argv[1:])]
    with ProcessPoolExecutor(16) as ex:
        rows = list(ex.map(one, dirs))
    caught = 0; own = 0
    for r in rows:
        name, prop, ownhit, fired = r[0], r[1], r[2], r[3]
        status = "MISS" if not fired else ("own" if ownhit else "other-prop")
        if fired and not isinstance(fired, str): caught += 1
        if ownhit: own += 1
        print(f"{name:8s} {status:10s} {fired if fired else ''} {r[4] if len(r)>4 and r[4] else ''}")
    print(f"caught {caught}/{len(rows)} (under own property: {own})")
