#!/bin/bash
# usage: tryfix.sh <finding-dir-name> <rule-prefixes...>   (worktree /tmp/wt/verify holds the candidate fix)
W=/tmp/wt/verify
f=$1; shift
cd $W && echo "suite: $(PYTHONPATH=$W/src /venv/bin/python -m pytest -q -p no:cacheprovider tests 2>&1 | tail -1)"
sed "s#/repo/src#$W/src#g; s#/repo/tests#$W/tests#g; s#/repo#$W#g" /verif/findings/$f/demo.py > /tmp/demo_try.py
for h in /verif/findings/$f/*.py; do b=$(basename $h); [ $b != demo.py ] && sed "s#/repo#$W#g" $h > /tmp/$b; done
cd $W && PYTHONPATH=$W/src:$W/tests:/tmp timeout 900 /venv/bin/python /tmp/demo_try.py > /tmp/demo_try.out 2>&1; echo "demo rc=$? $(tail -1 /tmp/demo_try.out | cut -c1-100)"
cd /verif && VERIF_REPO=$W /venv/bin/python tools/runrules.py "$@" | grep -v "^   ok" | cut -c1-200
