#!/venv/bin/python
"""
Corpus generator (development aid, not a check): first-order AST mutants of the
anchored source files, filtered by the repository's own test-suite. A mutant
that the 331 tests do not notice is exactly the kind of change the checks must
catch; survivors are written to OUT/survivors/<id>.diff and later run against
the checker (tools/mutscan.py).

usage: mutgen.py OUT [--jobs N] [--files f1,f2] [--limit N]
Works on scratch copies under OUT/work; /repo is never modified.
"""
import ast, copy, difflib, hashlib, json, os, shutil, subprocess, sys, random
from concurrent.futures import ProcessPoolExecutor
from pathlib import Path

REPO = Path("/repo")
PKG = REPO / "src" / "gtirb_rewriting"
FILES = [
    "_modify/edit.py", "_modify/split.py", "_modify/join.py", "_modify/remove.py", "_modify/edges.py",
    "_modify/functions.py", "_modify/cache.py", "_modify/retarget.py", "_modify/delete_symbols.py",
    "rewriting.py", "intervalutils.py", "prepare.py", "abi.py", "patches/calls.py", "scopes.py", "utils.py",
    "passes.py", "dwarf/cfi_eval.py", "dwarf/_encodable.py", "dwarf/_encoders.py", "dwarf/cfi.py", "dwarf/expr.py",
    "assembler/assembler.py", "assembler/_create_gtirb.py", "assembler/_mc_utils.py",
    "_adt/linked_list.py", "_adt/block_ordering.py", "_adt/offset_mapping.py", "_adt/identity_set.py",
]

import sys as _sys
_sys.path.insert(0, str(Path(__file__).resolve().parent.parent))
from sa.mutops import mutants_of  # noqa: E402


def make_mutants(relfile: str):
    p = PKG / relfile
    src = p.read_text()
    tree = ast.parse(src)
    base = ast.unparse(tree)
    seen = set()
    out = []
    for desc, t in mutants_of(tree):
        try:
            ast.fix_missing_locations(t)
            new = ast.unparse(t)
            compile(new, relfile, "exec")
        except Exception:
            continue
        if new == base:
            continue
        h = hashlib.sha1(new.encode()).hexdigest()[:12]
        if h in seen:
            continue
        seen.add(h)
        out.append((desc, new, h))
    return base, out


def worker(args):
    relfile, desc, new, h, outdir, slot = args
    work = Path(outdir) / "work" / f"w{os.getpid()}"
    srcroot = work / "src"
    if not srcroot.exists():
        shutil.copytree(REPO / "src", srcroot, ignore=shutil.ignore_patterns("__pycache__", "*.egg-info"))
        (work / "tests").symlink_to(REPO / "tests")
    target = srcroot / "gtirb_rewriting" / relfile
    orig = (PKG / relfile).read_text()
    try:
        target.write_text(new)
        env = dict(os.environ, PYTHONPATH=str(srcroot), PYTHONDONTWRITEBYTECODE="1")
        r = subprocess.run(
            ["/venv/bin/python", "-m", "pytest", "-q", "-x", "-p", "no:cacheprovider", "--deselect", "tests/test_e2e.py", str(REPO / "tests")],
            cwd=work, env=env, capture_output=True, text=True, timeout=300)
        tail = (r.stdout.strip().splitlines() or ["?"])[-1]
        survived = "passed" in tail and "failed" not in tail and "error" not in tail
    except subprocess.TimeoutExpired:
        survived, tail = False, "timeout"
    finally:
        target.write_text(orig)
    return relfile, desc, h, survived, tail


def main():
    out = Path(sys.argv[1]); out.mkdir(parents=True, exist_ok=True)
    jobs = 16; files = FILES; limit = None
    a = sys.argv[2:]
    while a:
        if a[0] == "--jobs": jobs = int(a[1]); a = a[2:]
        elif a[0] == "--files": files = a[1].split(","); a = a[2:]
        elif a[0] == "--limit": limit = int(a[1]); a = a[2:]
        else: a = a[1:]
    tasks = []
    bases = {}
    for f in files:
        base, ms = make_mutants(f)
        bases[f] = base
        for desc, new, h in ms:
            tasks.append((f, desc, new, h, str(out), 0))
    random.Random(1).shuffle(tasks)
    if limit: tasks = tasks[:limit]
    print(len(tasks), "mutants", flush=True)
    (out / "survivors").mkdir(exist_ok=True)
    news = {(t[0], t[3]): t[2] for t in tasks}
    n = 0; s = 0
    log = open(out / "log.jsonl", "a")
    with ProcessPoolExecutor(jobs) as ex:
        for relfile, desc, h, survived, tail in ex.map(worker, tasks, chunksize=4):
            n += 1
            log.write(json.dumps({"file": relfile, "desc": desc, "id": h, "survived": survived, "tail": tail}) + "\n"); log.flush()
            if survived:
                s += 1
                # diff against the *unparsed* original so that only the mutation shows, then map to a real patch by writing the whole file
                d = out / "survivors" / f"{relfile.replace('/', '__')}.{h}"
                d.mkdir(exist_ok=True)
                (d / "new.py").write_text(news[(relfile, h)])
                (d / "meta.json").write_text(json.dumps({"file": relfile, "desc": desc, "id": h}))
            if n % 100 == 0:
                print(n, "done", s, "survived", flush=True)
    print("total", n, "survived", s)
    shutil.rmtree(out / "work", ignore_errors=True)

main()
