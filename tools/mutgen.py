#!/venv/bin/python
"""
Corpus generator (development aid, not a check): first-order AST mutants of the
anchored source files, filtered by the repository's own test-suite. A mutant
that the 331 tests do not notice is exactly the kind of change the checks must
catch; survivors are written to OUT/survivors/<id>.diff and later run against
the checker (tools/mutscan.py).

usage: mutgen.py OUT [--jobs N] [--files f1,f2] [--limit N]
Works on scratch copies under OUT/work; /repo is never modified.
"""
import ast, copy, difflib, hashlib, json, os, shutil, subprocess, sys, random
from concurrent.futures import ProcessPoolExecutor
from pathlib import Path

REPO = Path("/repo")
PKG = REPO / "src" / "gtirb_rewriting"
FILES = [
    "_modify/edit.py", "_modify/split.py", "_modify/join.py", "_modify/remove.py", "_modify/edges.py",
    "_modify/functions.py", "_modify/cache.py", "_modify/retarget.py", "_modify/delete_symbols.py",
    "rewriting.py", "intervalutils.py", "prepare.py", "abi.py", "patches/calls.py", "scopes.py", "utils.py",
    "passes.py", "dwarf/cfi_eval.py", "dwarf/_encodable.py", "dwarf/_encoders.py", "dwarf/cfi.py", "dwarf/expr.py",
    "assembler/assembler.py", "assembler/_create_gtirb.py", "assembler/_mc_utils.py",
    "_adt/linked_list.py", "_adt/block_ordering.py", "_adt/offset_mapping.py", "_adt/identity_set.py",
]

CMP = {ast.Lt: ast.LtE, ast.LtE: ast.Lt, ast.Gt: ast.GtE, ast.GtE: ast.Gt, ast.Eq: ast.NotEq, ast.NotEq: ast.Eq,
       ast.Is: ast.IsNot, ast.IsNot: ast.Is, ast.In: ast.NotIn, ast.NotIn: ast.In}


def mutants_of(tree: ast.Module):
    """yield (description, mutated tree)"""
    nodes = list(ast.walk(tree))
    index = {id(n): i for i, n in enumerate(nodes)}

    def clone_with(fn):
        t = copy.deepcopy(tree)
        ns = list(ast.walk(t))
        return t, ns

    for i, n in enumerate(nodes):
        line = getattr(n, "lineno", 0)
        if isinstance(n, ast.Compare):
            for j, op in enumerate(n.ops):
                if type(op) in CMP:
                    t, ns = clone_with(None)
                    ns[i].ops[j] = CMP[type(op)]()
                    yield f"L{line} cmp {type(op).__name__}->{CMP[type(op)].__name__}", t
        if isinstance(n, ast.BoolOp):
            for j in range(len(n.values)):
                if len(n.values) >= 2:
                    t, ns = clone_with(None)
                    del ns[i].values[j]
                    if len(ns[i].values) == 1:
                        # replace BoolOp by its remaining operand
                        rem = ns[i].values[0]
                        for p in ast.walk(t):
                            for f, v in ast.iter_fields(p):
                                if v is ns[i]:
                                    setattr(p, f, rem)
                                elif isinstance(v, list):
                                    for k, x in enumerate(v):
                                        if x is ns[i]:
                                            v[k] = rem
                    yield f"L{line} boolop drop operand {j}", t
            t, ns = clone_with(None)
            ns[i].op = ast.Or() if isinstance(n.op, ast.And) else ast.And()
            yield f"L{line} boolop and<->or", t
        if isinstance(n, ast.UnaryOp) and isinstance(n.op, ast.Not):
            t, ns = clone_with(None)
            tgt = ns[i]
            for p in ast.walk(t):
                for f, v in ast.iter_fields(p):
                    if v is tgt:
                        setattr(p, f, tgt.operand)
                    elif isinstance(v, list):
                        for k, x in enumerate(v):
                            if x is tgt:
                                v[k] = tgt.operand
            yield f"L{line} drop not", t
        if isinstance(n, ast.Constant) and isinstance(n.value, bool):
            t, ns = clone_with(None)
            ns[i].value = not n.value
            yield f"L{line} bool flip", t
        elif isinstance(n, ast.Constant) and isinstance(n.value, int) and not isinstance(n.value, bool) and abs(n.value) <= 64:
            t, ns = clone_with(None)
            ns[i].value = n.value + 1
            yield f"L{line} int {n.value}->{n.value + 1}", t
        if isinstance(n, ast.AugAssign) and isinstance(n.op, (ast.Add, ast.Sub)):
            t, ns = clone_with(None)
            ns[i].op = ast.Sub() if isinstance(n.op, ast.Add) else ast.Add()
            yield f"L{line} augassign +=<->-=", t
        if isinstance(n, ast.BinOp) and isinstance(n.op, (ast.Add, ast.Sub)) and not isinstance(n.left, ast.Constant):
            t, ns = clone_with(None)
            ns[i].op = ast.Sub() if isinstance(n.op, ast.Add) else ast.Add()
            yield f"L{line} binop +<->-", t
        if isinstance(n, (ast.Continue, ast.Break)):
            t, ns = clone_with(None)
            rep = ast.Break() if isinstance(n, ast.Continue) else ast.Continue()
            for p in ast.walk(t):
                for f, v in ast.iter_fields(p):
                    if isinstance(v, list):
                        for k, x in enumerate(v):
                            if x is ns[i]:
                                v[k] = ast.copy_location(rep, x)
            yield f"L{line} continue<->break", t
        if isinstance(n, ast.Subscript) and isinstance(n.slice, ast.Constant) and n.slice.value in (0, -1) and isinstance(n.ctx, ast.Load):
            t, ns = clone_with(None)
            ns[i].slice = ast.Constant(-1 if n.slice.value == 0 else 0)
            yield f"L{line} index {n.slice.value}<->{-1 if n.slice.value == 0 else 0}", t
        # statement deletion
        for field in ("body", "orelse", "finalbody"):
            b = getattr(n, field, None)
            if isinstance(b, list) and b and isinstance(b[0], ast.stmt) and not isinstance(n, (ast.Module, ast.ClassDef)):
                for j, st in enumerate(b):
                    if isinstance(st, (ast.Expr, ast.Assign, ast.AugAssign, ast.Delete, ast.Raise, ast.Return)) and not (
                        isinstance(st, ast.Expr) and isinstance(st.value, ast.Constant)):
                        if isinstance(st, ast.Return) and st.value is None:
                            continue
                        t, ns = clone_with(None)
                        bb = getattr(ns[i], field)
                        bb[j] = ast.copy_location(ast.Pass(), bb[j])
                        yield f"L{st.lineno} delete {type(st).__name__}: {ast.unparse(st)[:50]}", t
        # wrong variable: swap a Name argument of a call with another parameter/local of the same function
        if isinstance(n, (ast.FunctionDef, ast.AsyncFunctionDef)):
            params = [a.arg for a in n.args.args if a.arg not in ("self", "cls")]
            if len(params) >= 2:
                for c in ast.walk(n):
                    if isinstance(c, ast.Call):
                        for ai, a in enumerate(c.args):
                            if isinstance(a, ast.Name) and a.id in params:
                                others = [p for p in params if p != a.id and p.split("_")[-1] == a.id.split("_")[-1]]
                                for o in others[:1]:
                                    t, ns = clone_with(None)
                                    ns[index[id(a)]].id = o
                                    yield f"L{a.lineno} arg {a.id}->{o}", t


def make_mutants(relfile: str):
    p = PKG / relfile
    src = p.read_text()
    tree = ast.parse(src)
    base = ast.unparse(tree)
    seen = set()
    out = []
    for desc, t in mutants_of(tree):
        try:
            ast.fix_missing_locations(t)
            new = ast.unparse(t)
            compile(new, relfile, "exec")
        except Exception:
            continue
        if new == base:
            continue
        h = hashlib.sha1(new.encode()).hexdigest()[:12]
        if h in seen:
            continue
        seen.add(h)
        out.append((desc, new, h))
    return base, out


def worker(args):
    relfile, desc, new, h, outdir, slot = args
    work = Path(outdir) / "work" / f"w{os.getpid()}"
    srcroot = work / "src"
    if not srcroot.exists():
        shutil.copytree(REPO / "src", srcroot, ignore=shutil.ignore_patterns("__pycache__", "*.egg-info"))
        (work / "tests").symlink_to(REPO / "tests")
    target = srcroot / "gtirb_rewriting" / relfile
    orig = (PKG / relfile).read_text()
    try:
        target.write_text(new)
        env = dict(os.environ, PYTHONPATH=str(srcroot), PYTHONDONTWRITEBYTECODE="1")
        r = subprocess.run(
            ["/venv/bin/python", "-m", "pytest", "-q", "-x", "-p", "no:cacheprovider", "--deselect", "tests/test_e2e.py", str(REPO / "tests")],
            cwd=work, env=env, capture_output=True, text=True, timeout=300)
        tail = (r.stdout.strip().splitlines() or ["?"])[-1]
        survived = "passed" in tail and "failed" not in tail and "error" not in tail
    except subprocess.TimeoutExpired:
        survived, tail = False, "timeout"
    finally:
        target.write_text(orig)
    return relfile, desc, h, survived, tail


def main():
    out = Path(sys.argv[1]); out.mkdir(parents=True, exist_ok=True)
    jobs = 16; files = FILES; limit = None
    a = sys.argv[2:]
    while a:
        if a[0] == "--jobs": jobs = int(a[1]); a = a[2:]
        elif a[0] == "--files": files = a[1].split(","); a = a[2:]
        elif a[0] == "--limit": limit = int(a[1]); a = a[2:]
        else: a = a[1:]
    tasks = []
    bases = {}
    for f in files:
        base, ms = make_mutants(f)
        bases[f] = base
        for desc, new, h in ms:
            tasks.append((f, desc, new, h, str(out), 0))
    random.Random(1).shuffle(tasks)
    if limit: tasks = tasks[:limit]
    print(len(tasks), "mutants", flush=True)
    (out / "survivors").mkdir(exist_ok=True)
    news = {(t[0], t[3]): t[2] for t in tasks}
    n = 0; s = 0
    log = open(out / "log.jsonl", "a")
    with ProcessPoolExecutor(jobs) as ex:
        for relfile, desc, h, survived, tail in ex.map(worker, tasks, chunksize=4):
            n += 1
            log.write(json.dumps({"file": relfile, "desc": desc, "id": h, "survived": survived, "tail": tail}) + "\n"); log.flush()
            if survived:
                s += 1
                # diff against the *unparsed* original so that only the mutation shows, then map to a real patch by writing the whole file
                d = out / "survivors" / f"{relfile.replace('/', '__')}.{h}"
                d.mkdir(exist_ok=True)
                (d / "new.py").write_text(news[(relfile, h)])
                (d / "meta.json").write_text(json.dumps({"file": relfile, "desc": desc, "id": h}))
            if n % 100 == 0:
                print(n, "done", s, "survived", flush=True)
    print("total", n, "survived", s)
    shutil.rmtree(out / "work", ignore_errors=True)

main()
