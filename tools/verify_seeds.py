#!/venv/bin/python
"""Confirm sub-agent changes in a scratch worktree and copy the confirmed ones to /verif/seeded/.
usage: verify_seeds.py Cxx [Cyy ...]     (reads /tmp/wt/Cxx/out/k/)
For each change: clean worktree -> demo passes; apply patch -> suite still 331 passed, demo fails.
"""
import json, os, shutil, subprocess, sys
from pathlib import Path

VER = Path(os.environ.get("WT_VERIFY", "/tmp/wt/verify"))
SEEDED = Path("/verif/seeded")

def sh(cmd, cwd=None, env=None, timeout=900):
    r = subprocess.run(cmd, shell=True, cwd=cwd, env=env, capture_output=True, text=True, timeout=timeout)
    return r.returncode, r.stdout + r.stderr

def main():
    if not VER.exists():
        rc, out = sh(f"git -C /repo worktree add -q --detach {VER} HEAD")
        assert rc == 0, out
        shutil.copy("/repo/src/gtirb_rewriting/version.py", VER / "src/gtirb_rewriting/version.py")
    env = dict(os.environ, PYTHONPATH=str(VER / "src"))
    head = sh("git rev-parse HEAD", cwd=VER)[1].strip()
    for prop in sys.argv[1:]:
        base = Path(os.environ.get("WT_ROOT", "/tmp/wt")) / prop / "out"
        for d in sorted(base.glob("*")):
            if not (d / "patch.diff").exists():
                continue
            name = f"{prop}-{os.environ.get('SEED_TAG', '')}{d.name}"
            dest = SEEDED / name
            if dest.exists():
                print(name, "already kept"); continue
            sh("git checkout -q -- . ", cwd=VER)
            rc0, out0 = sh(f"/venv/bin/python {d/'demo.py'}", cwd=VER, env=env)
            rc, out = sh(f"git apply {d/'patch.diff'}", cwd=VER)
            if rc != 0:
                print(name, "PATCH DOES NOT APPLY", out[:200]); continue
            rct, outt = sh("/venv/bin/python -m pytest -q -p no:cacheprovider tests 2>&1 | tail -3", cwd=VER, env=env)
            rc1, out1 = sh(f"/venv/bin/python {d/'demo.py'}", cwd=VER, env=env)
            sh("git checkout -q -- . ", cwd=VER)
            suite_ok = "331 passed" in outt
            ok = rc0 == 0 and rc1 != 0 and suite_ok
            print(name, "clean_demo_rc", rc0, "patched_demo_rc", rc1, "suite", outt.strip().splitlines()[-1] if outt.strip() else "?", "=> KEEP" if ok else "=> DROP")
            if not ok:
                continue
            dest.mkdir(parents=True)
            shutil.copy(d / "patch.diff", dest / "patch.diff")
            shutil.copy(d / "demo.py", dest / "demo.py")
            if (d / "refactor_ok.diff").exists():
                shutil.copy(d / "refactor_ok.diff", dest / "refactor_ok.diff")
            meta = json.loads((d / "meta.json").read_text()) if (d / "meta.json").exists() else {}
            meta.update({
                "property": prop,
                "origin": "fresh sub-agent given only the property text and a scratch worktree",
                "base_commit": head,
                "confirmed": {
                    "clean_tree_demo_exit": rc0,
                    "patched_demo_exit": rc1,
                    "patched_suite": outt.strip().splitlines()[-1] if outt.strip() else "",
                    "how": "tools/verify_seeds.py in scratch worktree /tmp/wt/verify: demo on clean tree, git apply, full pytest, demo, git checkout",
                },
                "patched_demo_tail": out1.strip().splitlines()[-3:],
            })
            (dest / "meta.json").write_text(json.dumps(meta, indent=1) + "\n")
main()
