#!/venv/bin/python
"""usage: addfinding.py ID PROP[,PROP] RULE KEY fixed:<commit>|known WHAT...   (appends to known_findings.json)"""
import json, sys
p = "/verif/known_findings.json"
kf = json.load(open(p))
fid, props, rule, key, status = sys.argv[1:6]
what = " ".join(sys.argv[6:])
for prop in props.split(","):
    e = {"id": fid, "property": prop, "rule": rule, "key": key, "status": status.split(":")[0], "what": what}
    if status.startswith("fixed:"):
        e["commit"] = status.split(":", 1)[1]
    kf["findings"] = [f for f in kf["findings"] if not (f.get("id") == fid and f.get("property") == prop)] + [e]
json.dump(kf, open(p, "w"), indent=1)
print("recorded", fid, props, status)
