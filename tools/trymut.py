#!/venv/bin/python
"""Dev tool: run the checks against a scratch copy with one edit applied.
usage: trymut.py --patch FILE [props...]   |   trymut.py --replace RELFILE OLD NEW [props...]
"""
import sys
from pathlib import Path
sys.path.insert(0, str(Path(__file__).resolve().parent.parent))
from sa import core, mutate
from sa.rules import load_all

def main():
    load_all()
    a = sys.argv[1:]
    with mutate.scratch_copy() as root:
        if a[0] == "--patch":
            mutate.apply_patch(root, Path(a[1]).resolve()); props = a[2:]
        else:
            mutate.apply_replace(root, a[1], a[2].encode().decode('unicode_escape'), a[3].encode().decode('unicode_escape')); props = a[4:]
        if not props:
            props = sorted({p for r in core.RULES.values() for p in r.props})
        res = mutate.run_props(root, props)
        fired = False
        for p, (code, viol, errs) in res.items():
            for v in viol:
                fired = True
                print(f"{p} VIOLATION {v[0]} {v[1]} :: {v[2][:200]}")
            for e in errs:
                print(f"{p} ERROR {e[:300]}")
        print("FIRED" if fired else "silent")
main()
