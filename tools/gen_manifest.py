#!/venv/bin/python
"""Regenerate MANIFEST.json from the registered rules and sa/props.py."""
import json, sys
from pathlib import Path
ROOT = Path(__file__).resolve().parent.parent
sys.path.insert(0, str(ROOT))
from sa import core, props
from sa.rules import load_all
load_all()
claimed = sorted({p for r in core.RULES.values() for p in r.props})
all_props = [json.loads(l)["id"] for l in (ROOT / "properties.jsonl").read_text().splitlines() if l.strip()]
NA_REASONS = json.loads((ROOT / "not_applicable.json").read_text()) if (ROOT / "not_applicable.json").exists() else {}
checks = []
for p in all_props:
    if p not in claimed:
        continue
    info = props.PROPS[p]
    rules = sorted(r.rid for r in core.RULES.values() if p in r.props)
    checks.append({
        "property_id": p,
        "quick_cmd": f"/venv/bin/python sa/check.py {p} --tier quick",
        "thorough_cmd": f"/venv/bin/python sa/check.py {p} --tier thorough",
        "evidence_file": f"/verif/evidence/{p}.json",
        "replay_cmd_template": "/venv/bin/python sa/check.py --replay {path}",
        "engine": "sa",
        "level_claimed": {
            "category": "other",
            "text": "Static analysis (ast) of /repo's working tree: decides structural NECESSARY conditions of the property on every "
                    "call site / path / table row, not the behaviour itself. Decided: " + info["decided"] +
                    " Rules: " + ", ".join(rules) + ". This is the level static analysis can honestly reach for a property that quantifies over runtime IR contents.",
            "design_ref": f"DESIGN.md section 5 ({p})",
        },
        "level_note": "NOT decided: " + info["not_decided"] + " Trusted base: " + "; ".join(info.get("trusted_base", [])) +
                      "; guard algebra assumes identical condition text without intervening reassignment has one truth value.",
        "technique": "custom AST dataflow/guard analysis: " + TECH.get(p, "structural rules over the syntax tree") if (TECH := {
            "C01": "linear normal form of splice arithmetic + order-type tabulation of shift predicates",
            "C02": "interprocedural must-precede (guarded linearisation) + decision tables",
            "C03": "exhaustive-filter edge-loop analysis on paths to block retirement + edge-kind decision tables",
            "C04": "order-type tabulation of re-keying comprehensions (region evaluator) + alias/escape check",
            "C05": "table-registry exhaustiveness (every block-typed aux table cleaned on every path) + finally/creation-site checks",
            "C06": "mirror-pair (table write <-> cache write) and guard-domination checks",
            "C07": "sibling-implementation agreement + syntax-directed protocol order",
            "C08": "directive vocabulary closure + boundary tabulation of CFI split/tracker",
            "C09": "taint-style source/sanitiser/sink analysis over the call-graph cone of apply()",
            "C10": "lockstep (linear) accounting + padding discipline ordering",
            "C11": "unordered-iteration classification (effect commutativity) over the rewrite cone",
            "C12": "decision-table extraction of emit_instruction + single-writer check",
            "C13": "name-provenance and must-precede checks in the assembler symbol pre-pass",
            "C14": "class-registry extraction compared with a DWARF v4 opcode/operand table",
            "C15": "may-raise analysis + per-directive transfer table comparison",
            "C16": "snippet template effect tables: pairing, SP accounting, red-zone ordering",
            "C17": "symbolic SP-delta sum over emitted templates + interval check of formatted immediates",
            "C18": "table-use classification + refusal-before-store must-precede",
            "C19": "Symbol-typed table registry exhaustiveness + raise-before-delete ordering",
            "C20": "override completeness against installed gtirb.CFG source + mirror-pair checks",
        }) else "",
    })
na = []
for p in all_props:
    if p not in claimed:
        na.append({"property_id": p, "reason": NA_REASONS.get(p, "no exact structural obligation has been built for this property yet; it quantifies over runtime IR contents/histories that static analysis cannot bound")})
man = {
    "version": 1,
    "setup_cmd": "/venv/bin/python -c \"import ast, sys; assert sys.version_info >= (3, 9)\"",
    "hooks": {
        "guard": "GTIRB_REWRITING_VERIF",
        "enable": "none needed: the checks parse /repo's working tree and never import or run it; no hook commits exist",
        "baseline_off_cmd": "cd /repo && /venv/bin/python -m pytest -ra -q -p no:cacheprovider --timeout=900 --continue-on-collection-errors",
        "source_commits": [],
        "add_only": True,
    },
    "engines": [{
        "name": "sa",
        "path": "/verif/sa",
        "serves_properties": claimed,
        "kind_free_text": "repository-specific static checker: ast loader, annotation-driven call graph, guarded linearisation (syntax-directed dominance with guard algebra), order-type/decision-table/linear-normal-form deciders, rule files sa/rules/cXX.py",
    }],
    "checks": checks,
    "notes": "All checks are static analysis of /repo/src/gtirb_rewriting (VERIF_REPO overrides the root for the self-test's scratch copies). exit 0 held / 1 VIOLATION / 2 ANALYSIS-ERROR (anchor vanished, shape not interpretable, or - restructuring gate, DESIGN 3.7 - a mechanism rule met a function that was restructured relative to the tree it was validated on (sa/reference_shapes.json): the obligations it could not match are listed and the rule must be re-validated; never a silent pass, never reported as a violation). Generic lints (GEN.*) and the interpretive rules in core.UNGATED_RULES judge whatever code is there. Known findings: /verif/known_findings.json.",
    "not_applicable": na,
}
(ROOT / "MANIFEST.json").write_text(json.dumps(man, indent=1) + "\n")
print("claimed", claimed, "na", [x["property_id"] for x in na])
