import json
props = {json.loads(l)['id']: json.loads(l) for l in open('/verif/properties.jsonl')}
known = {
 'C03': ["deleting the terminator (ret/jmp) of a block leaves the head without a fallthrough edge to the next block", "code inserted after a terminator that does not fall through gets no fallthrough edge to the next block"],
 'C05': ["editing inside the region where two blocks overlap leaves the other block extending past its byte interval (TODO in edit_byte_interval)"],
 'C01': ["editing inside the region where two blocks overlap leaves the other block extending past its byte interval (TODO in edit_byte_interval)"],
 'C11': ["sorted/min/max over sets of blocks keyed by address/offset only: ties (overlapping or zero-sized blocks at one address) are broken by set order", "two module symbols with the same name: which one a patch binds to / get_or_insert_extern_symbol returns depends on set order"],
 'C15': [".cfi_rel_offset is not implemented by the evaluator"],
 'C17': ["x86 CallPatch passes a Symbol argument in a register with `mov reg, sym` semantics that load the contents rather than the address (already recorded)"],
}
for pid, p in props.items():
    q = p['quantifier']
    if isinstance(q, str):
        import ast; q = ast.literal_eval(q)
    kn = "\n".join(f"- {k}" for k in known.get(pid, [])) or "- (none recorded for this property)"
    text = f"""# Task: find inputs on which the UNCHANGED gtirb-rewriting library violates a stated property

You work ONLY inside the scratch git worktree `/tmp/wt/{pid}` (a checkout of the Python library
GrammaTech/gtirb-rewriting). Do not read or write `/repo` or `/verif`; do not look for any
verification tooling. Do NOT modify the library sources (you may add throw-away scripts under `/tmp/wt/{pid}/hunt/`).

Run things like this (the worktree's sources take precedence over the installed copy):

    cd /tmp/wt/{pid} && PYTHONPATH=/tmp/wt/{pid}/src /venv/bin/python your_script.py
    cd /tmp/wt/{pid} && PYTHONPATH=/tmp/wt/{pid}/src /venv/bin/python -m pytest -q -p no:cacheprovider tests   # 331 passed, 2 e2e failures expected

`gtirb_test_helpers` (create_test_module, add_text_section, add_data_section, add_code_block, add_data_block, add_symbol,
add_edge, add_proxy_block, set_all_blocks_alignment ...) is installed, `tests/helpers.py` has add_function_object etc.;
read `tests/*.py` for idioms. capstone (`capstone_gt`) and `mcasm` are installed. `hypothesis` is NOT available in /venv; write
plain random/enumerative generators. There is no network.

## The property

**{pid} - {p['title']}**

{p['statement']}

Quantified over: {q['text']}

## Goal

Find up to **3 genuinely different** concrete inputs (module + operations, or API call sequences) for which the library
**as it is** breaks the property above. Build an independent oracle for the property (a simple reference model /
re-computation from the edited listing, a decoder, an abstract machine - whatever fits) and search with it:
enumerate small cases systematically, then randomise. Focus on the corners the property's quantifier names.

Rules for what counts:
* It must be a violation of the property **as stated**, by the library's own code, on well-formed input used through
  the documented API (RewritingContext / Patch / the assembler / dwarf classes / the named internal containers).
* Not a documented limitation: check README.md, doc/, docstrings and error messages first. Clean refusals
  (an exception of the documented kind) are not violations unless the property says the operation must work.
* Not an artefact of your oracle: re-derive the expected result by hand for the minimal case and say why it is expected.
* Minimise: the smallest module and the fewest operations that still show it.
* Find the root cause: name the function and the lines responsible, and say in one or two sentences what a minimal
  correct fix would be (do not apply it).

Already known on this tree - do not report these again:
{kn}

## What to write

For each finding k = 1..3: `/tmp/wt/{pid}/hunt/k/demo.py` - standalone script that builds the input, runs the library, prints
what it observed and what the property requires, and **exits 1 when the violation is present** (0 if it were fixed);
and `/tmp/wt/{pid}/hunt/k/note.md` - the property clause violated, the minimal input, expected vs. observed, root cause
(file:function:lines), suggested minimal fix, and how confident you are that it is not a documented limitation.

If you cannot find a violation after a serious search, say so and describe what you covered (which generators, how many
cases, which corners), in `/tmp/wt/{pid}/hunt/REPORT.md`. A false report is worse than none.

Finish with a short report listing each finding in one or two lines.
"""
    open(f'/tmp/wt/{pid}/PROMPT4.md', 'w').write(text)
print("ok")
