#!/venv/bin/python
"""Dev tool: run rules (by id prefix) on the working tree and print every instance."""
import sys, traceback
from pathlib import Path
sys.path.insert(0, str(Path(__file__).resolve().parent.parent))
from sa import core
from sa.rules import load_all
load_all()
repo = core.Repo()
verbose = '-v' in sys.argv
pre = [a for a in sys.argv[1:] if not a.startswith('-')]
for rid, r in sorted(core.RULES.items()):
    if pre and not any(rid.startswith(p) for p in pre):
        continue
    ctx = core.Ctx(repo, r, 'quick')
    try:
        r.fn(ctx)
    except Exception:
        traceback.print_exc()
    nv = sum(1 for i in ctx.instances if i.verdict != 'ok')
    print(f"== {rid}: {len(ctx.instances)} instances (min {r.min_instances}), {nv} violations")
    for i in ctx.instances:
        if verbose or i.verdict != 'ok':
            print('  ', i.verdict, i.where, '[', i.construct, ']', i.reason[:300])
