#!/venv/bin/python
"""Run every seeded change against every check and write seeded/INDEX.md + seeded/results.json."""
import json, sys
from pathlib import Path
from concurrent.futures import ProcessPoolExecutor
ROOT = Path(__file__).resolve().parent.parent
sys.path.insert(0, str(ROOT))
sys.path.insert(0, str(ROOT / "tools"))
from seedscan import one

if __name__ == "__main__":
    dirs = sorted(str(p) for p in (ROOT / "seeded").glob("*") if (p / "patch.diff").exists())
    with ProcessPoolExecutor(12) as ex:
        rows = list(ex.map(one, dirs))
    res = {}
    lines = ["| change | property | what was changed (sub-agent's summary, shortened) | caught by (rule -> properties whose check reports it) |", "|---|---|---|---|"]
    for r in rows:
        name, prop, own, fired = r[0], r[1], r[2], r[3]
        meta = json.loads((ROOT / "seeded" / name / "meta.json").read_text())
        summ = " ".join(str(meta.get("summary", "")).split())[:230].replace("|", "/")
        fr = "; ".join(f"{k} -> {','.join(v)}" for k, v in sorted(fired.items())) if isinstance(fired, dict) else str(fired)
        errs = r[4] if len(r) > 4 else []
        und = "; ".join(sorted({e.split(":")[0] for e in errs}))
        if fr:
            cell = fr + ("" if own else " (only under another property)")
        elif errs:
            cell = f"*undecided* - exit 2, rules that could not be matched: {und}"
        else:
            cell = "**missed**"
        lines.append(f"| {name} | {prop} | {summ} | {cell} |")
        res[name] = {"property": prop, "own_property_check_fires": bool(own), "rules": fired if isinstance(fired, dict) else {}, "undecided_rules": sorted({e.split(":")[0] for e in errs}) if not fr else []}
    (ROOT / "seeded" / "INDEX.md").write_text("\n".join(lines) + "\n")
    (ROOT / "seeded" / "results.json").write_text(json.dumps(res, indent=1) + "\n")
    print(len(rows), "changes;", sum(1 for v in res.values() if v["rules"]), "with a VIOLATION;", sum(1 for v in res.values() if v["own_property_check_fires"]), "under their own property;",
          sum(1 for v in res.values() if not v["rules"] and v["undecided_rules"]), "undecided (exit 2);", sum(1 for v in res.values() if not v["rules"] and not v["undecided_rules"]), "missed")
