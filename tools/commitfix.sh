#!/bin/bash
# usage: commitfix.sh <Fid> <msgfile>   -- moves the candidate fix from /tmp/wt/verify into /repo as one "fix:" commit
set -e
W=/tmp/wt/verify
cd $W && git diff -- src > /tmp/fix_$1.diff
[ -s /tmp/fix_$1.diff ] || { echo "empty diff"; exit 1; }
cd /repo && git apply /tmp/fix_$1.diff
r=$(/venv/bin/python -m pytest -ra -q -p no:cacheprovider --timeout=900 --continue-on-collection-errors 2>&1 | tail -1)
echo "repo suite: $r"
echo "$r" | grep -q "331 passed" || { echo "SUITE BROKEN"; git checkout -- .; exit 1; }
git -c user.name=builder -c user.email=builder@example.com commit -qa -F $2
h=$(git rev-parse --short HEAD); echo "committed $h"
git -C /repo diff HEAD HEAD~1 -- src > /verif/selftest/fix_reverts/$1.diff
cd $W && git checkout -q -- . && git checkout -q --detach $h
echo $h > /tmp/last_fix_hash
