#!/venv/bin/python
"""Confirm sub-agent *correct* commits (round 10) and copy them to /verif/selftest/correct/.
usage: WT_ROOT=/tmp/wt10 WT_VERIFY=<scratch worktree> verify_correct.py Cxx [Cyy ...]
For each commit: clean worktree -> check.py passes; apply patch -> suite still 331 passed and check.py still passes."""
import json, os, shutil, subprocess, sys
from pathlib import Path

VER = Path(os.environ.get("WT_VERIFY", "/tmp/wt/verify"))
DEST = Path("/verif/selftest/correct")


def sh(cmd, cwd=None, env=None, timeout=900):
    r = subprocess.run(cmd, shell=True, cwd=cwd, env=env, capture_output=True, text=True, timeout=timeout)
    return r.returncode, r.stdout + r.stderr


env = dict(os.environ, PYTHONPATH=str(VER / "src"))
head = sh("git rev-parse HEAD", cwd=VER)[1].strip()
for prop in sys.argv[1:]:
    base = Path(os.environ.get("WT_ROOT", "/tmp/wt10")) / prop / "out"
    for d in sorted(base.glob("*")):
        if not (d / "patch.diff").exists() or not (d / "check.py").exists():
            continue
        name = f"{prop}-ok-{d.name}"
        dest = DEST / name
        if dest.exists():
            print(name, "already kept"); continue
        sh("git checkout -q -- . ", cwd=VER)
        rc0, _ = sh(f"/venv/bin/python {d/'check.py'}", cwd=VER, env=env)
        rc, out = sh(f"git apply {d/'patch.diff'}", cwd=VER)
        if rc != 0:
            print(name, "PATCH DOES NOT APPLY", out[:200]); continue
        _, outt = sh("/venv/bin/python -m pytest -q -p no:cacheprovider tests 2>&1 | tail -3", cwd=VER, env=env)
        rc1, out1 = sh(f"/venv/bin/python {d/'check.py'}", cwd=VER, env=env)
        sh("git checkout -q -- . ", cwd=VER)
        ok = rc0 == 0 and rc1 == 0 and "331 passed" in outt
        print(name, "clean_check_rc", rc0, "patched_check_rc", rc1, "suite", outt.strip().splitlines()[-1] if outt.strip() else "?", "=> KEEP" if ok else "=> DROP")
        if not ok:
            continue
        dest.mkdir(parents=True)
        shutil.copy(d / "patch.diff", dest / "patch.diff")
        shutil.copy(d / "check.py", dest / "check.py")
        meta = json.loads((d / "meta.json").read_text()) if (d / "meta.json").exists() else {}
        meta.update({"property": prop, "origin": "fresh sub-agent asked for a CORRECT commit (property text and a scratch worktree only)", "base_commit": head,
                     "confirmed": {"clean_check_exit": rc0, "patched_check_exit": rc1, "patched_suite": outt.strip().splitlines()[-1] if outt.strip() else ""}})
        (dest / "meta.json").write_text(json.dumps(meta, indent=1) + "\n")
