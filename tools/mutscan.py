#!/venv/bin/python
"""Run the checker against the test-suite survivors produced by tools/mutgen.py.
usage: mutscan.py OUT [--jobs N] [--only substring]   -> OUT/scan.jsonl + summary"""
import json, sys, os
from pathlib import Path
from concurrent.futures import ProcessPoolExecutor
ROOT = Path(__file__).resolve().parent.parent
sys.path.insert(0, str(ROOT))

def one(d):
    from sa import core, mutate
    from sa.rules import load_all
    load_all()
    d = Path(d)
    meta = json.loads((d / "meta.json").read_text())
    allp = sorted({p for r in core.RULES.values() for p in r.props})
    try:
        with mutate.scratch_copy() as root:
            (root / "src" / core.PKG / meta["file"]).write_text((d / "new.py").read_text())
            res = mutate.run_props(root, allp)
    except Exception as exc:
        return {**meta, "id": d.name, "status": "error", "err": repr(exc)[:200]}
    fired = sorted({v[0] for p, (code, viol, es) in res.items() for v in viol})
    errs = sorted({e.split(":")[0] for p, (code, viol, es) in res.items() for e in es})
    return {**meta, "id": d.name, "status": "killed" if fired else ("error-only" if errs else "missed"), "rules": fired[:6], "errors": errs[:4]}

if __name__ == "__main__":
    out = Path(sys.argv[1]); jobs = 6; only = None
    a = sys.argv[2:]
    while a:
        if a[0] == "--jobs": jobs = int(a[1]); a = a[2:]
        elif a[0] == "--only": only = a[1]; a = a[2:]
        else: a = a[1:]
    done = set()
    sj = out / "scan.jsonl"
    if sj.exists():
        for l in sj.read_text().splitlines():
            done.add(json.loads(l)["id"])
    dirs = sorted(str(p) for p in (out / "survivors").glob("*") if (p / "new.py").exists() and p.name not in done and (only is None or only in p.name))
    with ProcessPoolExecutor(jobs) as ex, open(sj, "a") as f:
        for r in ex.map(one, dirs):
            f.write(json.dumps(r) + "\n"); f.flush()
    rows = [json.loads(l) for l in sj.read_text().splitlines()]
    k = sum(1 for r in rows if r["status"] == "killed")
    print(f"{len(rows)} survivors scanned: {k} killed, {sum(1 for r in rows if r['status']=='error-only')} analysis-error only, {sum(1 for r in rows if r['status']=='missed')} missed")
