"""
C20 / OffsetMapping: clear() (and popitem()-ing everything) empties the by-Offset view but
leaves every element key behind, so the by-element view disagrees with a dictionary of
dictionaries, and with OffsetMapping.__contains__'s own docstring ("... or any offset for a
given element").

Model: d = {element: {displacement: value}}
    d.clear()  ->  d == {},  element not in d,  d[element] raises KeyError, no keys.

Run: cd /repo && PYTHONPATH=/repo/src /venv/bin/python hunt/2/demo.py
Exits 1 when the violation is present, 0 otherwise.
"""
import sys
import uuid

from gtirb import Offset

from gtirb_rewriting import OffsetMapping

e = uuid.UUID(int=1)

m = OffsetMapping()
model = {}

m[Offset(e, 0)] = "a"
model.setdefault(e, {})[0] = "a"

m.clear()
model.clear()

bad = []


def check(what, got, want):
    flag = "" if got == want else "   <-- differs"
    print(f"  {what:32} library={got!r:28} model={want!r}{flag}")
    if got != want:
        bad.append(what)


def lookup(mapping, key):
    try:
        return mapping[key]
    except KeyError:
        return "KeyError"


print("after  m[Offset(e, 0)] = 'a';  m.clear():")
check("len(m)", len(m), 0)
check("dict(m)", dict(m), {})
check("e in m", e in m, e in model)
check("m[e]", lookup(m, e), lookup(model, e))
check("m.get(e)", m.get(e), model.get(e))
check("list(m.node_keys())", list(m.node_keys()), list(model))
check("m.pop(e, 'absent')", m.pop(e, "absent"), model.pop(e, "absent"))

# The fresh mapping, which is the same abstract value, for comparison.
fresh = OffsetMapping()
print("fresh OffsetMapping():   e in m =", e in fresh, "  node_keys =", list(fresh.node_keys()))

print()
print("property requires: after clear() the mapping has no elements at all, like {}.clear()")
if bad:
    print("VIOLATION:", ", ".join(bad))
    sys.exit(1)
print("ok")
sys.exit(0)
