"""
C02 finding 3: the label of a zero-sized block is displaced across bytes that
nobody touched when the first bytes of the block that follows it are deleted
(or the following block is deleted as a whole).

Whether it happens depends on the iteration order of ByteInterval.blocks (an
identity-hashed set), so every scenario is rebuilt and re-run TRIALS times; it
shows up in roughly half of the trials.

Run:  cd /repo && PYTHONPATH=/repo/src /venv/bin/python hunt/3/demo.py
Exit status 1 = violation present, 0 = not present.
"""
import logging
import sys

sys.path.insert(0, "/repo/tests")

import gtirb
import gtirb_rewriting
from gtirb_test_helpers import (
    add_code_block,
    add_data_block,
    add_data_section,
    add_edge,
    add_symbol,
    add_text_section,
    create_test_module,
)

logging.disable(logging.CRITICAL)
TRIALS = 40


def addr(sym):
    r = sym.referent
    assert isinstance(r, gtirb.ByteBlock) and r.byte_interval is not None
    return r.address + (r.size if sym.at_end else 0)


def scenario_input_zero_sized():
    """
        a:  .byte 1,2,3,4
        z:                    <- zero-sized data block, label z
        b:  .byte 5,6,7
    delete_at(b, 0, 2)  ->  "a: 1 2 3 4  z: b: 7", z stays at 0x1004
    """
    ir, m = create_test_module(
        gtirb.Module.FileFormat.ELF, gtirb.Module.ISA.X64
    )
    _, bi = add_data_section(m, address=0x1000)
    a = add_data_block(bi, b"\x01\x02\x03\x04")
    z = add_data_block(bi, b"")
    b = add_data_block(bi, b"\x05\x06\x07")
    add_symbol(m, "a", a)
    z_sym = add_symbol(m, "z", z)
    b_sym = add_symbol(m, "b", b)

    ctx = gtirb_rewriting.RewritingContext(m, [])
    ctx.delete_at(b, 0, 2)
    ctx.apply()
    assert bytes(bi.contents) == b"\x01\x02\x03\x04\x07"
    assert addr(b_sym) == 0x1004
    return addr(z_sym), 0x1004


def scenario_library_made_zero_sized():
    """
        p:    jmp foo          <- 2 bytes
        foo:  ud2              <- code block with an incoming branch
        d1:   .byte 1,2,3,4    <- data
        d2:   .byte 5,6,7,8    <- data

    Rewrite 1 deletes all of foo. As documented in doc/Deletion.md, foo is
    kept as a zero-sized block because it has incoming control flow and the
    next block is data:  "p: jmp foo; foo: d1: 1 2 3 4 ...", foo == 0x1002.

    Rewrite 2 (a new RewritingContext) deletes the first two bytes of d1:
    "p: jmp foo; foo: d1: 3 4 ...", so foo still has to be 0x1002.
    """
    ir, m = create_test_module(
        gtirb.Module.FileFormat.ELF, gtirb.Module.ISA.X64
    )
    _, bi = add_text_section(m, address=0x1000)
    foo_sym = add_symbol(m, "foo")
    p = add_code_block(bi, b"\xEB\x00", {(1, 1): gtirb.SymAddrConst(0, foo_sym)})
    foo = add_code_block(bi, b"\x0F\x0B")
    foo_sym.referent = foo
    d1 = add_data_block(bi, b"\x01\x02\x03\x04")
    d2 = add_data_block(bi, b"\x05\x06\x07\x08")
    add_symbol(m, "p", p)
    d1_sym = add_symbol(m, "d1", d1)
    add_symbol(m, "d2", d2)
    add_edge(ir.cfg, p, foo, gtirb.EdgeType.Branch)

    ctx = gtirb_rewriting.RewritingContext(m, [])
    ctx.delete_at(foo, 0, foo.size)
    ctx.apply()
    assert bytes(bi.contents) == b"\xEB\x00\x01\x02\x03\x04\x05\x06\x07\x08"
    assert foo.size == 0 and foo.byte_interval is bi and addr(foo_sym) == 0x1002

    ctx = gtirb_rewriting.RewritingContext(m, [])
    ctx.delete_at(d1, 0, 2)
    ctx.apply()
    assert bytes(bi.contents) == b"\xEB\x00\x03\x04\x05\x06\x07\x08"
    assert addr(d1_sym) == 0x1002
    return addr(foo_sym), 0x1002


if __name__ == "__main__":
    bad = False
    for name, fn in (
        ("zero-sized block in the input module", scenario_input_zero_sized),
        (
            "zero-sized block left by the library's own previous rewrite",
            scenario_library_made_zero_sized,
        ),
    ):
        results = [fn() for _ in range(TRIALS)]
        want = results[0][1]
        wrong = [got for got, _ in results if got != want]
        print("%s:" % name)
        print(
            "  required address of the label: 0x%x in every trial; "
            "observed wrong in %d of %d trials%s"
            % (
                want,
                len(wrong),
                TRIALS,
                " (e.g. 0x%x)" % wrong[0] if wrong else "",
            )
        )
        bad |= bool(wrong)
    if bad:
        print(
            "VIOLATION: the zero-sized block's label moved back over bytes "
            "of the preceding block that were not edited"
        )
        sys.exit(1)
    print("ok")
    sys.exit(0)
