#!/usr/bin/env python
"""
C15 finding 3: a pointer-encoding operand of .cfi_personality / .cfi_lsda that
is not a single byte (DW_EH_PE_* encodings are one byte) is not reported; the
evaluator silently yields a state with an impossible encoding, or - for
negative values - silently treats the directive as DW_EH_PE_omit and drops
the personality / LSDA.

Run:  cd /repo && PYTHONPATH=/repo/src /venv/bin/python hunt2/3/demo.py
Exit status 1 = violation present, 0 = fixed.
"""
import sys
import uuid

import gtirb
from gtirb_test_helpers import (
    add_code_block,
    add_text_section,
    create_test_module,
)

from gtirb_rewriting.dwarf.cfi_eval import (
    CFIStateError,
    evaluate_cfi_directives,
)

NULL = uuid.UUID(int=0)


def run(directive, encoding):
    _, m = create_test_module(
        gtirb.Module.FileFormat.ELF, gtirb.Module.ISA.X64
    )
    _, bi = add_text_section(m, address=0x1000)
    b = add_code_block(bi, b"\x90")
    sym = gtirb.Symbol("__gxx_personality_v0", module=m)
    m.aux_data["cfiDirectives"].data[gtirb.Offset(b, 0)] = [
        (".cfi_startproc", [], NULL),
        (directive, [encoding], sym),
    ]
    ((_, _, state),) = evaluate_cfi_directives(m, [b])
    return state


bad = False
for directive, encoding in [
    (".cfi_personality", 0x1FF),
    (".cfi_personality", 0x100),
    (".cfi_lsda", 0x19B),
    (".cfi_personality", -1),
    (".cfi_lsda", -256),
]:
    print(f"{directive} {encoding:#x}, sym")
    print("  required: CFIStateError or ValueError (encoding is not a byte)")
    try:
        st = run(directive, encoding)
        ok = False
        field = st.personality if directive == ".cfi_personality" else st.lsda
        if field is None:
            print("  observed: no error; state yielded with the pointer "
                  "silently dropped (treated as DW_EH_PE_omit)")
        else:
            print(f"  observed: no error; state yielded with encoding="
                  f"{int(field.encoding)} ({field.encoding!r})")
    except (CFIStateError, ValueError) as e:
        ok = True
        print(f"  observed: {type(e).__name__}: {e}")
    except Exception as e:  # noqa: BLE001
        ok = False
        print(f"  observed: wrong exception type {type(e).__name__}: {e}")
    counted = encoding > 0xFF  # negative operands: informational only
    print(f"  -> {'ok' if ok else 'VIOLATION'}"
          f"{'' if counted else ' (informational, not counted)'}")
    bad |= counted and not ok

# Controls: every single-byte value keeps working.
st = run(".cfi_personality", 0x9B)
assert st.personality is not None and int(st.personality.encoding) == 0x9B
st = run(".cfi_personality", 0xFF)
assert st.personality is None
st = run(".cfi_lsda", 0x00)
assert st.lsda is not None and int(st.lsda.encoding) == 0
print("controls (0x9b, 0xff, 0x00) ok")

sys.exit(1 if bad else 0)
