#!/usr/bin/env python
"""
C14 finding 1: the directive/operand form that a named-directive CFI
instruction hands to GTIRB does not re-encode to the instruction's bytes when
an unsigned-LEB128 operand is >= 2**63 (a value the class accepts and encodes
correctly with .encode()).

Run:  cd /repo && PYTHONPATH=/repo/src /venv/bin/python hunt/1/demo.py
Exit status 1 = violation present, 0 = fixed (either the value is rejected
with ValueError, or the GTIRB form re-encodes to the same bytes).
"""
import io
import sys

import gtirb
import gtirb_rewriting
from gtirb_rewriting._auxdata import cfi_directives
from gtirb_rewriting.dwarf.cfi import InstDefCFA
from gtirb_test_helpers import (
    add_code_block,
    add_text_section,
    create_test_module,
)

INT64 = range(-(2**63), 2**63)


def uleb(v):  # independent reference, DWARF v5 sec. 7.6
    assert v >= 0
    out = bytearray()
    while True:
        b, v = v & 0x7F, v >> 7
        if v:
            out.append(b | 0x80)
        else:
            out.append(b)
            return bytes(out)


def sleb(v):
    out = bytearray()
    while True:
        b, v = v & 0x7F, v >> 7
        done = (v == 0 and not b & 0x40) or (v == -1 and b & 0x40)
        out.append(b if done else b | 0x80)
        if done:
            return bytes(out)


def reencode_def_cfa(reg, off):
    """What `.cfi_def_cfa reg, off` means to an assembler (gas, dw2gencfi.c:
    a negative offset selects DW_CFA_def_cfa_sf with a factored offset; data
    alignment factor on x86-64 is -8)."""
    if off >= 0:
        return b"\x0c" + uleb(reg) + uleb(off)
    return b"\x12" + uleb(reg) + sleb(off // -8)


REG, OFF = 7, 2**63
violations = []

try:
    inst = InstDefCFA(REG, OFF)
    lib_bytes = bytes(inst.encode("little", 8))
    directive, operands, _ = inst.gtirb_encoding("little", 8)
    text = inst.assembly_string("little", 8)
except ValueError as err:
    print("value rejected with ValueError (clean refusal):", err)
    sys.exit(0)

expected_bytes = b"\x0c\x07" + b"\x80" * 9 + b"\x01"  # by hand: ULEB(2**63)
print("instruction          :", inst)
print("encode()             :", lib_bytes.hex())
print("standard prescribes  :", expected_bytes.hex())
assert lib_bytes == expected_bytes  # the byte encoding itself is right
print("GTIRB form           :", (directive, operands))
print("assembly_string      :", text)

# (a) the operands of a cfiDirectives entry are int64_t in the GTIRB schema
if directive != ".cfi_escape" and any(o not in INT64 for o in operands):
    violations.append("operand does not fit the aux data's int64_t")
    ir, m = create_test_module(
        gtirb.Module.FileFormat.ELF, gtirb.Module.ISA.X64, binary_type=["DYN"]
    )
    _, bi = add_text_section(m)
    block = add_code_block(bi, b"\x90")
    cfi_directives.get_or_insert(m)[gtirb.Offset(block, 0)] = [
        inst.gtirb_encoding("little", 8)
    ]
    try:
        ir.save_protobuf_file(io.BytesIO())
        print("(a) IR saved")
    except Exception as err:  # OverflowError
        print("(a) saving the IR with this directive fails:", repr(err))

# (b) the library's own assembler reading the directive text back
ir, m = create_test_module(
    gtirb.Module.FileFormat.ELF, gtirb.Module.ISA.X64, binary_type=["DYN"]
)
asm = gtirb_rewriting.Assembler(m, implicit_cfi_procedure=True)
asm.assemble("nop\n" + text + "\nnop\n")
result = asm.finalize()
read_back = [
    d
    for proc in result.text_section.cfi_procedures
    for ds in proc.instructions.values()
    for d in ds
]
print("(b) Assembler reads  :", [d[:2] for d in read_back])
(rb_directive, rb_operands, _) = read_back[0]
if rb_directive == ".cfi_escape":
    rb_bytes = bytes(rb_operands)
else:
    assert rb_directive == ".cfi_def_cfa"
    rb_bytes = reencode_def_cfa(*rb_operands)
print("(b) which re-encodes :", rb_bytes.hex())
if rb_bytes != lib_bytes:
    violations.append(
        "directive form re-encodes to different bytes "
        f"({rb_bytes.hex()} != {lib_bytes.hex()})"
    )

print()
print(
    "property requires: the directive/operand form handed to GTIRB re-encodes"
    " to the same bytes as encode() for every operand value the class accepts"
)
if violations:
    for v in violations:
        print("VIOLATION:", v)
    sys.exit(1)
print("OK")
sys.exit(0)
