#!/usr/bin/env python
"""
C05 finding 1: the layout pass at the end of apply() re-binds integral symbols
against *stale* byte-interval addresses and creates a zero-sized block in the
middle of freshly inserted code.

Run:  cd /repo && PYTHONPATH=/repo/src /venv/bin/python hunt2/1/demo.py
Exit status 1 = violation present, 0 = fixed.
"""
import io
import sys

import gtirb
from gtirb_test_helpers import (
    add_code_block,
    add_data_block,
    add_data_section,
    add_symbol,
    add_text_section,
    create_test_module,
)

import gtirb_rewriting
from gtirb_rewriting import Patch, patch_constraints


def literal_patch(asm):
    @patch_constraints()
    def p(ctx):
        return asm

    return Patch.from_function(p)


def build():
    ir, m = create_test_module(
        gtirb.Module.FileFormat.ELF, gtirb.Module.ISA.X64
    )
    # .text = [0x1000, 0x1001)   one nop
    _, tbi = add_text_section(m, address=0x1000)
    b1 = add_code_block(tbi, b"\x90")
    # .data = [0x1008, 0x100c)
    _, dbi = add_data_section(m, address=0x1008)
    d = add_data_block(dbi, b"\x01\x02\x03\x04")
    add_symbol(m, "d", d)
    # An integral (address-valued) symbol that points into the gap between
    # the two sections: no byte interval of the module contains 0x1004.
    gap = gtirb.Symbol("gap_sym", payload=0x1004, module=m)
    assert not list(m.byte_intervals_on(0x1004))
    return ir, m, b1, gap


def run(n_nops):
    ir, m, b1, gap = build()
    before_zero = {b for b in m.byte_blocks if b.size == 0}
    ctx = gtirb_rewriting.RewritingContext(m, [])
    ctx.insert_at(b1, b1.size, literal_patch("nop\n" * n_nops))
    ctx.apply()
    new_zero = [b for b in m.byte_blocks if b.size == 0 and b not in before_zero]
    return ir, m, gap, new_zero


bad = False

# Control: a small insertion (.text grows to [0x1000,0x1004), no overlap with
# .data, so no re-layout happens).  gap_sym stays what it was.
ir, m, gap, new_zero = run(3)
print("small insertion : gap_sym payload =", gap._payload, "| new zero-sized blocks:", len(new_zero))

# Same module, the insertion is just a bit bigger so that .text now overlaps
# .data's old address and apply() lays the module out again.
ir, m, gap, new_zero = run(9)
print("larger insertion: gap_sym payload =", gap._payload)
print("                  new zero-sized blocks:", [(type(b).__name__, b.offset, b.size) for b in new_zero])

print()
print("required: no deletion was requested, so no zero-sized block may appear")
print("          (doc/Deletion.md lists the only cases) and gap_sym, which")
print("          referred to no byte interval, stays an integral symbol.")
if new_zero or isinstance(gap._payload, gtirb.Block):
    z = gap._payload
    if isinstance(z, gtirb.ByteBlock):
        host = [
            b
            for b in z.byte_interval.blocks
            if b is not z and b.offset < z.offset < b.offset + b.size
        ]
        print(
            "observed: gap_sym now refers to a new %s of size %d at offset %d of .text,"
            % (type(z).__name__, z.size, z.offset)
        )
        print(
            "          i.e. inside the inserted code block(s) %s"
            % [(b.offset, b.size) for b in host]
        )
    bad = True
else:
    print("observed: gap_sym unchanged, no zero-sized block")

sys.exit(1 if bad else 0)
