#!/usr/bin/env python
"""
C18 finding 1: retarget_symbol_uses combined with delete_function /
delete_at(..., retarget_to_proxy=True) of A's block leaves the uses of A in
their *internal* attribute form although B is external.

    main:  lea f(%rip), %rax      # SymAddrConst(f), attrs {}
           call f                 # SymAddrConst(f), attrs {}
           ret
    f:     ret                    # internal function, deleted in the same rewrite
    ext:   external (proxy block)

    ctx.delete_function(f); ctx.retarget_symbol_uses(f, ext); ctx.apply()

Required (x86-64 ELF PIE rule, and what the library itself produces when f is
not deleted):   lea ext@GOTPCREL(%rip), %rax  /  call ext@PLT
Observed:       lea ext(%rip), %rax           /  call ext      (attrs {})

Exit status 1 when the violation is present, 0 when fixed.
"""
import sys

import gtirb
import gtirb_rewriting
from gtirb_test_helpers import (
    add_code_block,
    add_edge,
    add_function,
    add_proxy_block,
    add_symbol,
    add_text_section,
    create_test_module,
)
import gtirb_functions

Attr = gtirb.SymbolicExpression.Attribute


def build(isa, binary_type):
    ir, m = create_test_module(
        gtirb.Module.FileFormat.ELF, isa, binary_type=binary_type
    )
    _, bi = add_text_section(m, address=0x1000)
    f_sym = add_symbol(m, "f")
    if isa == gtirb.Module.ISA.X64:
        # lea f(%rip), %rax ; call f
        b1 = add_code_block(
            bi,
            b"\x48\x8d\x05\x00\x00\x00\x00\xe8\x00\x00\x00\x00",
            {
                (3, 4): gtirb.SymAddrConst(0, f_sym),
                (8, 4): gtirb.SymAddrConst(0, f_sym),
            },
        )
        ret = b"\xc3"
    else:
        # adrp x0, f ; add x0, x0, :lo12:f ; bl f
        b1 = add_code_block(
            bi,
            bytes.fromhex("00000090" "00000091" "00000094"),
            {
                (0, 4): gtirb.SymAddrConst(0, f_sym),
                (4, 4): gtirb.SymAddrConst(0, f_sym, {Attr.LO12}),
                (8, 4): gtirb.SymAddrConst(0, f_sym),
            },
        )
        ret = bytes.fromhex("c0035fd6")
    b2 = add_code_block(bi, ret)
    b3 = add_code_block(bi, ret)
    f_sym.referent = b3
    add_symbol(m, "main", b1)
    add_edge(ir.cfg, b1, b3, gtirb.EdgeType.Call)
    add_edge(ir.cfg, b1, b2, gtirb.EdgeType.Fallthrough)
    add_edge(ir.cfg, b2, add_proxy_block(m), gtirb.EdgeType.Return)
    add_edge(ir.cfg, b3, b2, gtirb.EdgeType.Return)
    add_function(m, "main", b1, {b2})
    add_function(m, f_sym, b3)
    ext_sym = add_symbol(m, "ext", add_proxy_block(m))
    return ir, m, bi, f_sym, ext_sym, b3


def run(isa, binary_type, how):
    ir, m, bi, f_sym, ext_sym, b3 = build(isa, binary_type)
    functions = gtirb_functions.Function.build_functions(m)
    ctx = gtirb_rewriting.RewritingContext(m, functions)
    if how == "delete_function":
        (f_func,) = [fn for fn in functions if b3 in fn.get_all_blocks()]
        ctx.delete_function(f_func)
    elif how == "delete_at":
        ctx.delete_at(b3, 0, b3.size, retarget_to_proxy=True)
    ctx.retarget_symbol_uses(f_sym, ext_sym)
    ctx.apply()
    result = {}
    for interval in m.byte_intervals:
        for off, expr in interval.symbolic_expressions.items():
            result[interval.address + off - 0x1000] = (
                expr.symbol.name,
                frozenset(expr.attributes),
            )
    return result


def fmt(res):
    return {
        off: (name, sorted(a.name for a in attrs))
        for off, (name, attrs) in sorted(res.items())
    }


CASES = [
    (
        "x86-64 ELF PIE",
        gtirb.Module.ISA.X64,
        ["DYN"],
        # hand-derived from the rule table in abi.py (_X86_64_ELF, PIE):
        #   CODE_REF      internal {}  -> external {GOT, PCREL}
        #   CONTROL_FLOW  internal {}  -> external {PLT}
        {
            3: ("ext", frozenset({Attr.GOT, Attr.PCREL})),
            8: ("ext", frozenset({Attr.PLT})),
        },
    ),
    (
        "x86-64 ELF non-PIE",
        gtirb.Module.ISA.X64,
        ["EXEC"],
        # CODE_REF/CONTROL_FLOW internal {} -> external {PLT}
        {
            3: ("ext", frozenset({Attr.PLT})),
            8: ("ext", frozenset({Attr.PLT})),
        },
    ),
    (
        "ARM64 ELF PIE",
        gtirb.Module.ISA.ARM64,
        ["DYN"],
        # CODE_REF {} -> {GOT}; {LO12} -> {LO12, GOT}; no rule for branches
        {
            0: ("ext", frozenset({Attr.GOT})),
            4: ("ext", frozenset({Attr.LO12, Attr.GOT})),
            8: ("ext", frozenset()),
        },
    ),
]


def main():
    bad = False
    for name, isa, bt, required in CASES:
        print(f"== {name}")
        control = run(isa, bt, None)
        print("  retarget only (control):         ", fmt(control))
        if control != required:
            # the hand-derived expectation must agree with the library when
            # no deletion is involved, otherwise this demo is out of date
            print("  !! control differs from the hand-derived expectation")
        for how in ("delete_function", "delete_at"):
            observed = run(isa, bt, how)
            print(f"  {how:16s}+ retarget observed:", fmt(observed))
            print("  " + " " * 25 + "required:", fmt(required))
            if observed != required:
                print("  -> VIOLATION: uses of f now name ext but kept the "
                      "internal attribute form")
                bad = True
    return 1 if bad else 0


if __name__ == "__main__":
    sys.exit(main())
