"""
C02 finding 1: the end-of-block label of a block that is NOT deleted stops
following that block.  When something is inserted at the end of block A and
the zero-sized tail that carries A's at_end labels cannot be joined back, the
labels are re-attached to the START of the following block B.  From then on
they share B's fate:

  A1/A2  B is deleted with retarget_to_proxy (delete_function): A's end label
         (and a label defined at the end of the patch) become references to an
         external proxy block;
  C      B has an alignment: A's end label ends up behind the padding.

Run:  cd /repo && PYTHONPATH=/repo/src /venv/bin/python hunt/1/demo.py
Exit status 1 = violation present, 0 = not present.
"""
import logging
import sys

sys.path.insert(0, "/repo/tests")

import gtirb
import gtirb_rewriting
from gtirb_test_helpers import (
    add_code_block,
    add_edge,
    add_symbol,
    add_text_section,
    create_test_module,
)
from helpers import add_function_object, literal_patch

logging.disable(logging.CRITICAL)


def where(sym):
    r = sym.referent
    if isinstance(r, gtirb.ByteBlock) and r.byte_interval is not None:
        return "0x%x" % (r.address + (r.size if sym.at_end else 0))
    return type(r).__name__


def build(a_bytes, fallthrough):
    """
        foo:      <a_bytes>      <- block A (function foo)
        foo_end:                 <- at_end label of A
        bar:      ret            <- block B (function bar)
    """
    ir, m = create_test_module(
        gtirb.Module.FileFormat.ELF, gtirb.Module.ISA.X64
    )
    _, bi = add_text_section(m, address=0x1000)
    a = add_code_block(bi, a_bytes)
    b = add_code_block(bi, b"\xc3")
    if fallthrough:
        add_edge(ir.cfg, a, b, gtirb.EdgeType.Fallthrough)
    foo = add_function_object(m, "foo", a)
    bar = add_function_object(m, "bar", b)
    foo_end = add_symbol(m, "foo_end", a)
    foo_end.at_end = True
    return m, bi, a, b, foo, bar, foo_end


def scenario_a1():
    """A = 'ret'; append one data byte after it; delete_function(bar).
    Listing required:  foo: ret; .byte 42; foo_end:      -> foo_end = 0x1002
    """
    m, bi, a, b, foo, bar, foo_end = build(b"\xc3", False)
    ctx = gtirb_rewriting.RewritingContext(m, [foo, bar])
    ctx.insert_at(a, a.size, literal_patch(".byte 42"))
    ctx.delete_function(bar)
    ctx.apply()
    print("A1: contents =", bytes(bi.contents).hex())
    print("  foo_end ->", where(foo_end), " required: 0x1002")
    return where(foo_end) != "0x1002"


def scenario_a2():
    """A = 'nop'; insert 'nop; skip:' at its end; delete_function(bar).
    Listing required:  foo: nop; nop; skip: foo_end:     -> both 0x1002
    """
    m, bi, a, b, foo, bar, foo_end = build(b"\x90", True)
    ctx = gtirb_rewriting.RewritingContext(m, [foo, bar])
    ctx.insert_at(a, a.size, literal_patch("nop\nskip:"))
    ctx.delete_function(bar)
    ctx.apply()
    skip = next(s for s in m.symbols if s.name == "skip")
    print("A2: contents =", bytes(bi.contents).hex())
    print("  foo_end ->", where(foo_end), " required: 0x1002")
    print(
        "  skip    ->",
        where(skip),
        " listing model: 0x1002 (informational, not counted: a trailing patch"
        " label is attached to the following block by design)",
    )
    return where(foo_end) != "0x1002"


def scenario_c():
    """A = 16 x 'ret', B aligned to 16; append one data byte after A.
    Listing required: foo: ret*16; .byte 42; foo_end: ; .align 16; bar: ret
                                                         -> foo_end = 0x1011
    """
    m, bi, a, b, foo, bar, foo_end = build(b"\xc3" * 16, False)
    m.aux_data["alignment"].data[b] = 16
    ctx = gtirb_rewriting.RewritingContext(m, [foo, bar])
    ctx.insert_at(a, a.size, literal_patch(".byte 42"))
    ctx.apply()
    bar_sym = next(s for s in m.symbols if s.name == "bar")
    print("C:  contents =", bytes(bi.contents).hex())
    print("  bar     ->", where(bar_sym))
    print("  foo_end ->", where(foo_end), " required: 0x1011")
    return where(foo_end) != "0x1011"


def scenario_b_informational():
    """
        a: nop   kept
        b: nop   deleted WITHOUT retarget_to_proxy
        c: ret   function, deleted with retarget_to_proxy
        d: nop   kept
    In the listing model 'b' slides to the next position, i.e. to 'd'.
    (Not counted for the exit status: one can argue that b was first attached
    to c and then shared c's fate.)
    """
    ir, m = create_test_module(
        gtirb.Module.FileFormat.ELF, gtirb.Module.ISA.X64
    )
    _, bi = add_text_section(m, address=0x1000)
    a = add_code_block(bi, b"\x90")
    b = add_code_block(bi, b"\x90")
    c = add_code_block(bi, b"\xc3")
    d = add_code_block(bi, b"\x90")
    add_symbol(m, "a", a)
    b_sym = add_symbol(m, "b", b)
    d_sym = add_symbol(m, "d", d)
    cfun = add_function_object(m, "c", c)
    ctx = gtirb_rewriting.RewritingContext(m, [cfun])
    ctx.delete_at(b, 0, b.size)
    ctx.delete_at(c, 0, c.size, retarget_to_proxy=True)
    ctx.apply()
    print("B (informational): contents =", bytes(bi.contents).hex())
    print("  b ->", where(b_sym), " listing model:", where(d_sym), "(= d)")


if __name__ == "__main__":
    bad = [scenario_a1(), scenario_a2(), scenario_c()]
    scenario_b_informational()
    if any(bad):
        print(
            "VIOLATION: foo_end no longer follows the last byte of its "
            "(surviving) block"
        )
        sys.exit(1)
    print("ok")
    sys.exit(0)
