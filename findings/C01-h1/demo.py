#!/usr/bin/env python
"""
C01 finding 1: a patch inserted (or a range replaced) at an offset that lies
beyond the *initialized* prefix of a byte interval is spliced in at the wrong
place (at the end of the initialized bytes instead of block+offset).

Run:  cd /repo && PYTHONPATH=/repo/src /venv/bin/python hunt/1/demo.py
Exit status 1 = violation present, 0 = fixed.
"""
import sys

import gtirb
from gtirb_test_helpers import (
    add_data_block,
    add_data_section,
    add_section,
    create_test_module,
)

import gtirb_rewriting

PATCH = b"\xAA\xBB"


def view(bi):
    """The interval as the loader sees it: uninitialized bytes are zero."""
    data = bytes(bi.contents)
    return data + b"\x00" * (bi.size - len(data))


def case_bss():
    """One .bss-style interval: size 8, no initialized bytes, one block."""
    _, m = create_test_module(
        gtirb.Module.FileFormat.ELF, gtirb.Module.ISA.X64
    )
    _, bi = add_section(
        m,
        ".bss",
        0x3000,
        flags={
            gtirb.Section.Flag.Readable,
            gtirb.Section.Flag.Writable,
            gtirb.Section.Flag.Loaded,
        },
    )
    bi.size = 8  # contents stay empty: 8 uninitialized bytes
    d = gtirb.DataBlock(offset=0, size=8)
    d.byte_interval = bi

    before = view(bi)
    ctx = gtirb_rewriting.RewritingContext(m, [])
    ctx.insert_at(d, 5, PATCH)
    ctx.apply()
    expected = before[:5] + PATCH + before[5:]
    return "bss block, insert_at(d, 5, AA BB)", expected, view(bi), bi


def case_pe_data():
    """
    PE-style data interval: 4 initialized bytes covered by d1 followed by 6
    uninitialized bytes covered by d2 (cf.
    tests/test_intervalutils.py::test_join_byte_intervals_uninitialized).
    """
    _, m = create_test_module(gtirb.Module.FileFormat.PE, gtirb.Module.ISA.X64)
    _, bi = add_data_section(m, address=0x2000)
    add_data_block(bi, b"\x01\x02\x03\x04")
    d2 = gtirb.DataBlock(offset=4, size=6)
    d2.byte_interval = bi
    bi.size = 10

    before = view(bi)
    ctx = gtirb_rewriting.RewritingContext(m, [])
    ctx.replace_at(d2, 3, 1, PATCH)
    ctx.apply()
    expected = before[:7] + PATCH + before[8:]
    return "d1 init + d2 uninit, replace_at(d2, 3, 1, AA BB)", expected, view(
        bi
    ), bi


def main():
    bad = False
    for case in (case_bss, case_pe_data):
        name, expected, observed, bi = case()
        print(name)
        print("  property requires :", expected.hex(" "))
        print(
            "  observed          :",
            observed.hex(" "),
            "(size=%d, initialized=%d)" % (bi.size, len(bi.contents)),
        )
        if observed != expected:
            print(
                "  VIOLATION: patch bytes are at interval offset %d, requested"
                " block+offset is %d"
                % (observed.find(PATCH), expected.find(PATCH))
            )
            bad = True
        else:
            print("  ok")
    return 1 if bad else 0


if __name__ == "__main__":
    sys.exit(main())
