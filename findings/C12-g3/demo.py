"""
C12 / finding 3: the subsection argument of a section switch (`.text 1`, `.subsection 1`,
`.pushsection .text, 1`) is silently ignored, so the bytes, the label positions and the CFG of the
section do not match the assembly text.

In GNU as and LLVM, subsection N of a section is laid out after all lower-numbered subsections:

        .text
        nop
        .text 1          # out-of-line part, placed after everything in subsection 0
    L:  .byte 1
        .text            # back to subsection 0
        ret

gives .text = 90 c3 01 with L at offset 2 (checked with /usr/bin/as and llvm-mc when they are
available).  gtirb-rewriting's assembler appends everything in textual order: 90 01 c3, L at offset 1,
and the `nop` block falls through into the data byte.

Run:  cd /repo && PYTHONPATH=/repo/src /venv/bin/python hunt2/3/demo.py
Exit status 1 while the violation is present; 0 if the layout is right or the directive is refused
with UnsupportedAssemblyError.
"""
import os
import shutil
import subprocess
import sys
import tempfile

import gtirb
from gtirb_test_helpers import create_test_module

import gtirb_rewriting
from gtirb_rewriting.assembler.assembler import UnsupportedAssemblyError

ASM = ".text\nnop\n.text 1\nL:\n.byte 1\n.text\nret\n"
REQUIRED_BYTES = b"\x90\xc3\x01"
REQUIRED_L = 2


def reference_bytes():
    """Optional cross-check of the hand-derived expectation with an independent assembler."""
    tool = shutil.which("llvm-mc")
    objcopy = shutil.which("objcopy")
    if not tool or not objcopy:
        return None
    with tempfile.TemporaryDirectory() as d:
        src, obj, raw = (os.path.join(d, n) for n in ("a.s", "a.o", "a.bin"))
        with open(src, "w") as f:
            f.write(ASM)
        try:
            subprocess.run([tool, "-filetype=obj", "-triple=x86_64-pc-linux-gnu", src, "-o", obj],
                           check=True, capture_output=True)
            subprocess.run([objcopy, "-O", "binary", "-j", ".text", obj, raw],
                           check=True, capture_output=True)
            with open(raw, "rb") as f:
                return f.read()
        except Exception:
            return None


ref = reference_bytes()
if ref is not None:
    print("independent assembler (llvm-mc) .text bytes:", ref.hex())
    assert ref == REQUIRED_BYTES, "hand-derived expectation disagrees with llvm-mc"

_, m = create_test_module(gtirb.Module.FileFormat.ELF, gtirb.Module.ISA.X64, binary_type=["DYN"])
a = gtirb_rewriting.Assembler(m)
try:
    a.assemble(ASM)
    result = a.finalize()
except UnsupportedAssemblyError as exc:
    print("refused cleanly:", exc)
    sys.exit(0)

sect = result.text_section
(lsym,) = [s for s in result.symbols if s.name == "L"]
lpos = lsym.referent.offset + (lsym.referent.size if lsym.at_end else 0)
blocks = [(type(b).__name__, b.offset, b.size) for b in sect.blocks]
edges = sorted(
    (sect.blocks.index(e.source), e.label.type.name,
     sect.blocks.index(e.target) if e.target in sect.blocks else "proxy")
    for e in result.cfg
)

print("text:", ASM.strip().replace("\n", " ; "))
print(f"required  bytes {REQUIRED_BYTES.hex()}  L at offset {REQUIRED_L}  "
      "blocks [CodeBlock(0,2) nop;ret -> Return, DataBlock(2,1) 'L']")
print(f"observed  bytes {sect.data.hex()}  L at offset {lpos}  blocks {blocks}  edges {edges}")

ok = (
    sect.data == REQUIRED_BYTES
    and lpos == REQUIRED_L
    and blocks == [("CodeBlock", 0, 2), ("DataBlock", 2, 1)]
    and edges == [(0, "Return", "proxy")]
)
if not ok:
    print("\nVIOLATION: the subsection number was dropped; bytes / label position / CFG are those of a "
          "different program (nop falls through into the data byte, `ret` is decoded inside `01 c3`)")
    sys.exit(1)
print("\nlayout matches the assembly text")
sys.exit(0)
