"""
C08 hunt2 finding 2: after ANY size-changing rewrite, the byte intervals of a
section are laid out again in arbitrary (set-iteration) order, so a CFI
procedure that spans two byte intervals is torn apart: .cfi_startproc /
.cfi_endproc are no longer "opened and closed exactly once and in order" and
evaluate_cfi_directives() raises.

The rewrite itself is a single CFI-free `nop` inserted at the entry of f.

The new order depends on set iteration order, so the demo repeats the same
rewrite on freshly built (identical) modules.

Run:  PYTHONPATH=/repo/src /venv/bin/python hunt2/2/demo.py
Exit status 1 = violation present, 0 = fixed.
"""
import sys

import gtirb
import gtirb_functions
import gtirb_rewriting
from gtirb_rewriting._auxdata import NULL_UUID
from gtirb_rewriting.dwarf.cfi_eval import evaluate_cfi_directives
from gtirb_test_helpers import (
    add_code_block,
    add_edge,
    add_function,
    add_proxy_block,
    add_symbol,
    add_text_section,
    create_test_module,
    set_all_blocks_alignment,
)

TRIALS = 24


def literal_patch(asm):
    @gtirb_rewriting.patch_constraints()
    def patch(ctx):
        return asm

    return gtirb_rewriting.Patch.from_function(patch)


def build():
    """
    .text, three adjacent byte intervals (0x1000, 0x1009, 0x100b):

      interval 1   f:    .cfi_startproc
                         .cfi_def_cfa 7, 8
                         push %rbp
                         .cfi_def_cfa_offset 16
                         jne .L2
                         pop %rbp
                         .cfi_def_cfa_offset 8
                         ret
      interval 2   .L2:  .cfi_def_cfa_offset 16
                         pop %rbp
                         .cfi_def_cfa_offset 8
                         ret
                         .cfi_endproc
      interval 3   g:    .cfi_startproc
                         .cfi_def_cfa 7, 8
                         ret
                         .cfi_endproc
    """
    ir, m = create_test_module(
        gtirb.Module.FileFormat.ELF, gtirb.Module.ISA.X64
    )
    sect, bi1 = add_text_section(m, address=0x1000)
    b1a = add_code_block(bi1, b"\x55\x0f\x85\x00\x00\x00\x00")
    b1b = add_code_block(bi1, b"\x5d\xc3")
    bi2 = gtirb.ByteInterval(contents=b"", address=0x1000 + bi1.size)
    bi2.section = sect
    b2 = add_code_block(bi2, b"\x5d\xc3")
    bi3 = gtirb.ByteInterval(contents=b"", address=bi2.address + bi2.size)
    bi3.section = sect
    bg = add_code_block(bi3, b"\xc3")

    l2 = add_symbol(m, ".L2", b2)
    bi1.symbolic_expressions[3] = gtirb.SymAddrConst(0, l2)
    m.aux_data["symbolicExpressionSizes"].data[gtirb.Offset(bi1, 3)] = 4

    add_edge(ir.cfg, b1a, b2, gtirb.Edge.Type.Branch, conditional=True)
    add_edge(ir.cfg, b1a, b1b, gtirb.Edge.Type.Fallthrough)
    for b in (b1b, b2, bg):
        add_edge(ir.cfg, b, add_proxy_block(m), gtirb.Edge.Type.Return)
    add_function(m, "f", b1a, {b1b, b2})
    add_function(m, "g", bg)
    set_all_blocks_alignment(m, 1)

    def d(name, *args):
        return (name, list(args), NULL_UUID)

    m.aux_data["cfiDirectives"].data = {
        gtirb.Offset(b1a, 0): [d(".cfi_startproc"), d(".cfi_def_cfa", 7, 8)],
        gtirb.Offset(b1a, 1): [d(".cfi_def_cfa_offset", 16)],
        gtirb.Offset(b1b, 1): [d(".cfi_def_cfa_offset", 8)],
        gtirb.Offset(b2, 0): [d(".cfi_def_cfa_offset", 16)],
        gtirb.Offset(b2, 1): [d(".cfi_def_cfa_offset", 8)],
        gtirb.Offset(b2, 2): [d(".cfi_endproc")],
        gtirb.Offset(bg, 0): [d(".cfi_startproc"), d(".cfi_def_cfa", 7, 8)],
        gtirb.Offset(bg, 1): [d(".cfi_endproc")],
    }
    return m, {"f.entry": b1a, "f.ret": b1b, "f.L2": b2, "g": bg}


def evaluates(m):
    try:
        list(evaluate_cfi_directives(m, list(m.code_blocks)))
        return None
    except Exception as e:  # noqa
        return f"{type(e).__name__}: {e}"


def linear_cfi(m):
    cfi = m.aux_data["cfiDirectives"].data
    out = []
    for b in sorted(m.code_blocks, key=lambda b: (b.address, b.size != 0)):
        for disp, dirs in sorted(
            (o.displacement, v) for o, v in cfi.items() if o.element_id is b
        ):
            out += [name[5:] for name, _, _ in dirs]
    return out


def main():
    m, blocks = build()
    assert evaluates(m) is None, "input must evaluate cleanly"
    want_order = list(blocks)
    print("block order before:", want_order)
    print("CFI before        :", " ".join(linear_cfi(m)))
    print()

    failures = 0
    seen = {}
    for _ in range(TRIALS):
        m, blocks = build()
        funcs = gtirb_functions.Function.build_functions(m)
        ctx = gtirb_rewriting.RewritingContext(m, funcs)
        ctx.insert_at(blocks["f.entry"], 0, literal_patch("nop"))
        ctx.apply()

        order = sorted(blocks, key=lambda k: blocks[k].address)
        err = evaluates(m)
        key = (tuple(order), err)
        seen[key] = seen.get(key, 0) + 1
        if err or order != want_order:
            failures += 1

    for (order, err), n in sorted(seen.items(), key=lambda kv: -kv[1]):
        print(f"{n:3d} x  order after: {list(order)}")
        print(f"        evaluate_cfi_directives: {err or 'ok'}")
    print()
    print("required: the blocks of f stay together and in order, "
          "startproc/endproc pairs stay nested in order, CFI still evaluates")
    if failures:
        print(
            f"VIOLATION: {failures}/{TRIALS} rewrites (one `nop` at f's "
            "entry) re-ordered the byte intervals of .text"
        )
        return 1
    print("ok")
    return 0


if __name__ == "__main__":
    sys.exit(main())
