#!/usr/bin/env python
"""
C09 finding 1: the precomputed CFI-procedure tracker goes stale when an earlier
deletion in the same apply() relocates a .cfi_endproc into the next block.

    f:  A: nop          .cfi_startproc at A+0
        B: ret          .cfi_endproc   at B+1  (end of B)
    g:  C: ret          (no CFI)

    modifications (address order):
        1. delete_at(B, 0, 1)            -- whole block; its .cfi_endproc is
                                            kept and moved to C+0
        2. insert_at(C, 0, patch)        -- patch carries CFI directives

At step 2 the insertion point (C, 0) is, in the IR, *before* the relocated
.cfi_endproc, i.e. inside procedure f, and split_block() indeed puts the patch
in front of the .cfi_endproc.  One-at-a-time application therefore keeps the
patch's .cfi_adjust_cfa_offset directives.  The batch asks the tracker that was
built before step 1 ("C+0 is outside any procedure") and throws them away.

Exit status: 1 if the violation is present, 0 otherwise.
"""
import sys

import gtirb
import gtirb_functions
from gtirb_test_helpers import (
    add_code_block,
    add_function,
    add_proxy_block,
    add_text_section,
    create_test_module,
)

import gtirb_rewriting
import gtirb_rewriting.rewriting as rw
from gtirb_rewriting import Patch, patch_constraints
from gtirb_rewriting._auxdata import NULL_UUID

ET = gtirb.Edge.Type


@patch_constraints()
def cfi_patch(ctx):
    return """
        pushq %rax
        .cfi_adjust_cfa_offset 8
        popq %rax
        .cfi_adjust_cfa_offset -8
    """


def build():
    ir, m = create_test_module(gtirb.Module.FileFormat.ELF, gtirb.Module.ISA.X64)
    _, bi = add_text_section(m, address=0x1000)
    a = add_code_block(bi, b"\x90")
    b = add_code_block(bi, b"\xc3")
    c = add_code_block(bi, b"\xc3")
    add_function(m, "f", a, {b})
    add_function(m, "g", c)
    ir.cfg.add(gtirb.Edge(a, b, gtirb.Edge.Label(ET.Fallthrough)))
    ir.cfg.add(gtirb.Edge(b, add_proxy_block(m), gtirb.Edge.Label(ET.Return)))
    ir.cfg.add(gtirb.Edge(c, add_proxy_block(m), gtirb.Edge.Label(ET.Return)))
    cfi = m.aux_data["cfiDirectives"].data
    cfi[gtirb.Offset(a, 0)] = [(".cfi_startproc", [], NULL_UUID)]
    cfi[gtirb.Offset(b, 1)] = [(".cfi_endproc", [], NULL_UUID)]
    return m, a, b, c


def new_ctx(m):
    return gtirb_rewriting.RewritingContext(
        m, gtirb_functions.Function.build_functions(m)
    )


def listing(m):
    """Linear listing of .text: (address, what) in address order."""
    cfi = m.aux_data["cfiDirectives"].data
    rows = []
    for blk in sorted(m.code_blocks, key=lambda b: (b.address, b.size)):
        per_off = {}
        for off, directives in cfi.items():
            if off.element_id is blk:
                per_off[off.displacement] = [
                    "%s %s" % (d, ",".join(map(str, args))) for d, args, _ in directives
                ]
        names = sorted(s.name for s in blk.references)
        rows.append("%#x: block size=%d %s" % (blk.address, blk.size, names))
        for disp in sorted(per_off):
            for d in per_off[disp]:
                rows.append("    +%d  %s" % (disp, d.strip()))
    data = b"".join(
        bi.contents
        for bi in sorted(m.byte_intervals, key=lambda b: b.address)
    )
    rows.append("bytes: " + data.hex())
    return rows


# ---- independent oracle: is (block, offset) inside a CFI procedure according
# ---- to the cfiDirectives table *as it is right now*?
def ir_in_procedure(m, block, offset):
    cfi = m.aux_data["cfiDirectives"].data
    table = {}
    for off, directives in cfi.items():
        table.setdefault(off.element_id, {})[off.displacement] = directives
    blocks = sorted(
        (b for b in m.code_blocks if b.byte_interval is not None),
        key=lambda b: (b.byte_interval.address, b.offset, b.size != 0),
    )
    state = False
    for blk in blocks:
        for disp, directives in sorted(table.get(blk, {}).items()):
            for d, _, _ in directives:
                if blk is block and (
                    disp > offset or (disp == offset and d == ".cfi_endproc")
                ):
                    # split_block() keeps everything before the first
                    # .cfi_endproc at the split offset in front of the patch.
                    return state
                if d == ".cfi_startproc":
                    state = True
                elif d == ".cfi_endproc":
                    state = False
        if blk is block:
            return state
    raise AssertionError("block not found")


observed = []
_orig_invoke = rw.RewritingContext._invoke_patch
_orig_in_proc = rw._CFIProcedureTracker.in_procedure


def _invoke(self, patch, actual_block, actual_offset, context, **kw):
    observed.append(
        ["ir", ir_in_procedure(self._module, actual_block, actual_offset)]
    )
    return _orig_invoke(self, patch, actual_block, actual_offset, context, **kw)


def _in_proc(self, idx, offset):
    r = _orig_in_proc(self, idx, offset)
    observed.append(["tracker", r])
    return r


def main():
    # batch
    rw.RewritingContext._invoke_patch = _invoke
    rw._CFIProcedureTracker.in_procedure = _in_proc
    m1, a, b, c = build()
    ctx = new_ctx(m1)
    ctx.delete_at(b, 0, b.size)
    ctx.insert_at(c, 0, Patch.from_function(cfi_patch))
    ctx.apply()
    rw.RewritingContext._invoke_patch = _orig_invoke
    rw._CFIProcedureTracker.in_procedure = _orig_in_proc
    batch = listing(m1)
    batch_obs = dict(observed)

    # one at a time, address order
    m2, a, b, c = build()
    ctx = new_ctx(m2)
    ctx.delete_at(b, 0, b.size)
    ctx.apply()
    ctx = new_ctx(m2)
    ctx.insert_at(c, 0, Patch.from_function(cfi_patch))
    ctx.apply()
    seq = listing(m2)

    print("== batch (one apply) ==")
    print("\n".join(batch))
    print("== one at a time ==")
    print("\n".join(seq))
    print()
    print(
        "mid-rewrite, at the insertion point of the patch: "
        "cfiDirectives table says in-procedure=%s, "
        "_CFIProcedureTracker says in-procedure=%s"
        % (batch_obs.get("ir"), batch_obs.get("tracker"))
    )
    print(
        "property requires: identical listings, with .cfi_adjust_cfa_offset 8 "
        "and -8 kept in front of the relocated .cfi_endproc"
    )
    bad = batch != seq or batch_obs.get("ir") != batch_obs.get("tracker")
    print("VIOLATION" if bad else "ok")
    return 1 if bad else 0


if __name__ == "__main__":
    sys.exit(main())
