"""F97: `.align 16; .align 4; nop` - the assembler pads for both directives, so the nop is 16-aligned in the listing, but before
fix bf44bda the patch block was recorded with alignment 4 (the last directive overwrote the first).  Exits 1 while the defect is present."""
import sys
import gtirb
from gtirb_rewriting.assembler import Assembler
from gtirb_test_helpers import create_test_module

ir, m = create_test_module(gtirb.Module.FileFormat.ELF, gtirb.Module.ISA.X64)
bad = []
for text, want in ((".align 16\n.align 4\nnop\n", 16), (".align 4\n.align 16\nnop\n", 16), ("nop\n.align 16\n.align 4\nret\n", 16)):
    a = Assembler(m)
    a.assemble(text)
    r = a.finalize()
    got = r.text_section.alignment.get(r.text_section.blocks[-1])
    if got != want:
        bad.append((text, got, want))
print(bad or "ok")
sys.exit(1 if bad else 0)
