#!/usr/bin/env python
"""
C15 finding 2: a well-formed escaped expression instruction that uses the
standard operation DW_OP_nop (0x96, DWARF v2 section 7.7.1 / DWARF v5 2.5.1.7)
is rejected as "invalid opcode byte" instead of yielding the expression rule.

Run:  cd /repo && PYTHONPATH=/repo/src /venv/bin/python hunt2/2/demo.py
Exit status 1 = violation present, 0 = fixed.
"""
import sys
import uuid

import gtirb
from gtirb_test_helpers import (
    add_code_block,
    add_text_section,
    create_test_module,
)

from gtirb_rewriting.dwarf.cfi_eval import (
    CFAExpression,
    RegisterAtExpression,
    RegisterIsExpression,
    evaluate_cfi_directives,
)
from gtirb_rewriting.dwarf.expr import OpBReg

NULL = uuid.UUID(int=0)


def evaluate(escape):
    _, m = create_test_module(
        gtirb.Module.FileFormat.ELF, gtirb.Module.ISA.X64
    )
    _, bi = add_text_section(m, address=0x1000)
    b = add_code_block(bi, b"\x90")
    m.aux_data["cfiDirectives"].data[gtirb.Offset(b, 0)] = [
        (".cfi_startproc", [], NULL),
        (".cfi_def_cfa", [7, 8], NULL),
        (".cfi_escape", list(escape), NULL),
    ]
    ((_, _, state),) = evaluate_cfi_directives(m, [b])
    return state


def reencode(ops):
    return b"".join(bytes(op.encode("little", 8)) for op in ops)


# (description, escape bytes, how to fetch the rule, rule type, expression bytes)
BODY = bytes([0x77, 0x08, 0x96])  # DW_OP_breg7 +8 ; DW_OP_nop
CASES = [
    (
        "DW_CFA_def_cfa_expression {DW_OP_breg7 8; DW_OP_nop}",
        bytes([0x0F, len(BODY)]) + BODY,
        lambda st: st.current.cfa,
        CFAExpression,
    ),
    (
        "DW_CFA_expression r6 {DW_OP_breg7 8; DW_OP_nop}",
        bytes([0x10, 0x06, len(BODY)]) + BODY,
        lambda st: st.current.registers.get(6),
        RegisterAtExpression,
    ),
    (
        "DW_CFA_val_expression r6 {DW_OP_breg7 8; DW_OP_nop}",
        bytes([0x16, 0x06, len(BODY)]) + BODY,
        lambda st: st.current.registers.get(6),
        RegisterIsExpression,
    ),
]

bad = False
for desc, escape, fetch, rule_type in CASES:
    print(desc)
    print("  .cfi_escape", ", ".join(f"{x:#04x}" for x in escape))
    print(
        f"  required: {rule_type.__name__} with a 2-operation expression "
        f"(OpBReg(7, 8), <DW_OP_nop>) that re-encodes to 77 08 96"
    )
    try:
        rule = fetch(evaluate(escape))
        ok = (
            isinstance(rule, rule_type)
            and len(rule.expression) == 2
            and rule.expression[0] == OpBReg(7, 8)
            and reencode(rule.expression) == BODY
        )
        print(f"  observed: {rule}")
    except Exception as e:  # noqa: BLE001
        ok = False
        print(f"  observed: {type(e).__name__}: {e}")
    print(f"  -> {'ok' if ok else 'VIOLATION'}")
    bad |= not ok

# Control: the same instruction without the nop is accepted, so it is the
# DW_OP_nop alone that is refused.
ctrl = evaluate(bytes([0x0F, 0x02, 0x77, 0x08])).current.cfa
print("control (no DW_OP_nop):", ctrl)
assert ctrl == CFAExpression((OpBReg(7, 8),))

# Informational only (same mechanism, not counted in the exit status): other
# opcodes that dwarf2.py names but for which no class is registered.
print("informational - other named-but-unregistered opcodes:")
for desc, escape in [
    ("DW_OP_xderef_size 4 (0x95)", [0x0F, 0x04, 0x77, 0x08, 0x95, 0x04]),
    ("DW_CFA_GNU_args_size 16 (0x2e), emitted by GCC/clang as an escape", [0x2E, 0x10]),
]:
    try:
        print(f"  {desc}: {evaluate(bytes(escape)).current}")
    except Exception as e:  # noqa: BLE001
        print(f"  {desc}: {type(e).__name__}: {e}")

sys.exit(1 if bad else 0)
