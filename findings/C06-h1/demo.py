"""
C06 finding 1: code inserted with insert_at(A, ...) into block A of function F
does not belong to F when an earlier modification of A left a data block at
that position.

    F:  mov eax, 1 ; ret            <- block A, the only block of F

    ctx.insert_at(A, 6, b"\\x11\\x22\\x33\\x44")   # a literal pool after the ret
    ctx.insert_at(A, 6, "nop; ret")                # a cold path after the ret

Both insertions are "into a block of function F", so the property requires the
inserted `nop; ret` to be in functionBlocks[F].  Registering the two
insertions in the opposite order does give that result.

Exits 1 when the violation is present, 0 otherwise.
"""
import logging
import sys

import gtirb
import gtirb_functions
import gtirb_rewriting
from gtirb_test_helpers import (
    add_code_block,
    add_edge,
    add_function,
    add_proxy_block,
    add_text_section,
    create_test_module,
    set_all_blocks_alignment,
)

logging.disable(logging.CRITICAL)


def literal_patch(asm):
    @gtirb_rewriting.patch_constraints()
    def patch(ctx):
        return asm

    return gtirb_rewriting.Patch.from_function(patch)


def run(data_first):
    ir, m = create_test_module(
        gtirb.Module.FileFormat.ELF, gtirb.Module.ISA.X64
    )
    _, bi = add_text_section(m, address=0x1000)
    # mov eax, 1 ; ret
    a = add_code_block(bi, b"\xb8\x01\x00\x00\x00\xc3")
    add_edge(ir.cfg, a, add_proxy_block(m), gtirb.Edge.Type.Return)
    f_uuid = add_function(m, "F", a)
    set_all_blocks_alignment(m, 1)

    functions = gtirb_functions.Function.build_functions(m)
    ctx = gtirb_rewriting.RewritingContext(m, functions)
    code = literal_patch("nop; ret")
    data = b"\x11\x22\x33\x44"
    if data_first:
        ctx.insert_at(a, a.size, data)
        ctx.insert_at(a, a.size, code)
    else:
        ctx.insert_at(a, a.size, code)
        ctx.insert_at(a, a.size, data)
    ctx.apply()

    fblocks = m.aux_data["functionBlocks"].data[f_uuid]
    listing = []
    orphans = []
    for b in sorted(m.byte_blocks, key=lambda b: b.address):
        raw = b.byte_interval.contents[b.offset : b.offset + b.size]
        kind = "code" if isinstance(b, gtirb.CodeBlock) else "data"
        infunc = b in fblocks
        listing.append(
            "    %#x %s %-14s %s"
            % (b.address, kind, raw.hex(), "in F" if infunc else "in no function")
        )
        if kind == "code" and not infunc:
            orphans.append(b)
        if kind == "data" and infunc:
            orphans.append(b)
    print("\n".join(listing))
    return orphans


print("order: code patch first, then data (reference)")
ref = run(data_first=False)
print("order: data first, then code patch")
bad = run(data_first=True)

print()
print("required: every code block above is in functionBlocks[F] (all code was")
print("          inserted with insert_at(A, ...) and A is a block of F)")
if ref:
    print("unexpected: reference order also leaves code outside of F")
if bad:
    print(
        "observed: %d inserted code block(s) belong to no function when the "
        "data is inserted first" % len(bad)
    )
    sys.exit(1)
print("observed: all inserted code belongs to F")
sys.exit(0)
