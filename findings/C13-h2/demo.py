"""C13 finding 2: on MIPS32 the documented temporary label (InsertionContext.temporary_label /
ABI.temporary_label_prefix) does not receive the per-patch unique suffix.

Run: cd /repo && PYTHONPATH=/repo/src /venv/bin/python hunt/2/demo.py
Exits 1 while the violation is present, 0 once it is fixed.
"""
import logging
import sys

import gtirb
import gtirb_rewriting
from gtirb_rewriting import Patch, RewritingContext, patch_constraints
from gtirb_test_helpers import (
    add_code_block,
    add_symbol,
    add_text_section,
    create_test_module,
)

logging.disable(logging.CRITICAL)

NOP = b"\x00\x00\x00\x00"  # MIPS nop


@patch_constraints()
def same_patch(ctx):
    # exactly the idiom of doc/Getting-Started.md ("temporary labels")
    label = ctx.temporary_label("my_label")
    return f"""
        {label}:
        nop
    """


_, m = create_test_module(
    gtirb.Module.FileFormat.ELF, gtirb.Module.ISA.MIPS32
)
m.byte_order = gtirb.Module.ByteOrder.Big
_, bi = add_text_section(m, address=0x1000)
b = add_code_block(bi, NOP * 2)
add_symbol(m, "f", b)

ctx = RewritingContext(m, [])
print("temporary label handed out by the library:",
      gtirb_rewriting.ABI.get(m).temporary_label_prefix() + "my_label")
# the same patch, twice, in one rewrite
ctx.insert_at(b, 0, Patch.from_function(same_patch))
ctx.insert_at(b, 4, Patch.from_function(same_patch))

print("property requires : each copy's temporary label gets the unique suffix")
print("                    (.../$...my_label_1 and ..._2); inserting the same patch twice works")
try:
    ctx.apply()
except gtirb_rewriting.MultipleDefinitionsError as exc:
    print("observed          : MultipleDefinitionsError:", exc)
    print("                    symbols so far:", sorted(s.name for s in m.symbols))
    print("VIOLATION: the temporary label was not suffixed")
    sys.exit(1)

names = sorted(s.name for s in m.symbols)
print("observed          : symbols", names)
labels = [n for n in names if "my_label" in n]
if len(labels) == 2 and len(set(labels)) == 2 and all(
    n.endswith(("_1", "_2")) for n in labels
):
    print("OK")
    sys.exit(0)
print("VIOLATION: labels not uniquely suffixed")
sys.exit(1)
