"""C13 extra finding (root cause in the CFI bookkeeping): the *whole-text* result has the CFI directives of consecutive
empty label blocks in reversed order, while the chunked result has them in source order - so the two differ.

Run: cd /repo && PYTHONPATH=/repo/src /venv/bin/python hunt/extra/demo.py
Exits 1 while the violation is present, 0 once it is fixed.
"""
import sys

import gtirb
import gtirb_rewriting
from gtirb_test_helpers import create_test_module

TEXT = [
    ".cfi_def_cfa_offset 16\n",   # chunk 1
    "a:\n"                         # chunk 2 (no reference to any later label)
    ".cfi_def_cfa_offset 24\n"
    "b:\n"
    "nop\n",
]


def cfi(chunks):
    _, m = create_test_module(
        gtirb.Module.FileFormat.ELF, gtirb.Module.ISA.X64, binary_type=["DYN"]
    )
    asm = gtirb_rewriting.Assembler(m, implicit_cfi_procedure=True)
    for c in chunks:
        asm.assemble(c)
    r = asm.finalize()
    table = r.create_cfi_directives()
    return [
        (off.displacement, [(d[0], list(d[1])) for d in directives])
        for off, directives in table.items()
    ]


whole = cfi(["".join(TEXT)])
split = cfi(TEXT)
expected = [(0, [(".cfi_def_cfa_offset", [16]), (".cfi_def_cfa_offset", [24])])]
print("source order      : .cfi_def_cfa_offset 16 ; a: ; .cfi_def_cfa_offset 24 ; b: ; nop")
print("expected (by hand):", expected, " (CFA offset ends up 24)")
print("concatenation     :", whole)
print("chunked           :", split)
if whole != split or whole != expected:
    print("VIOLATION: chunked and whole-text results differ / directives reordered")
    sys.exit(1)
print("OK")
sys.exit(0)
