#!/usr/bin/env python
"""
C05 finding 3: a block whose only incoming control flow is its *own* jump is
kept as a zero-sized block when it is deleted, although that jump is deleted
together with the block.  The same happens when every block of a loop is
deleted (the back edge is first retargeted onto the last block of the loop and
thereby becomes a self edge).

Run:  cd /repo && PYTHONPATH=/repo/src /venv/bin/python hunt2/3/demo.py
Exit status 1 = violation present, 0 = fixed.
"""
import sys

import gtirb
from gtirb_test_helpers import (
    add_code_block,
    add_edge,
    add_symbol,
    add_text_section,
    create_test_module,
)

import gtirb_rewriting

ET = gtirb.Edge.Type


def report(title, ir, m, deleted):
    print(title)
    bad = False
    for b in sorted(m.byte_blocks, key=lambda b: (b.address, b.size != 0)):
        print(
            "  %-9s addr=%#x size=%d symbols=%s"
            % (
                type(b).__name__,
                b.address,
                b.size,
                sorted((s.name, "at_end" if s.at_end else "start") for s in b.references),
            )
        )
    for e in ir.cfg:
        print(
            "  edge %s(size %s) -> %s  %s"
            % (
                type(e.source).__name__,
                getattr(e.source, "size", "-"),
                type(e.target).__name__,
                e.label.type.name,
            )
        )
    left = [b for b in deleted if b.byte_interval is not None]
    for b in left:
        incoming = [e for e in b.incoming_edges]
        print(
            "  -> deleted block survives as zero-sized block; incoming edges now: %d"
            % len(incoming)
        )
        bad = True
    if not left:
        print("  -> all deleted blocks are gone")
    return bad


bad = False

# ---------------------------------------------------------------- (a)
#   pre:  ret
#   spin: jmp spin            <- last block of .text
ir, m = create_test_module(gtirb.Module.FileFormat.ELF, gtirb.Module.ISA.X64)
_, bi = add_text_section(m, address=0x1000)
pre = add_code_block(bi, b"\xc3")
add_edge(ir.cfg, pre, gtirb.ProxyBlock(module=m), ET.Return)
spin_sym = add_symbol(m, "spin")
spin = add_code_block(bi, b"\xeb\xfe", {(1, 1): gtirb.SymAddrConst(0, spin_sym)})
spin_sym.referent = spin
add_edge(ir.cfg, spin, spin, ET.Branch)
add_symbol(m, "pre", pre)

ctx = gtirb_rewriting.RewritingContext(m, [])
ctx.delete_at(spin, 0, spin.size)
ctx.apply()
bad |= report("(a) delete the self-looping block 'spin'", ir, m, [spin])
print("  required: 'spin' removed, its label moved to the end of 'pre'; nothing")
print("            transfers control to it any more, another block exists in the")
print("            section and it has no CFI -> none of the documented reasons for a")
print("            zero-sized block (doc/Deletion.md) applies")
print()

# ---------------------------------------------------------------- (b)
#   pre:  ret
#   head: nop
#   back: jmp head            <- last block of .text; delete head AND back
ir, m = create_test_module(gtirb.Module.FileFormat.ELF, gtirb.Module.ISA.X64)
_, bi = add_text_section(m, address=0x1000)
pre = add_code_block(bi, b"\xc3")
add_edge(ir.cfg, pre, gtirb.ProxyBlock(module=m), ET.Return)
add_symbol(m, "pre", pre)
head_sym = add_symbol(m, "head")
head = add_code_block(bi, b"\x90")
head_sym.referent = head
back = add_code_block(bi, b"\xeb\xfd", {(1, 1): gtirb.SymAddrConst(0, head_sym)})
add_edge(ir.cfg, head, back, ET.Fallthrough)
add_edge(ir.cfg, back, head, ET.Branch)

ctx = gtirb_rewriting.RewritingContext(m, [])
ctx.delete_at(head, 0, head.size)
ctx.delete_at(back, 0, back.size)
ctx.apply()
bad |= report("(b) delete both blocks of the loop head/back", ir, m, [head, back])
print("  required: both blocks removed, label 'head' moved to the end of 'pre'")

sys.exit(1 if bad else 0)
