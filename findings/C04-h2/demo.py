#!/usr/bin/env python
"""
C04 finding 2: a patch operand `sym@GOTOFF` is turned into a symbolic
expression with the attribute set {GOT} - the same expression that `sym@GOT`
produces.  The @GOTOFF attribute of the patch-created expression is not kept.

Run:  cd /repo && PYTHONPATH=/repo/src /venv/bin/python hunt/2/demo.py
Exit status 1 = violation present, 0 = fixed.
"""
import sys

import gtirb
from gtirb_test_helpers import (
    add_code_block,
    add_data_block,
    add_data_section,
    add_edge,
    add_proxy_block,
    add_symbol,
    add_text_section,
    create_test_module,
)

sys.path.insert(0, "/repo/tests")
from helpers import add_function_object, literal_patch  # noqa: E402

from gtirb_rewriting import RewritingContext  # noqa: E402

Attr = gtirb.SymbolicExpression.Attribute


def rewrite(asm):
    """x86-64 PIC module: f: ret ; var: .long 0 ; insert `asm` before the ret."""
    ir, m = create_test_module(
        isa=gtirb.Module.ISA.X64,
        file_format=gtirb.Module.FileFormat.ELF,
        binary_type=["DYN"],
    )
    _, bi = add_text_section(m, address=0x1000)
    _, dbi = add_data_section(m, address=0x4000)
    b = add_code_block(bi, b"\xc3")
    add_edge(ir.cfg, b, add_proxy_block(m), gtirb.Edge.Type.Return)
    f = add_function_object(m, "f", b)
    var = add_symbol(m, "var", add_data_block(dbi, b"\x00\x00\x00\x00"))
    ctx = RewritingContext(m, [f])
    ctx.insert_at(b, 0, literal_patch(asm))
    ctx.apply()
    (off, expr), = bi.symbolic_expressions.items()
    assert expr.symbol is var and len(list(m.symbols_named("var"))) == 1
    return bytes(bi.contents), off, expr


code1, off1, gotoff = rewrite("leaq var@GOTOFF+4(%rbx), %rax")
code2, off2, got = rewrite("movq var@GOT(%rbx), %rax")

print("patch 1: leaq var@GOTOFF+4(%rbx), %rax   (address of var+4, relative to the GOT base)")
print("   bytes", code1.hex(), "expr at", off1, ":", gotoff.symbol.name, "%+d" % gotoff.offset,
      sorted(a.name for a in gotoff.attributes))
print("patch 2: movq var@GOT(%rbx), %rax        (load of var's GOT slot)")
print("   bytes", code2.hex(), "expr at", off2, ":", got.symbol.name, "%+d" % got.offset,
      sorted(a.name for a in got.attributes))
print()
print("position, symbol identity and addend are right (offset 3, `var`, +4 / +0).")
print("required attributes : patch 1 -> {GOTOFF}   patch 2 -> {GOT}")
print("observed attributes : patch 1 -> {%s}   patch 2 -> {%s}"
      % (",".join(sorted(a.name for a in gotoff.attributes)),
         ",".join(sorted(a.name for a in got.attributes))))

assert off1 == 3 and gotoff.offset == 4
assert got.attributes == {Attr.GOT}

# The same through the stand-alone assembler for IA32, where @GOTOFF is the
# bread-and-butter PIC data access.
from gtirb_rewriting import Assembler  # noqa: E402

ir, m32 = create_test_module(
    isa=gtirb.Module.ISA.IA32, file_format=gtirb.Module.FileFormat.ELF,
    binary_type=["DYN"],
)
_, dbi32 = add_data_section(m32, address=0x4000)
add_symbol(m32, "var", add_data_block(dbi32, b"\x00" * 4))
asm32 = Assembler(m32)
asm32.assemble("leal var@GOTOFF(%ebx), %eax\nmovl var@GOT(%ebx), %eax")
res = asm32.finalize()
print()
print("IA32 Assembler: leal var@GOTOFF(%ebx), %eax ; movl var@GOT(%ebx), %eax")
for off, e in sorted(res.text_section.symbolic_expressions.items()):
    print("   expr at", off, ":", e.symbol.name, sorted(a.name for a in e.attributes))

if gotoff.attributes != {Attr.GOTOFF}:
    print()
    print("VIOLATION: the @GOTOFF attribute written in the patch was not kept; the expression is")
    print("indistinguishable from var@GOT+4, i.e. the patched program computes the address of a")
    print("GOT slot (+4) instead of the address of var+4 once it is printed and reassembled.")
    sys.exit(1)
print("ok")
sys.exit(0)
