"""
C01 hunt2 finding 3: a patch whose assembled text is zero bytes long (a label
only, CFI directives only, b"" ...) cannot be inserted or used as a
replacement: apply() dies on a bare assertion in edit.py:insert().

Run: cd /repo && PYTHONPATH=/repo/src /venv/bin/python hunt2/3/demo.py
Exit status 1 = violation present, 0 = fixed.
"""
import logging
import sys
import traceback

import gtirb
from gtirb_test_helpers import (
    add_code_block,
    add_data_block,
    add_data_section,
    add_edge,
    add_proxy_block,
    add_text_section,
    create_test_module,
)

from gtirb_rewriting import Patch, RewritingContext, patch_constraints

logging.disable(logging.CRITICAL)


def lit(asm):
    @patch_constraints()
    def f(ctx):
        return asm

    return Patch.from_function(f)


def build():
    ir, m = create_test_module(
        gtirb.Module.FileFormat.ELF, gtirb.Module.ISA.X64
    )
    _, tbi = add_text_section(m, 0x1000)
    # xor %eax,%eax ; nop ; ret
    b = add_code_block(tbi, b"\x31\xc0\x90\xc3")
    add_edge(ir.cfg, b, add_proxy_block(m), gtirb.Edge.Type.Return)
    _, dbi = add_data_section(m, 0x2000)
    d = add_data_block(dbi, b"\x01\x02\x03\x04")
    return m, tbi, b, dbi, d


CASES = [
    # name, request, required .text, required .data
    ("control: insert_at(b, 2, 'here: nop')",
     lambda c, b, d: c.insert_at(b, 2, lit("here: nop")),
     "31c09090c3", "01020304"),
    ("insert_at(b, 2, 'here:')   (add a label, zero bytes)",
     lambda c, b, d: c.insert_at(b, 2, lit("here:")),
     "31c090c3", "01020304"),
    ("replace_at(b, 2, 1, 'here:')   (drop the nop, keep a label)",
     lambda c, b, d: c.replace_at(b, 2, 1, lit("here:")),
     "31c0c3", "01020304"),
    ("insert_at(b, 2, '.cfi_undefined 0')",
     lambda c, b, d: c.insert_at(b, 2, lit(".cfi_undefined 0")),
     "31c090c3", "01020304"),
    ("replace_at(d, 1, 2, b'')",
     lambda c, b, d: c.replace_at(d, 1, 2, b""),
     "31c090c3", "0104"),
    ("insert_at(d, 2, b'')",
     lambda c, b, d: c.insert_at(d, 2, b""),
     "31c090c3", "01020304"),
    ("insert_at(b, 0, '.data; myvar: .quad 0')   (patch only adds a variable)",
     lambda c, b, d: c.insert_at(b, 0, lit(".data\nmyvar:\n.quad 0")),
     "31c090c3", "01020304"),
    ("insert_at(b, 2, '# just a comment')",
     lambda c, b, d: c.insert_at(b, 2, lit("# just a comment")),
     "31c090c3", "01020304"),
]

fail = False
for name, req, want_t, want_d in CASES:
    m, tbi, b, dbi, d = build()
    ctx = RewritingContext(m, [])
    try:
        req(ctx, b, d)
        ctx.apply()
        got = (bytes(tbi.contents).hex(), bytes(dbi.contents).hex())
    except Exception as e:  # noqa: BLE001
        tb = traceback.extract_tb(sys.exc_info()[2])[-1]
        got = "%s(%s) at %s:%s:%d" % (
            type(e).__name__, e, tb.filename.split("/src/")[-1], tb.name,
            tb.lineno)
    ok = got == (want_t, want_d)
    print("%s\n   required (.text, .data): %s\n   observed               : %s  %s"
          % (name, (want_t, want_d), got, "ok" if ok else "<-- VIOLATION"))
    fail |= not ok

sys.exit(1 if fail else 0)
