"""
C12 / finding 2: a backward reference to a numeric local label (`1:` ... `jne 1b`) is rejected with
"directional label undefined", although the label is defined two lines earlier.  The forward form
(`jmp 1f` ... `1:`) and the same text with a named label assemble fine.

Cause: _SymbolCreator.emit_label and _Streamer.emit_label never call the base class
(mcasm.Streamer.emit_label -> MCStreamer::emitLabel), so LLVM never marks the label symbol as defined;
LLVM's parser resolves `1b` by looking for the latest *defined* instance of label 1.

Run:  cd /repo && PYTHONPATH=/repo/src /venv/bin/python hunt2/2/demo.py
Exit status 1 while the violation is present, 0 once fixed.
"""
import sys

import gtirb
from gtirb_test_helpers import create_test_module

import gtirb_rewriting
from gtirb_rewriting.assembler.assembler import AssemblerError


def run(isa, asm):
    _, m = create_test_module(gtirb.Module.FileFormat.ELF, isa, binary_type=["DYN"])
    a = gtirb_rewriting.Assembler(m)
    a.assemble(asm)
    return a.finalize()


def describe(result):
    sect = result.text_section
    out = []
    for b in sect.blocks:
        names = sorted(s.name for s in result.symbols if s.referent is b)
        edges = sorted(
            (e.label.type.name + ("(cond)" if e.label.conditional else ""),
             sect.blocks.index(e.target) if e.target in sect.blocks else "proxy")
            for e in result.cfg.out_edges(b)
        )
        out.append((type(b).__name__, b.offset, b.size, names, edges))
    return out


def check_loop(result, nbytes):
    """
    Required for `L: <insn>; <jcc> L`: block 0 (offset 0, the two instructions) carries the label's
    symbol and has a conditional Branch to itself plus a Fallthrough to the empty block that follows,
    and the jcc operand is SymAddrConst(0, <label symbol>).
    """
    sect = result.text_section
    if len(sect.blocks) != 2:
        return False
    b0, b1 = sect.blocks
    syms = [s for s in result.symbols if s.referent is b0 and not s.at_end]
    if len(syms) != 1 or (b0.offset, b0.size, b1.size) != (0, nbytes, 0):
        return False
    edges = {(e.label.type, bool(e.label.conditional), e.target) for e in result.cfg.out_edges(b0)}
    if edges != {(gtirb.Edge.Type.Branch, True, b0), (gtirb.Edge.Type.Fallthrough, False, b1)}:
        return False
    exprs = list(sect.symbolic_expressions.values())
    return len(exprs) == 1 and exprs[0] == gtirb.SymAddrConst(0, syms[0])


X64, ARM64 = gtirb.Module.ISA.X64, gtirb.Module.ISA.ARM64
CASES = [
    ("named label (control)", X64, "top:\nnop\njne top\n", 3),
    ("numeric label, backward ref", X64, "1:\nnop\njne 1b\n", 3),
    ("numeric label, backward ref", ARM64, "1:\nnop\nb.ne 1b\n", 8),
]

bad = 0
for what, isa, asm, nbytes in CASES:
    shown = asm.strip().replace("\n", "; ")
    try:
        result = run(isa, asm)
    except AssemblerError as exc:
        print(f"{isa.name:5} {what:30} {shown:22} -> {type(exc).__name__}: {exc}   <-- REJECTED")
        bad += 1
        continue
    ok = check_loop(result, nbytes)
    print(f"{isa.name:5} {what:30} {shown:22} -> {describe(result)} {'ok' if ok else '<-- WRONG'}")
    bad += not ok

# the forward direction works today, which shows numeric labels as such are supported
fwd = run(X64, "jmp 1f\nnop\n1:\nret\n")
print("X64   numeric label, forward ref     jmp 1f; nop; 1:; ret   ->", describe(fwd))

if bad:
    print("\nVIOLATION: valid text (label + jcc back to it) is not assembled: "
          "required = same blocks/edges/symbolic operand as with a named label")
    sys.exit(1)
print("\nbackward numeric-label references assemble like named labels")
sys.exit(0)
