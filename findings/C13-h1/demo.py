"""C13 finding 1: a proxy symbol for an undefined name can duplicate the suffixed name of a temporary label.

Run: cd /repo && PYTHONPATH=/repo/src /venv/bin/python hunt/1/demo.py
Exits 1 while the violation is present, 0 once it is fixed.
"""
import collections
import sys

import gtirb
import gtirb_rewriting
from gtirb_test_helpers import create_test_module

_, m = create_test_module(
    gtirb.Module.FileFormat.ELF, gtirb.Module.ISA.X64, binary_type=["DYN"]
)
assert not list(m.symbols), "module has no symbols at all"

asm = gtirb_rewriting.Assembler(
    m, temp_symbol_suffix="_1", allow_undef_symbols=True
)
try:
    asm.assemble(
        """
        .Lx:                # temporary label -> symbol named ".Lx_1"
        nop
        jmp .Lx_1           # a *different* name; unknown -> proxy-backed symbol
        """
    )
    result = asm.finalize()
except gtirb_rewriting.AssemblerError as exc:
    # A clean refusal (e.g. MultipleDefinitionsError) is an acceptable fix.
    print("assembler refused the input:", type(exc).__name__, exc)
    print("OK: no two symbols share a name")
    sys.exit(0)

print("symbols produced by one Assembler:")
for s in result.symbols:
    print("   %-8s -> %s" % (s.name, type(s.referent).__name__))

counts = collections.Counter(s.name for s in result.symbols)
dups = {n: c for n, c in counts.items() if c > 1}
print("property requires : every symbol name occurs once (one proxy-backed symbol")
print("                    per unknown name, and never two symbols with one name)")
print("observed          :", dict(counts))
if dups:
    print("VIOLATION: duplicate symbol names", dups)
    sys.exit(1)
print("OK")
sys.exit(0)
