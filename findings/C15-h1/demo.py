"""
C15 finding 1: the default return column the evaluator starts every procedure
with is wrong for ARM64 (32 instead of 30) and MIPS32 (32 instead of 31).

Run:  cd /repo && PYTHONPATH=/repo/src /venv/bin/python hunt/1/demo.py
Exits 1 while the violation is present, 0 once fixed.
"""
import shutil
import subprocess
import sys
import tempfile

import gtirb
from gtirb_test_helpers import (
    add_code_block,
    add_text_section,
    create_test_module,
)

import gtirb_rewriting
from gtirb_rewriting._auxdata import NULL_UUID
from gtirb_rewriting.dwarf.cfi_eval import evaluate_cfi_directives

ELF = gtirb.Module.FileFormat.ELF

# What the DWARF ABI of each target defines as the CIE return-address column.
# x86-64: RIP=16; AArch64: x30/LR=30 (DWARF for the Arm 64-bit Architecture,
# every GCC/LLVM CIE says "Return address column: 30"); MIPS o32: $ra=31.
EXPECTED = {
    gtirb.Module.ISA.X64: 16,
    gtirb.Module.ISA.ARM64: 30,
    gtirb.Module.ISA.MIPS32: 31,
}

# A tiny, ordinary frame per ISA that saves the return address register.
ASM = {
    gtirb.Module.ISA.ARM64: (
        ".cfi_def_cfa sp, 0\n"  # CIE initial instruction, explicit in GTIRB
        "stp x29, x30, [sp, #-16]!\n"
        ".cfi_def_cfa_offset 16\n"
        ".cfi_offset lr, -8\n"
        "ret\n",
        "aarch64-linux-gnu",
    ),
    gtirb.Module.ISA.MIPS32: (
        ".cfi_def_cfa $sp, 0\n"
        "sw $ra, 4($sp)\n"
        ".cfi_offset $ra, -4\n"
        "jr $ra\n"
        "nop\n",
        "mips-linux-gnu",
    ),
    gtirb.Module.ISA.X64: ("ret\n", "x86_64-linux-gnu"),
}


def lib_ra_directives(isa):
    """Use the library's own assembler to turn the asm into cfiDirectives
    entries (this shows which DWARF number the library itself gives lr/$ra)."""
    _, m = create_test_module(ELF, isa)
    a = gtirb_rewriting.Assembler(m, implicit_cfi_procedure=True)
    a.assemble(ASM[isa][0])
    out = []
    for proc in a.finalize().text_section.cfi_procedures:
        for off, insts in sorted(
            proc.instructions.items(), key=lambda kv: kv[0].displacement
        ):
            out.append((off.displacement, insts))
    return out


def llvm_cie_return_column(isa):
    """Optional cross-check: what an actual assembler puts in the CIE."""
    if not shutil.which("llvm-mc") or not shutil.which("llvm-dwarfdump"):
        return None
    with tempfile.TemporaryDirectory() as d:
        src = f"{d}/t.s"
        obj = f"{d}/t.o"
        with open(src, "w") as f:
            f.write(".text\nf:\n.cfi_startproc\nnop\n.cfi_endproc\n")
        try:
            subprocess.run(
                ["llvm-mc", f"-triple={ASM[isa][1]}", "-filetype=obj", src,
                 "-o", obj],
                check=True, capture_output=True,
            )
            txt = subprocess.run(
                ["llvm-dwarfdump", "--eh-frame", obj],
                check=True, capture_output=True, text=True,
            ).stdout
        except Exception:
            return None
    for line in txt.splitlines():
        if "Return address column" in line:
            return int(line.split(":")[1])
    return None


def evaluate(isa):
    _, m = create_test_module(ELF, isa)
    _, bi = add_text_section(m, address=0x1000)
    b = add_code_block(bi, b"\x00" * 16)
    table = m.aux_data["cfiDirectives"].data
    table[gtirb.Offset(b, 0)] = [(".cfi_startproc", [], NULL_UUID)]
    for disp, insts in lib_ra_directives(isa):
        table.setdefault(gtirb.Offset(b, disp), []).extend(insts)
    table[gtirb.Offset(b, 16)] = [(".cfi_endproc", [], NULL_UUID)]
    states = []
    for _, off, st in evaluate_cfi_directives(m, [b]):
        if st is not None:
            states.append((off, st.return_column, dict(st.current.registers)))
    return states


bad = False
for isa, expected in EXPECTED.items():
    states = evaluate(isa)
    observed = states[0][1]
    llvm = llvm_cie_return_column(isa)
    print(f"{isa.name}: evaluator default return column = {observed}; "
          f"DWARF ABI requires {expected}"
          + (f"; llvm-mc CIE says {llvm}" if llvm is not None else ""))
    last_off, rc, regs = states[-1]
    if regs:
        print(f"    rules after the prologue (offset {last_off}): {regs}")
        print(f"    rule for the return address looked up via return_column "
              f"{rc}: {regs.get(rc, 'MISSING')}")
    if observed != expected:
        bad = True
        print("    VIOLATION: wrong return column for this ABI")

if bad:
    print("\nproperty C15 violated: 'yields ... the procedure state the DWARF "
          "call-frame rules define: ... return column ... for every ABI'")
    sys.exit(1)
print("ok")
sys.exit(0)
