"""
C17 finding 3: on x86 an integer argument that is a Python bool does not
arrive as 0/1 - CallPatch formats it with str(), emitting `mov RDI, True`
(`push True` on the stack), i.e. a reference to a *symbol* named "True".

bool is an int (the constructor's own `isinstance(arg, int)` check accepts it,
and the ARM64 back end, which formats with {value:x}, loads #0x1), and it is
what an argument callable such as `lambda ctx: ctx.offset == 0` returns.
On x86 apply() fails with UndefSymbolError - or, if the module happens to
contain a symbol called "True"/"False", silently passes that symbol instead.

Run:  cd /repo && PYTHONPATH=/repo/src /venv/bin/python hunt2/3/demo.py
Exit status 1 = violation present, 0 = fixed.
"""
import logging
import sys

sys.path.insert(0, "/repo/tests")

import capstone
import gtirb
import gtirb_rewriting
from gtirb_rewriting.patches import CallPatch
from gtirb_test_helpers import (
    add_code_block,
    add_data_block,
    add_data_section,
    add_symbol,
    add_text_section,
    create_test_module,
)
from helpers import add_function_object

logging.disable(logging.CRITICAL)

TARGETS = [
    ("x86-64 ELF", gtirb.Module.ISA.X64, gtirb.Module.FileFormat.ELF),
    ("x86-64 PE", gtirb.Module.ISA.X64, gtirb.Module.FileFormat.PE),
    ("IA32 PE", gtirb.Module.ISA.IA32, gtirb.Module.FileFormat.PE),
    ("ARM64 ELF", gtirb.Module.ISA.ARM64, gtirb.Module.FileFormat.ELF),
]


def disasm(m, bi):
    if m.isa == gtirb.Module.ISA.X64:
        md = capstone.Cs(capstone.CS_ARCH_X86, capstone.CS_MODE_64)
    elif m.isa == gtirb.Module.ISA.IA32:
        md = capstone.Cs(capstone.CS_ARCH_X86, capstone.CS_MODE_32)
    else:
        md = capstone.Cs(capstone.CS_ARCH_ARM64, capstone.CS_MODE_ARM)
    out = []
    for i in md.disasm(bytes(bi.contents), 0):
        syms = [
            e.symbol.name
            for o, e in bi.symbolic_expressions.items()
            if i.address <= o < i.address + i.size
        ]
        out.append((f"{i.mnemonic} {i.op_str}".strip(), syms))
    return out


def run(name, isa, ff, arg, with_symbol_named_true):
    arm = isa == gtirb.Module.ISA.ARM64
    nop = b"\x1f\x20\x03\xd5" if arm else b"\x90"
    ret = b"\xc0\x03\x5f\xd6" if arm else b"\xc3"
    _, m = create_test_module(ff, isa)
    _, bi = add_text_section(m, address=0x1000)
    b = add_code_block(bi, nop + ret)
    func = add_function_object(m, "caller", b)
    _, bi2 = add_text_section(m, address=0x2000)
    foo = add_symbol(m, "foo", add_code_block(bi2, ret))
    if with_symbol_named_true:
        _, dbi = add_data_section(m, address=0x4000)
        add_symbol(m, "True", add_data_block(dbi, b"\xEF\xBE\xAD\xDE" * 2))

    ctx = gtirb_rewriting.RewritingContext(m, [func])
    ctx.insert_at(
        b,
        0,
        CallPatch(
            foo,
            [arg],
            align_stack=False,
            clobbers_flags=False,
            preserve_caller_saved_registers=False,
            clobbers_registers=set(),
        ),
    )
    try:
        ctx.apply()
    except Exception as e:  # noqa: BLE001
        print(f"  [{name}] apply() raised {type(e).__name__}: {e}")
        return True

    # the instruction that materialises the argument is the first one that
    # is not stack bookkeeping
    for text, syms in disasm(m, bi):
        if text.split()[0] in ("mov", "movz", "push") and "sp" not in text:
            good = not syms and text.replace("#", "").split()[-1] in (
                "1",
                "0x1",
            )
            print(
                f"  [{name}] argument materialised by `{text}`"
                + (f" -> symbol {syms}" if syms else "")
                + ("   ok" if good else "   WRONG (required: the value 1)")
            )
            return not good
    print(f"  [{name}] no argument load found")
    return True


def main():
    bad = False
    print("CallPatch(foo, [True])  - required: first argument == 1")
    for t in TARGETS:
        bad |= run(*t, True, False)
    print("CallPatch(foo, [lambda ctx: ctx.offset == 0]) inserted at offset 0")
    for t in TARGETS:
        bad |= run(*t, lambda ctx: ctx.offset == 0, False)
    print('same, in a module that has a data symbol named "True"')
    for t in TARGETS:
        bad |= run(*t, True, True)
    if bad:
        print("VIOLATION: bool integer arguments do not arrive as 0/1 on x86")
        return 1
    print("OK")
    return 0


if __name__ == "__main__":
    sys.exit(main())
