"""
C13 demo 2: CallPatch turns the gtirb.Symbol it was given back into assembly
text by interpolating Symbol.name unquoted (Intel syntax on x86).  A module
symbol whose name is not a bare identifier for the assembler therefore does
not bind to the module's symbol object: it is either rejected
(AsmSyntaxError) or - when the name is also a register name - silently
assembled as a register operand.

Run:  cd /repo && PYTHONPATH=/repo/src /venv/bin/python hunt2/2/demo.py
Exits 1 when the violation is present, 0 when fixed.
"""
import logging
import sys

import gtirb
import gtirb_functions
from gtirb_test_helpers import (
    add_code_block,
    add_function,
    add_symbol,
    add_text_section,
    create_test_module,
    set_all_blocks_alignment,
)

import gtirb_rewriting
import gtirb_rewriting._auxdata as _auxdata
from gtirb_rewriting import X86Syntax
from gtirb_rewriting.assembler import Assembler
from gtirb_rewriting.patches import CallPatch

logging.getLogger("gtirb_rewriting").setLevel(logging.CRITICAL)

ELF = gtirb.Module.FileFormat.ELF
PE = gtirb.Module.FileFormat.PE
X64 = gtirb.Module.ISA.X64


def function_object(m, name, block):
    sym = add_symbol(m, name, block)
    func_uuid = add_function(m, sym, block)
    return sym, gtirb_functions.Function(func_uuid, {block}, {block}, {sym}, set())


def trial(file_format, callee_name):
    """
    main:   nop; ret        <- CallPatch(callee symbol) inserted at offset 0
    callee: ret
    """
    ir, m = create_test_module(file_format, X64)
    _, bi = add_text_section(m, address=0x1000)
    main = add_code_block(bi, b"\x90\xc3")
    callee = add_code_block(bi, b"\xc3")
    _, fmain = function_object(m, "main", main)
    callee_sym, fcallee = function_object(m, callee_name, callee)
    _auxdata.alignment.get_or_insert(m)
    set_all_blocks_alignment(m, 1)

    ctx = gtirb_rewriting.RewritingContext(m, [fmain, fcallee])
    ctx.insert_at(
        main,
        0,
        CallPatch(
            callee_sym,
            # keep the inserted code down to the call itself
            preserve_caller_saved_registers=False,
            clobbers_flags=False,
            align_stack=False,
        ),
    )
    try:
        ctx.apply()
    except Exception as exc:  # noqa: BLE001
        return False, f"{type(exc).__name__}: {exc}"

    bound = [
        off
        for off, expr in bi.symbolic_expressions.items()
        if any(s is callee_sym for s in expr.symbols)
    ]
    call_edges = [
        e for e in ir.cfg if e.label and e.label.type == gtirb.Edge.Type.Call
    ]
    to_callee = [e for e in call_edges if e.target is callee]
    ok = bool(bound) and bool(to_callee)
    return ok, (
        f"bytes={bi.contents.hex()} symbolic operands bound to the callee "
        f"symbol at {bound}; call edges to callee block: {len(to_callee)} "
        f"of {len(call_edges)} "
        f"({[type(e.target).__name__ for e in call_edges]})"
    )


def direct_quoted(file_format, name):
    """Shows that the assembler itself can bind the name when it is quoted."""
    _, m = create_test_module(file_format, X64)
    _, bi = add_text_section(m, address=0x1000)
    sym = add_symbol(m, name, add_code_block(bi, b"\xc3"))
    asm = Assembler(m)
    asm.assemble(f'call "{name}"', X86Syntax.INTEL)
    res = asm.finalize()
    return any(
        s is sym
        for e in res.text_section.symbolic_expressions.values()
        for s in e.symbols
    )


cases = [
    ("control", ELF, "helper"),
    ("MSVC-decorated C++ name (the normal case on PE)", PE, "?foo@@YAXXZ"),
    ("name that is also a register name", ELF, "r8"),
]

violations = 0
for title, ff, name in cases:
    ok, observed = trial(ff, name)
    print(f"--- {title}: module symbol {name!r} ({ff.name}), CallPatch(sym)")
    print(
        "required: a direct call whose operand is a symbolic expression on "
        "that very Symbol object, and a Call edge to its block"
    )
    print("observed:", observed)
    print(
        "assembler binds the quoted name to the module symbol:",
        direct_quoted(ff, name),
    )
    print("=> ok" if ok else "=> VIOLATION")
    print()
    if title != "control":
        violations += not ok
    elif not ok:
        print("control failed - demo is broken")
        sys.exit(2)

print("violations:", violations)
sys.exit(1 if violations else 0)
