#!/usr/bin/env python
"""
C11 finding 2: the registration order of register_insert_function() calls
leaks into the result although the inserted functions target different (brand
new) locations.

Three functions are registered in every possible order:

    fa:  call fb ; ret
    fb:  jmp .L_x ; .L_x: ret
    fc:  call fa ; call fb ; jmp .L_y ; .L_y: ret

C11: "Registration order matters only among modifications that target the same
offset of the same block."  The three insertions share no block, so all six
orders have to give the same module (up to UUIDs), including temporary-label
names.  Observed: the numeric suffix of the temporary labels follows the
registration order, and the number of ProxyBlocks left in module.proxies
differs as well.

exit 1 = results depend on the order (violation present), 0 = they do not.
"""
import itertools
import logging
import os
import sys

HERE = os.path.dirname(os.path.abspath(__file__))
ROOT = os.path.dirname(os.path.dirname(HERE))
sys.path.insert(0, os.path.join(ROOT, "src"))

import gtirb  # noqa: E402
from gtirb_test_helpers import (  # noqa: E402
    add_code_block,
    add_edge,
    add_function,
    add_proxy_block,
    add_text_section,
    create_test_module,
)

import gtirb_functions  # noqa: E402
from gtirb_rewriting import Constraints, Patch, RewritingContext  # noqa: E402

logging.disable(logging.CRITICAL)

PATCHES = {
    "fa": "call fb\nret",
    "fb": "jmp .L_x\n.L_x:\nret",
    "fc": "call fa\ncall fb\njmp .L_y\n.L_y:\nret",
}


def run(order):
    ir, m = create_test_module(
        gtirb.Module.FileFormat.ELF, gtirb.Module.ISA.X64
    )
    _, bi = add_text_section(m, address=0x1000)
    b = add_code_block(bi, b"\x90\xc3")  # nop; ret
    add_edge(ir.cfg, b, add_proxy_block(m), gtirb.Edge.Type.Return)
    add_function(m, "main", b)
    functions = gtirb_functions.Function.build_functions(m)

    ctx = RewritingContext(m, functions)
    for name in order:
        asm = PATCHES[name]
        ctx.register_insert_function(
            name, Patch.from_function(lambda c, asm=asm: asm, Constraints())
        )
    ctx.apply()

    # UUID- and address-free observables
    func_of_interval = {
        s.referent.byte_interval: s.name
        for s in m.symbols
        if s.name in PATCHES or s.name == "main"
    }
    labels = sorted(
        (s.name, func_of_interval.get(s.referent.byte_interval))
        for s in m.symbols
        if s.name.startswith(".L")
    )
    edges = sorted(
        (
            func_of_interval.get(getattr(e.source, "byte_interval", None), "-"),
            func_of_interval.get(getattr(e.target, "byte_interval", None), "-"),
            e.label.type.name,
        )
        for e in ir.cfg
        if isinstance(e.source, gtirb.CodeBlock)
    )
    return {
        "temp labels (name, function)": labels,
        "len(module.proxies)": len(m.proxies),
        "cfg (src fn, dst fn, type)": edges,
    }


def main():
    results = {}
    for order in itertools.permutations(sorted(PATCHES)):
        results[order] = run(order)

    base_order = ("fa", "fb", "fc")
    base = results[base_order]
    violated = False
    print("property requires: every registration order gives the same module")
    for order, res in results.items():
        diffs = [k for k in res if res[k] != base[k]]
        print("order %s:" % (order,))
        print("    temp labels         : %s" % res["temp labels (name, function)"])
        print("    len(module.proxies) : %d" % res["len(module.proxies)"])
        if diffs:
            violated = True
            print("    differs from %s in: %s" % (base_order, ", ".join(diffs)))
    if violated:
        print("VIOLATION: result depends on the order of register_insert_function calls (C11)")
        return 1
    print("all orders identical")
    return 0


if __name__ == "__main__":
    sys.exit(main())
