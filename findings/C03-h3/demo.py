#!/usr/bin/env python
"""
C03 demo 3: a patch that calls the function it is inserted into (a recursive
call) puts the new Return edge on the wrong block.

    main: call g                main: call g
          ret                         ret
    g:    nop   <- insert_at    g:    call g      <- block H
          ret      "call g"           nop         <- block T (return site)
                                      ret

The return of g (end of block T) must lead to both return sites: the `ret` of
main and block T. The library instead adds a Return edge H -> T, i.e. on the
block that ends with the inserted *call*, and g's real return never gets it.

Run:  cd /repo && PYTHONPATH=/repo/src /venv/bin/python hunt/3/demo.py
Exit status 1 = violation present, 0 = behaves as the property requires.
(HUNT_APPLY_FIX=1 applies the suggested fix as a run-time monkeypatch.)
"""
import os
import sys

import gtirb
import gtirb_functions
from gtirb_test_helpers import (
    add_code_block,
    add_edge,
    add_function,
    add_proxy_block,
    add_symbol,
    add_text_section,
    create_test_module,
    set_all_blocks_alignment,
)

import gtirb_rewriting
from gtirb_rewriting import Patch, patch_constraints

if os.environ.get("HUNT_APPLY_FIX"):
    sys.path.insert(0, os.path.join(os.path.dirname(__file__), ".."))
    import fixes

    fixes.fix_insert_order()

E = gtirb.Edge.Type


def literal_patch(asm):
    @patch_constraints()
    def p(ctx):
        return asm

    return Patch.from_function(p)


def func(m, sym, entry, others=frozenset()):
    u = add_function(m, sym, entry, set(others))
    return gtirb_functions.Function(u, {entry}, {entry} | set(others), [sym])


ir, m = create_test_module(gtirb.Module.FileFormat.ELF, gtirb.Module.ISA.X64)
_, bi = add_text_section(m, address=0x1000)

g_sym = add_symbol(m, "g", None)
call = b"\xe8\x00\x00\x00\x00"
m1 = add_code_block(bi, call, {1: gtirb.SymAddrConst(0, g_sym)})  # main: call g
m2 = add_code_block(bi, b"\xc3")  #       ret
g_blk = add_code_block(bi, b"\x90\xc3")  # g: nop; ret
g_sym.referent = g_blk
main_fn = func(m, add_symbol(m, "main", m1), m1, {m2})
g_fn = func(m, g_sym, g_blk)

add_edge(ir.cfg, m1, g_blk, E.Call)
add_edge(ir.cfg, m1, m2, E.Fallthrough)
add_edge(ir.cfg, g_blk, m2, E.Return)
add_edge(ir.cfg, m2, add_proxy_block(m), E.Return)
set_all_blocks_alignment(m, 1)

ctx = gtirb_rewriting.RewritingContext(m, [main_fn, g_fn])
ctx.insert_at(g_blk, 0, literal_patch("call g"))
ctx.apply()

assert bi.contents == call + b"\xc3" + call + b"\x90\xc3", bi.contents
# 0x1000 main: call g | 0x1005 ret | 0x1006 g: call g | 0x100b nop; ret
blocks = {b.address: b for b in m.code_blocks}
H = blocks[0x1006]
T = blocks[0x100B]
assert (H.size, T.size) == (5, 2), (H.size, T.size)


def desc(n):
    if isinstance(n, gtirb.ProxyBlock):
        return "proxy"
    what = {0x1000: "main: call g", 0x1005: "ret", 0x1006: "g: call g (H)", 0x100B: "nop; ret (T)"}
    return f"[{n.address:#x} {what[n.address]}]"


print("edges after the rewrite:")
for e in sorted(ir.cfg, key=lambda e: (e.source.address, e.label.type.value)):
    print(f"   {desc(e.source)} -{e.label.type.name}-> {desc(e.target)}")


def rets(b):
    return {e.target for e in b.outgoing_edges if e.label.type == E.Return}


print()
print("property requires: Return edges of T (g's ret) = {", desc(m2), ",", desc(T), "}; none on H")
print("observed         : Return edges of T =", sorted(desc(t) for t in rets(T)))
print("                   Return edges of H =", sorted(desc(t) for t in rets(H)))

ok = rets(T) == {m2, T} and not rets(H)
if ok:
    print("OK")
    sys.exit(0)
print(
    "VIOLATION: the block ending with the inserted call carries a Return edge "
    "and g's return lacks the edge to the new return site"
)
sys.exit(1)
