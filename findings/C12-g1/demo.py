"""
C12 / finding 1: the addend of a `_GLOBAL_OFFSET_TABLE_` operand is not the one written.

LLVM's x86 encoder gives operands that start with `_GLOBAL_OFFSET_TABLE_` the fixup kinds
reloc_global_offset_table / reloc_global_offset_table8 and folds a position bias into the fixup
expression (the -4 of a RIP-relative field, or "offset of the field inside the instruction" for an
immediate / absolute displacement).  Those kinds are not flagged pc-relative, so
_Streamer._fixup_to_symbolic_operand does not strip the bias and it ends up as the addend of the
GTIRB symbolic expression.

Run:  cd /repo && PYTHONPATH=/repo/src /venv/bin/python hunt2/1/demo.py
Exit status 1 while the violation is present, 0 once fixed.
"""
import sys

import gtirb
from gtirb_test_helpers import add_data_block, add_data_section, add_symbol, create_test_module

import gtirb_rewriting
import gtirb_rewriting.assembler.assembler
from gtirb_rewriting import X86Syntax


def assemble(isa, asm, syntax=X86Syntax.ATT):
    _, m = create_test_module(gtirb.Module.FileFormat.ELF, isa, binary_type=["DYN"])
    _, bi = add_data_section(m, address=0x4000)
    got = add_data_block(bi, b"\x00" * 8)
    add_symbol(m, "_GLOBAL_OFFSET_TABLE_", got)
    add_symbol(m, "foo", got)
    a = gtirb_rewriting.Assembler(m)
    a.assemble(asm, syntax)
    return a.finalize().text_section


CASES = [
    # isa, syntax, assembly, offset of the operand, written addend
    (gtirb.Module.ISA.X64, X86Syntax.ATT, "leaq foo(%rip), %r15", 3, 0),  # control
    (gtirb.Module.ISA.X64, X86Syntax.ATT, "leaq _GLOBAL_OFFSET_TABLE_(%rip), %r15", 3, 0),
    (gtirb.Module.ISA.X64, X86Syntax.INTEL, "lea r15, [rip + _GLOBAL_OFFSET_TABLE_]", 3, 0),
    (gtirb.Module.ISA.X64, X86Syntax.ATT, "leaq _GLOBAL_OFFSET_TABLE_+8(%rip), %r15", 3, 8),
    (gtirb.Module.ISA.X64, X86Syntax.ATT, "movabsq $_GLOBAL_OFFSET_TABLE_, %r11", 2, 0),
    (gtirb.Module.ISA.IA32, X86Syntax.ATT, "movl $foo, %eax", 1, 0),  # control
    (gtirb.Module.ISA.IA32, X86Syntax.ATT, "movl $_GLOBAL_OFFSET_TABLE_, %eax", 1, 0),
    (gtirb.Module.ISA.IA32, X86Syntax.ATT, "leal _GLOBAL_OFFSET_TABLE_(%ebx), %eax", 2, 0),
]

bad = 0
for isa, syntax, asm, op_off, addend in CASES:
    try:
        sect = assemble(isa, asm, syntax)
    except gtirb_rewriting.assembler.assembler.UnsupportedAssemblyError as exc:
        # the bias is nested around the written `sym+8`, so the expression is not even recognised
        print(f"{isa.name:5} {asm:45} required addend {addend:2} at +{op_off}; "
              f"observed refusal: {exc} <-- (same text with `foo` assembles)")
        bad += 1
        continue
    exprs = sect.symbolic_expressions
    ok = (
        set(exprs) == {op_off}
        and isinstance(exprs[op_off], gtirb.SymAddrConst)
        and exprs[op_off].offset == addend
    )
    got = {o: (e.symbol.name, e.offset) for o, e in exprs.items()}
    print(
        f"{isa.name:5} {asm:45} required addend {addend:2} at +{op_off}; "
        f"observed {got} {'ok' if ok else '<-- WRONG ADDEND'}"
    )
    bad += not ok

if bad:
    print(f"\nVIOLATION: {bad} operand(s) got an addend that was never written "
          "(LLVM's internal fixup bias leaked into the symbolic expression)")
    sys.exit(1)
print("\nall addends as written")
sys.exit(0)
