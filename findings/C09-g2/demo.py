#!/usr/bin/env python
"""
C09 demo 2: apply() visits blocks in an order that disagrees with the rewrite
cache's neighbour order when a zero-sized block sits at the address of the
next block, so the outcome of a batch is not determined by the input and it
can crash on a block an earlier modification of the same batch removed.

Module (.text):  A: nop ; jmp Z        Z: code block, label z      (incoming branch)
                 D: 8-byte data block  C: ret
Step 0 (separate context): delete_at(Z, 0, size).  Z has an incoming branch and
is followed by data, so the library keeps it as a zero-sized block - the
situation documented in doc/Deletion.md.

Modification set (one apply()):  delete_at(Z, 0, 0, retarget_to_proxy=P)
                                 delete_at(D, 0, 8, retarget_to_proxy=Q)

One at a time, in address order (Z precedes D: that is the order of the
rewrite cache, ModifyCache sorts by (address, size != 0)), always gives one
module.  The batch gives that module only when module.byte_blocks happens to
yield Z before D; otherwise D is handled first and
  - (P, Q) = (False, False): deleting D also removes the empty Z, then Z's own
    deletion runs on a detached block -> AssertionError;
  - (P, Q) = (False, True): label z ends on C instead of on D's proxy.

Exit status: 1 if the violation is present, 0 otherwise.
"""
import collections
import sys

import gtirb
import gtirb_functions
from gtirb_test_helpers import (
    add_code_block,
    add_data_block,
    add_edge,
    add_function,
    add_proxy_block,
    add_symbol,
    add_text_section,
    create_test_module,
    set_all_blocks_alignment,
)

import gtirb_rewriting

ET = gtirb.Edge.Type
TRIALS = 40


def functions(m):
    return gtirb_functions.Function.build_functions(m)


def build():
    ir, m = create_test_module(
        gtirb.Module.FileFormat.ELF, gtirb.Module.ISA.X64
    )
    _, bi = add_text_section(m, address=0x1000)
    z_sym = add_symbol(m, "z")
    a = add_code_block(
        bi, b"\x90\xe9\0\0\0\0", {(2, 4): gtirb.SymAddrConst(0, z_sym)}
    )
    z = add_code_block(bi, b"\x90\x90")
    d = add_data_block(bi, b"\x11" * 8)
    c = add_code_block(bi, b"\xc3")
    z_sym.referent = z
    add_symbol(m, "d", d)
    add_symbol(m, "c", c)
    add_edge(ir.cfg, a, z, ET.Branch)
    add_edge(ir.cfg, c, add_proxy_block(m), ET.Return)
    add_function(m, "f", a, {z, c})
    set_all_blocks_alignment(m, 1)

    # Step 0: the library itself leaves Z behind as a zero-sized block.
    ctx = gtirb_rewriting.RewritingContext(m, functions(m))
    ctx.delete_at(z, 0, z.size)
    ctx.apply()
    assert z.byte_interval is not None and z.size == 0
    assert z.address == d.address
    return ir, m, {"a": a, "z": z, "d": d, "c": c}


def describe(m, n):
    """Where label z and the branch out of A ended up."""
    names = {v: k for k, v in n.items()}

    def where(node):
        if isinstance(node, gtirb.ProxyBlock):
            return "proxy"
        if node is None:
            return "None"
        if getattr(node, "byte_interval", None) is None:
            return "DETACHED " + names.get(node, "?")
        return names.get(node, "new block")

    z_sym = next(s for s in m.symbols if s.name == "z")
    d_sym = next(s for s in m.symbols if s.name == "d")
    branch = sorted(
        where(e.target) for e in n["a"].outgoing_edges if e.label.type == ET.Branch
    )
    blocks = sorted(
        (b.address, b.size, names.get(b, "new"))
        for b in m.byte_blocks
    )
    return (
        f"z->{where(z_sym.referent)}",
        f"d->{where(d_sym.referent)}",
        f"A branches to {branch}",
        f"blocks {[x[2] for x in blocks]}",
    )


def batch(p, q):
    ir, m, n = build()
    ctx = gtirb_rewriting.RewritingContext(m, functions(m))
    ctx.delete_at(n["z"], 0, 0, retarget_to_proxy=p)
    ctx.delete_at(n["d"], 0, 8, retarget_to_proxy=q)
    try:
        ctx.apply()
    except AssertionError as e:
        import traceback

        frame = traceback.extract_tb(e.__traceback__)[-1]
        return ("AssertionError", f"{frame.name}: {frame.line}")
    return describe(m, n)


def one_at_a_time(p, q, z_first=True):
    ir, m, n = build()
    steps = [("z", 0, p), ("d", 8, q)]
    if not z_first:
        steps.reverse()
    for name, length, proxy in steps:
        ctx = gtirb_rewriting.RewritingContext(m, functions(m))
        ctx.delete_at(n[name], 0, length, retarget_to_proxy=proxy)
        ctx.apply()
    return describe(m, n)


def main():
    bad = False
    for p, q in ((False, False), (False, True)):
        print(f"== delete_at(Z,0,0,retarget_to_proxy={p}) + "
              f"delete_at(D,0,8,retarget_to_proxy={q})")
        required = {one_at_a_time(p, q) for _ in range(5)}
        assert len(required) == 1, "one-at-a-time must be deterministic"
        required = required.pop()
        print("  required (one at a time, Z then D):", required)
        other = one_at_a_time(p, q, z_first=False)
        print("  (one at a time, D then Z, for reference):", other)
        outcomes = collections.Counter(batch(p, q) for _ in range(TRIALS))
        for outcome, count in outcomes.most_common():
            mark = "ok " if outcome == required else "BAD"
            print(f"  batch {count:2d}/{TRIALS} {mark}:", outcome)
        if set(outcomes) != {required}:
            bad = True
        if any(o not in (required, other) for o in outcomes):
            print("  -> the batch produced an outcome that NO one-at-a-time "
                  "order produces")
    print("VIOLATION PRESENT" if bad else "no violation")
    return 1 if bad else 0


if __name__ == "__main__":
    sys.exit(main())
