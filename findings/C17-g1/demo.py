"""
C17 finding 1: the ARM64 CallPatch back end ignores CallingConventionDesc.caller_cleanup.

With a callee-cleanup convention (caller_cleanup=False) the callee removes its
stack arguments before returning, so the caller must NOT release them again.
_CallPatchX86 honours this; _CallPatchARM64 always emits
`add sp, sp, #<whole outgoing area>` after the `bl`, so the stack pointer ends
up above where it started.

Run:  cd /repo && PYTHONPATH=/repo/src /venv/bin/python hunt2/1/demo.py
Exit status 1 = violation present, 0 = fixed (either honoured or cleanly refused).
"""
import re
import sys

sys.path.insert(0, "/repo/tests")

import gtirb
import gtirb_rewriting
from gtirb_rewriting.abi import CallingConventionDesc
from gtirb_rewriting.patches import CallPatch
from gtirb_test_helpers import (
    add_code_block,
    add_text_section,
    create_test_module,
)
from helpers import add_function_object

NOP = b"\x1f\x20\x03\xd5"
RET = b"\xc0\x03\x5f\xd6"


def emitted_asm(conv, args):
    """Apply the patch through the public API and return the text CallPatch
    produced (captured from get_asm) - proves the input is accepted."""
    _, m = create_test_module(
        gtirb.Module.FileFormat.ELF, gtirb.Module.ISA.ARM64
    )
    _, bi = add_text_section(m, address=0x1000)
    b = add_code_block(bi, NOP + RET)
    func = add_function_object(m, "caller", b)
    cb = add_code_block(bi, RET)
    add_function_object(m, "foo", cb)
    foo = next(s for s in m.symbols if s.name == "foo")

    patch = CallPatch(foo, args, conv)
    captured = []
    orig = patch.get_asm

    def spy(ctx):
        asm = orig(ctx)
        captured.append(asm)
        return asm

    patch.get_asm = spy
    ctx = gtirb_rewriting.RewritingContext(m, [func])
    ctx.insert_at(b, 0, patch)
    ctx.apply()
    return captured[0]


def sp_delta(asm, n_stack_args, caller_cleanup, callee_pops_rounded):
    """Net change of sp over the emitted sequence, modelling the callee."""
    sp = 0
    for line in asm.splitlines():
        line = line.strip()
        m = re.fullmatch(r"(sub|add) sp, sp, #(\d+)", line)
        if m:
            sp += int(m[2]) * (1 if m[1] == "add" else -1)
        elif line.startswith("bl "):
            if not caller_cleanup:
                popped = n_stack_args * 8
                if callee_pops_rounded:
                    popped = (popped + 15) & -16
                sp += popped  # callee cleanup: the callee releases its args
        else:
            assert "sp," not in line.split(",")[0], line  # no other sp writes
    return sp


def main():
    args = [1]
    bad = False
    for caller_cleanup in (True, False):
        conv = CallingConventionDesc((), 16, caller_cleanup)
        try:
            asm = emitted_asm(conv, args)
        except ValueError as e:
            print(f"caller_cleanup={caller_cleanup}: refused cleanly: {e}")
            continue
        print(f"--- caller_cleanup={caller_cleanup}: CallPatch(foo, [1]) emits")
        print(asm)
        for rounded in (False, True):
            d = sp_delta(asm, len(args), caller_cleanup, rounded)
            how = "16-byte rounded" if rounded else "exact 8*n"
            print(
                f"    sp after - sp before = {d:+d}  (callee pops {how}); "
                "required: +0"
            )
            if d != 0:
                bad = True
    if bad:
        print(
            "VIOLATION: with caller_cleanup=False the ARM64 sequence is not "
            "stack-neutral (flag silently ignored)"
        )
        return 1
    print("OK")
    return 0


if __name__ == "__main__":
    sys.exit(main())
