#!/usr/bin/env python
"""
C09 finding 2: after split_block() the block-ordering cache puts the tail of
the split block directly after its head, in front of a (zero-sized) block that
lies *inside* the head.  A later deletion in the same apply() then asks the
cache for the "previous block", gets the nested zero-sized block instead of the
real predecessor, removes it, and drags its symbol to an unrelated block.

    .data  D: 00 01 02 03 04 05 06 07   d:
           N: aa aa aa aa               n:
           M: bb bb bb bb               m:
    symbol `mid` has the integral payload address(D)+4

prepare_for_rewriting() -> gtirb_layout.assign_integral_symbols() turns `mid`
into a zero-sized DataBlock Z at D+4 (nested in D); ModifyCache orders the
section D, Z, N, M.

    modifications (address order):
        1. insert_at(D, 6, ".byte 0x11; .Lx: .byte 0x22")  (after Z!)
        2. delete_at(N, 0, 4)

After 1. the IR order is D[0:6] (with Z at +4), patch, D[6:8], N, M, but the
cache says D, patch, D[6:8], Z, N, M.  For 2. delete() sees prev_block == Z,
zero-sized, and "cleans it up": `mid` ends up on M.  Applied one at a time the
second context orders by address, Z is not adjacent to N and `mid` stays on the
byte 04.

Exit status: 1 if the violation is present, 0 otherwise.
"""
import sys

import gtirb
from gtirb_test_helpers import (
    add_data_block,
    add_data_section,
    add_symbol,
    create_test_module,
)

import gtirb_rewriting
import gtirb_rewriting.rewriting as rw
from gtirb_rewriting import Patch, patch_constraints


@patch_constraints()
def data_patch(ctx):
    return """
        .byte 0x11
    .Lx:
        .byte 0x22
    """


def build():
    ir, m = create_test_module(gtirb.Module.FileFormat.ELF, gtirb.Module.ISA.X64)
    _, bi = add_data_section(m, address=0x4000)
    d = add_data_block(bi, bytes(range(8)))
    n = add_data_block(bi, b"\xaa" * 4)
    mm = add_data_block(bi, b"\xbb" * 4)
    add_symbol(m, "d", d)
    add_symbol(m, "n", n)
    add_symbol(m, "m", mm)
    mid = gtirb.Symbol("mid", payload=0x4004)
    mid.module = m
    return m, d, n, mm, mid


def where(sym):
    """What the symbol designates in the final module: the bytes that follow
    it, looked up through the IR only."""
    blk = sym.referent
    if blk is None:
        return "integral %#x" % sym.value
    bi = blk.byte_interval
    pos = blk.offset + (blk.size if sym.at_end else 0)
    return "%s at %#x -> next bytes %s" % (
        type(blk).__name__,
        bi.address + pos,
        bi.contents[pos : pos + 2].hex(),
    )


def ir_prev(block):
    """Predecessor of `block` in its section computed from the IR only
    (interval start address, then offset; zero-sized blocks first)."""
    blocks = sorted(
        block.section.byte_blocks,
        key=lambda b: (b.byte_interval.address, b.offset, b.size != 0),
    )
    i = next(i for i, b in enumerate(blocks) if b is block)
    return blocks[i - 1] if i else None


mid_rewrite = {}
_orig_delete = rw.delete


def _delete(cache, block, offset, length, retarget_to_proxy=False):
    def desc(b):
        return "%s(offset=%d,size=%d) in interval@%#x" % (
            type(b).__name__, b.offset, b.size, b.byte_interval.address)

    mid_rewrite["cache"] = cache.adjacent_blocks(block)[0]
    mid_rewrite["ir"] = ir_prev(block)
    mid_rewrite["cache_s"] = desc(mid_rewrite["cache"])
    mid_rewrite["ir_s"] = desc(mid_rewrite["ir"])
    return _orig_delete(cache, block, offset, length, retarget_to_proxy)


def main():
    # batch
    rw.delete = _delete
    m1, d, n, mm, mid1 = build()
    ctx = gtirb_rewriting.RewritingContext(m1, [])
    ctx.insert_at(d, 6, Patch.from_function(data_patch))
    ctx.delete_at(n, 0, n.size)
    ctx.apply()
    rw.delete = _orig_delete

    # one at a time, address order
    m2, d, n, mm, mid2 = build()
    ctx = gtirb_rewriting.RewritingContext(m2, [])
    ctx.insert_at(d, 6, Patch.from_function(data_patch))
    ctx.apply()
    ctx = gtirb_rewriting.RewritingContext(m2, [])
    ctx.delete_at(n, 0, n.size)
    ctx.apply()

    c1 = next(iter(m1.byte_intervals)).contents.hex()
    c2 = next(iter(m2.byte_intervals)).contents.hex()
    print("batch       : .data =", c1, "| mid ->", where(mid1))
    print("one at a time: .data =", c2, "| mid ->", where(mid2))
    print(
        "mid-rewrite, predecessor of N before step 2:\n"
        "   block-ordering cache: %s\n   IR                  : %s"
        % (mid_rewrite["cache_s"], mid_rewrite["ir_s"])
    )
    print(
        "property requires: same module both ways; `mid` keeps designating "
        "the byte 04 of D (nothing at D+4 was modified)"
    )
    bad = (
        where(mid1) != where(mid2)
        or c1 != c2
        or mid_rewrite["cache"] is not mid_rewrite["ir"]
    )
    print("VIOLATION" if bad else "ok")
    return 1 if bad else 0


if __name__ == "__main__":
    sys.exit(main())
