"""
C02 finding 2: a label defined at the end of a patch does not keep its
position inside the spliced patch when a second patch is registered for the
same place and that place is the end of the block: the second patch is spliced
in *before* the label.

Run:  cd /repo && PYTHONPATH=/repo/src /venv/bin/python hunt/2/demo.py
Exit status 1 = violation present, 0 = not present.
"""
import logging
import sys

sys.path.insert(0, "/repo/tests")

import gtirb
import gtirb_rewriting
from gtirb_test_helpers import (
    add_code_block,
    add_edge,
    add_symbol,
    add_text_section,
    create_test_module,
)
from helpers import add_function_object, literal_patch

logging.disable(logging.CRITICAL)


def addr(sym):
    r = sym.referent
    assert isinstance(r, gtirb.ByteBlock) and r.byte_interval is not None
    return r.address + (r.size if sym.at_end else 0)


def run(second_at_same_place: bool, where: str):
    """
        foo:  push %rax        <- block A (1 byte)
        b:    ret              <- block B
    P1 = "nop; skip:"   registered first
    P2 = "ud2"          registered second, for the same place
    """
    ir, m = create_test_module(
        gtirb.Module.FileFormat.ELF, gtirb.Module.ISA.X64
    )
    _, bi = add_text_section(m, address=0x1000)
    a = add_code_block(bi, b"\x50")
    b = add_code_block(bi, b"\xc3")
    add_edge(ir.cfg, a, b, gtirb.EdgeType.Fallthrough)
    foo = add_function_object(m, "foo", a, {b})
    add_symbol(m, "b", b)

    ctx = gtirb_rewriting.RewritingContext(m, [foo])
    if where == "end":
        # both at the end of A
        ctx.insert_at(a, a.size, literal_patch("nop\nskip:"))
        if second_at_same_place:
            ctx.insert_at(a, a.size, literal_patch("ud2"))
    else:
        # both at offset 0 of B: the very same address, other side of the
        # block boundary (control: this works)
        ctx.insert_at(b, 0, literal_patch("nop\nskip:"))
        if second_at_same_place:
            ctx.insert_at(b, 0, literal_patch("ud2"))
    ctx.apply()

    contents = bytes(bi.contents)
    skip = next(s for s in m.symbols if s.name == "skip")
    p1_start = 0x1000 + contents.index(b"\x90")
    return contents, addr(skip), p1_start


if __name__ == "__main__":
    bad = False
    for where in ("start-of-B", "end"):
        for second in (False, True):
            contents, skip_addr, p1_start = run(second, where)
            # P1 is "nop; skip:" so skip has to be 1 byte after the start of
            # the spliced P1, whatever else is inserted.
            want = p1_start + 1
            verdict = "ok" if skip_addr == want else "WRONG"
            print(
                "patches at %-10s second patch=%-5s contents=%s  "
                "P1 spliced at 0x%x  skip=0x%x  required=0x%x  %s"
                % (
                    where,
                    second,
                    contents.hex(),
                    p1_start,
                    skip_addr,
                    want,
                    verdict,
                )
            )
            bad |= skip_addr != want
    if bad:
        print(
            "VIOLATION: 'skip' is defined right after P1's nop, but the "
            "second patch (0f0b) was spliced in between"
        )
        sys.exit(1)
    print("ok")
    sys.exit(0)
