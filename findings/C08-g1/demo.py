"""
C08 hunt2 finding 1

delete_at()/replace_at() of the FIRST INSTRUCTION of g's entry block (the
block itself survives) drops g's .cfi_lsda / .cfi_personality / .cfi_def_cfa /
.cfi_offset whenever f's .cfi_endproc sits at offset 0 of that block - and
that is exactly where gtirb-rewriting itself moves it when f's last block is
deleted, or when f's final `ret` is replaced by a patch that ends in a jump.

The directives that are lost do not describe the deleted instruction: they sit
at the position where the deletion STARTS.  After the rewrite the module's CFI
does not evaluate any more (.cfi_def_cfa_offset without a CFA rule) and g has
lost its LSDA and personality.

Run:  PYTHONPATH=/repo/src /venv/bin/python hunt2/1/demo.py
Exit status 1 = violation present, 0 = fixed.
"""
import sys

import gtirb
import gtirb_functions
import gtirb_rewriting
from gtirb_rewriting._auxdata import NULL_UUID
from gtirb_rewriting.dwarf.cfi_eval import evaluate_cfi_directives
from gtirb_test_helpers import (
    add_code_block,
    add_data_block,
    add_data_section,
    add_edge,
    add_function,
    add_proxy_block,
    add_symbol,
    add_text_section,
    create_test_module,
    set_all_blocks_alignment,
)


def literal_patch(asm):
    @gtirb_rewriting.patch_constraints()
    def patch(ctx):
        return asm

    return gtirb_rewriting.Patch.from_function(patch)


def build():
    """
    f:   .cfi_startproc
         .cfi_def_cfa 7, 8
         nop
    .L1: ret                         <- second (last) block of f
         .cfi_endproc
    g:   .cfi_startproc
         .cfi_lsda 27, LSDA0
         .cfi_personality 155, __gxx_personality_v0
         .cfi_def_cfa 7, 8
         .cfi_offset 16, -8
         push %rbp
         .cfi_def_cfa_offset 16
         mov %rsp, %rbp
         pop %rbp
         .cfi_def_cfa_offset 8
         ret
         .cfi_endproc
    """
    ir, m = create_test_module(
        gtirb.Module.FileFormat.ELF, gtirb.Module.ISA.X64
    )
    _, bi = add_text_section(m, address=0x1000)
    _, dbi = add_data_section(m, address=0x4000)
    lsda = add_symbol(m, "LSDA0", add_data_block(dbi, b"\xff\xff\x01\x00"))
    pers = add_symbol(m, "__gxx_personality_v0", add_proxy_block(m))
    add_symbol(m, "handler", add_proxy_block(m))

    bf1 = add_code_block(bi, b"\x90")
    bf2 = add_code_block(bi, b"\xc3")
    bg = add_code_block(bi, b"\x55\x48\x89\xe5\x5d\xc3")
    add_edge(ir.cfg, bf1, bf2, gtirb.Edge.Type.Fallthrough)
    for b in (bf2, bg):
        add_edge(ir.cfg, b, add_proxy_block(m), gtirb.Edge.Type.Return)
    add_function(m, "f", bf1, {bf2})
    add_function(m, "g", bg)
    set_all_blocks_alignment(m, 1)

    def d(name, *args, sym=NULL_UUID):
        return (name, list(args), sym)

    m.aux_data["cfiDirectives"].data = {
        gtirb.Offset(bf1, 0): [d(".cfi_startproc"), d(".cfi_def_cfa", 7, 8)],
        gtirb.Offset(bf2, 1): [d(".cfi_endproc")],
        gtirb.Offset(bg, 0): [
            d(".cfi_startproc"),
            d(".cfi_lsda", 27, sym=lsda),
            d(".cfi_personality", 155, sym=pers),
            d(".cfi_def_cfa", 7, 8),
            d(".cfi_offset", 16, -8),
        ],
        gtirb.Offset(bg, 1): [d(".cfi_def_cfa_offset", 16)],
        gtirb.Offset(bg, 5): [d(".cfi_def_cfa_offset", 8)],
        gtirb.Offset(bg, 6): [d(".cfi_endproc")],
    }
    return m, bf2, bg


def listing(m):
    """address ordered list of the CFI directives of .text"""
    cfi = m.aux_data["cfiDirectives"].data
    out = []
    text = next(s for s in m.sections if s.name == ".text")
    for b in sorted(text.byte_blocks, key=lambda b: (b.address, b.size != 0)):
        entries = sorted(
            (o.displacement, d) for o, d in cfi.items() if o.element_id is b
        )
        for _, dirs in entries:
            for name, args, sym in dirs:
                s = sym.name if isinstance(sym, gtirb.Symbol) else ""
                out.append(
                    f"{name[5:]} {','.join(map(str, args))} {s}".strip()
                )
    return out


def evaluates(m):
    try:
        list(evaluate_cfi_directives(m, list(m.code_blocks)))
        return None
    except Exception as e:  # noqa
        return f"{type(e).__name__}: {e}"


def rewrite(m, ops):
    funcs = gtirb_functions.Function.build_functions(m)
    ctx = gtirb_rewriting.RewritingContext(m, funcs)
    for op in ops:
        op(ctx)
    ctx.apply()


G_REQUIRED = [
    "lsda 27 LSDA0",
    "personality 155 __gxx_personality_v0",
    "def_cfa 7,8",
    "offset 16,-8",
]


def run(title, steps):
    m, bf2, bg = build()
    assert evaluates(m) is None
    for step in steps:
        rewrite(m, step(bf2, bg))
    lst = listing(m)
    # g's procedure = everything from the last startproc on
    last = len(lst) - 1 - lst[::-1].index("startproc")
    g_part = lst[last:]
    missing = [r for r in G_REQUIRED if r not in g_part]
    err = evaluates(m)
    print(f"--- {title}")
    print("    CFI after      :", "; ".join(lst))
    print("    g must keep    :", "; ".join(G_REQUIRED))
    print("    g lost         :", "; ".join(missing) or "nothing")
    print("    evaluate_cfi   :", err or "ok")
    return bool(missing) or err is not None


def main():
    def del_f_tail(bf2, bg):
        return [lambda c: c.delete_at(bf2, 0, bf2.size)]

    def ret_to_jmp(bf2, bg):
        return [lambda c: c.replace_at(bf2, 0, 1, literal_patch("jmp handler"))]

    def del_g_push(bf2, bg):
        return [lambda c: c.delete_at(bg, 0, 1)]

    def rep_g_push(bf2, bg):
        return [lambda c: c.replace_at(bg, 0, 1, literal_patch("nop"))]

    def both(a, b):
        return lambda bf2, bg: a(bf2, bg) + b(bf2, bg)

    # controls: each operation on its own is handled correctly
    ok = True
    for title, steps in (
        ("control: delete_at(g, 0, 1) alone", [del_g_push]),
        ("control: delete f's last block alone", [del_f_tail]),
        ("control: replace f's ret by 'jmp handler' alone", [ret_to_jmp]),
    ):
        ok &= not run(title, steps)
    assert ok, "controls must pass"

    bad = False
    for title, steps in (
        (
            "one batch: delete f's last block + delete_at(g, 0, 1)",
            [both(del_f_tail, del_g_push)],
        ),
        (
            "one batch: f's ret -> 'jmp handler' + replace_at(g, 0, 1, 'nop')",
            [both(ret_to_jmp, rep_g_push)],
        ),
        (
            "two rewrites: delete f's last block ; then delete_at(g, 0, 1)",
            [del_f_tail, del_g_push],
        ),
        (
            "two rewrites: f's ret -> 'jmp handler' ; then replace_at(g, 0, 1)",
            [ret_to_jmp, rep_g_push],
        ),
    ):
        bad |= run(title, steps)

    print()
    if bad:
        print(
            "VIOLATION: deleting/replacing only g's first instruction dropped "
            "g's .cfi_lsda/.cfi_personality/.cfi_def_cfa/.cfi_offset; the "
            "module's CFI no longer evaluates"
        )
        return 1
    print("ok: g keeps its procedure-wide directives and initial CFA rule")
    return 0


if __name__ == "__main__":
    sys.exit(main())
