"""
C17 finding 2: CallPatch(sym) calls a *different function* when another symbol
in the module has the same name.

GTIRB symbols are objects; names need not be unique (two translation units
each with `static void helper(void)` give two local symbols "helper", and
ddisasm/gtirb-pprinter cope with that).  CallPatch receives the Symbol object
but emits `call <name>` / `bl <name>`, and Assembler._symbol_lookup resolves a
name with next(module.symbols_named(name)) - an arbitrary one of the
candidates.  Of two CallPatches aimed at the two same-named functions, both
end up calling the same one.  The same happens to Symbol *arguments* on ARM64
(adrp/add by name).

Run:  cd /repo && PYTHONPATH=/repo/src /venv/bin/python hunt2/2/demo.py
Exit status 1 = violation present, 0 = fixed.
"""
import sys

sys.path.insert(0, "/repo/tests")

import gtirb
import gtirb_rewriting
from gtirb_rewriting.patches import CallPatch
from gtirb_test_helpers import (
    add_code_block,
    add_data_block,
    add_data_section,
    add_symbol,
    add_text_section,
    create_test_module,
)
from helpers import add_function_object

TARGETS = [
    ("x86-64 ELF", gtirb.Module.ISA.X64, gtirb.Module.FileFormat.ELF),
    ("x86-64 PE", gtirb.Module.ISA.X64, gtirb.Module.FileFormat.PE),
    ("IA32 PE", gtirb.Module.ISA.IA32, gtirb.Module.FileFormat.PE),
    ("ARM64 ELF", gtirb.Module.ISA.ARM64, gtirb.Module.FileFormat.ELF),
]


def run(name, isa, ff):
    arm = isa == gtirb.Module.ISA.ARM64
    nop = b"\x1f\x20\x03\xd5" if arm else b"\x90"
    ret = b"\xc0\x03\x5f\xd6" if arm else b"\xc3"

    _, m = create_test_module(ff, isa)
    _, bi = add_text_section(m, address=0x1000)
    # two call sites, each in its own function
    site_a = add_code_block(bi, nop + ret)
    func_a = add_function_object(m, "site_a", site_a)
    site_b = add_code_block(bi, nop + ret)
    func_b = add_function_object(m, "site_b", site_b)
    # a.c: static void helper(void) {}     b.c: static void helper(void) {}
    helper_a_block = add_code_block(bi, ret)
    helper_a = add_symbol(m, "helper", helper_a_block)
    helper_b_block = add_code_block(bi, ret)
    helper_b = add_symbol(m, "helper", helper_b_block)
    # two same-named data objects, for the argument half (ARM64 only; on x86
    # symbol arguments are a known, separate problem)
    _, dbi = add_data_section(m, address=0x4000)
    counter_a = add_symbol(m, "counter", add_data_block(dbi, b"\0" * 8))
    counter_b = add_symbol(m, "counter", add_data_block(dbi, b"\0" * 8))

    quiet = dict(
        align_stack=False,
        clobbers_flags=False,
        preserve_caller_saved_registers=False,
    )
    ctx = gtirb_rewriting.RewritingContext(m, [func_a, func_b])
    ctx.insert_at(
        site_a, 0, CallPatch(helper_a, [counter_a] if arm else [], **quiet)
    )
    ctx.insert_at(
        site_b, 0, CallPatch(helper_b, [counter_b] if arm else [], **quiet)
    )
    ctx.apply()

    # Collect, per call site, the symbol objects referenced by the inserted
    # code.  The inserted code precedes the original nop of each site.
    exprs = sorted(bi.symbolic_expressions.items())
    site_b_start = min(
        s.referent.offset for s in m.symbols if s.name == "site_b"
    )
    got = {"a": [], "b": []}
    for off, e in exprs:
        got["a" if off < site_b_start else "b"].append(e.symbol)

    bad = False
    for site, callee, counter in (
        ("a", helper_a, counter_a),
        ("b", helper_b, counter_b),
    ):
        callee_ref = [s for s in got[site] if s.name == "helper"]
        ok = all(s is callee for s in callee_ref) and callee_ref
        print(
            f"  [{name}] site_{site}: CallPatch(helper_{site}) -> call "
            f"references helper_{'a' if callee_ref[0] is helper_a else 'b'}"
            f"   required helper_{site}   {'ok' if ok else 'WRONG CALLEE'}"
        )
        bad |= not ok
        if arm:
            arg_ref = [s for s in got[site] if s.name == "counter"]
            ok = all(s is counter for s in arg_ref) and arg_ref
            print(
                f"  [{name}] site_{site}: argument counter_{site} -> adrp/add "
                f"reference counter_"
                f"{'a' if arg_ref[0] is counter_a else 'b'}"
                f"   required counter_{site}   "
                f"{'ok' if ok else 'WRONG ADDRESS'}"
            )
            bad |= not ok
    return bad


def main():
    bad = False
    for t in TARGETS:
        bad |= run(*t)
    if bad:
        print(
            "VIOLATION: a CallPatch aimed at one of two same-named symbols "
            "calls / passes the other one"
        )
        return 1
    print("OK")
    return 0


if __name__ == "__main__":
    sys.exit(main())
