#!/usr/bin/env python
"""
C01 finding 3: the outcome depends on registration order.  An insertion whose
offset is the *start* of a range that is deleted/replaced by another request
is accepted when the insertion is registered first, but is rejected as
"modifications overlap" when it is registered second - although the two
requests do not overlap and describe the same edit of the listing.

Run:  cd /repo && PYTHONPATH=/repo/src /venv/bin/python hunt/3/demo.py
Exit status 1 = violation present, 0 = fixed.
"""
import sys
import traceback

sys.path.insert(0, "/repo/tests")

import gtirb
from gtirb_test_helpers import (
    add_code_block,
    add_edge,
    add_proxy_block,
    add_text_section,
    create_test_module,
)
from helpers import add_function_object, literal_patch

import gtirb_rewriting
from gtirb_rewriting import AllBlocksScope, BlockPosition

NOP = b"\x90"
MOV = b"\xb0\x01"  # movb $1, %al


def run(name, register, expected):
    ir, m = create_test_module(
        gtirb.Module.FileFormat.ELF, gtirb.Module.ISA.X64
    )
    _, bi = add_text_section(m, address=0x1000)
    b = add_code_block(bi, b"\x50\x51\x52\x53\xc3")  # 4 pushes, ret
    add_edge(ir.cfg, b, add_proxy_block(m), gtirb.Edge.Type.Return)
    func = add_function_object(m, "f", b)

    ctx = gtirb_rewriting.RewritingContext(m, [func])
    register(ctx, b)
    print(name)
    print("  property requires :", expected.hex(" "))
    try:
        ctx.apply()
    except Exception as exc:  # noqa: BLE001
        frame = traceback.extract_tb(exc.__traceback__)[-1]
        print(
            "  observed          : %s(%s) at %s:%d"
            % (
                type(exc).__name__,
                exc,
                frame.filename.split("/")[-1],
                frame.lineno,
            )
        )
        return False
    got = bytes(bi.contents)
    print("  observed          :", got.hex(" "))
    return got == expected


def main():
    nop = lambda: literal_patch("nop")  # noqa: E731
    mov = lambda: literal_patch("movb $1, %al")  # noqa: E731
    res = []

    # 1. insertion point == start of a deleted range.  Listing view: remove
    #    "push rcx", put a nop in front of where it was -> 50 90 52 53 c3, no
    #    matter which request is registered first.
    exp = b"\x50" + NOP + b"\x52\x53\xc3"
    res.append(
        run(
            "insert_at(b,1,nop); delete_at(b,1,1)",
            lambda c, b: (c.insert_at(b, 1, nop()), c.delete_at(b, 1, 1)),
            exp,
        )
    )
    res.append(
        run(
            "delete_at(b,1,1); insert_at(b,1,nop)        [same set, other order]",
            lambda c, b: (c.delete_at(b, 1, 1), c.insert_at(b, 1, nop())),
            exp,
        )
    )

    # 2. the same with a scope based insertion: instrument every block entry
    #    and delete the first instruction of b.
    exp = NOP + b"\x51\x52\x53\xc3"
    res.append(
        run(
            "register_insert(AllBlocksScope(ENTRY),nop); delete_at(b,0,1)",
            lambda c, b: (
                c.register_insert(AllBlocksScope(BlockPosition.ENTRY), nop()),
                c.delete_at(b, 0, 1),
            ),
            exp,
        )
    )
    res.append(
        run(
            "delete_at(b,0,1); register_insert(AllBlocksScope(ENTRY),nop)"
            "  [same set, other order]",
            lambda c, b: (
                c.delete_at(b, 0, 1),
                c.register_insert(AllBlocksScope(BlockPosition.ENTRY), nop()),
            ),
            exp,
        )
    )

    # 3. replacement + insertion at the same offset: both patches "target the
    #    same offset", so they have to appear in registration order.
    res.append(
        run(
            "insert_at(b,1,nop); replace_at(b,1,1,mov)",
            lambda c, b: (
                c.insert_at(b, 1, nop()),
                c.replace_at(b, 1, 1, mov()),
            ),
            b"\x50" + NOP + MOV + b"\x52\x53\xc3",
        )
    )
    res.append(
        run(
            "replace_at(b,1,1,mov); insert_at(b,1,nop)   [other order]",
            lambda c, b: (
                c.replace_at(b, 1, 1, mov()),
                c.insert_at(b, 1, nop()),
            ),
            b"\x50" + MOV + NOP + b"\x52\x53\xc3",
        )
    )

    if all(res):
        print("all registration orders produce the bytes the property requires")
        return 0
    print(
        "VIOLATION: %d of %d registration orders are rejected/wrong"
        % (res.count(False), len(res))
    )
    return 1


if __name__ == "__main__":
    sys.exit(main())
