"""
C16 finding 3: align_stack=True together with reads_registers={"rax"}
(x86-64 ELF/PE; "eax" on IA32).  The align_stack prologue uses rax as its own
scratch register (`movq %rsp,%rax ... pushq %rax ; pushq %rax`) and leaves the
OLD STACK POINTER in rax while the patch body runs.  A register that the patch
declared in reads_registers is thus used as a scratch register by the generated
code, and the body reads the stack pointer instead of the incoming rax.

    cd /repo && PYTHONPATH=/repo/src /venv/bin/python hunt/3/demo.py

exit status 1 == violation present.
"""
import ctypes
import mmap
import platform
import sys

import capstone
import gtirb
from gtirb_test_helpers import (
    add_code_block,
    add_text_section,
    create_test_module,
)

sys.path.insert(0, "/repo/tests")
from helpers import add_function_object  # noqa: E402

import gtirb_rewriting  # noqa: E402
from gtirb_rewriting import Constraints  # noqa: E402

SEEN = ctypes.c_uint64(0)  # the patch body logs the incoming rax here
SEEN_ADDR = ctypes.addressof(SEEN)

# f:  mov $0x1234,%eax ; <-- patch --> ; ret
ORIG = bytes.fromhex("b834120000" "c3")
INSERT_AT = 5


def rewrite(fmt, align_stack):
    _, m = create_test_module(fmt, gtirb.Module.ISA.X64)
    _, bi = add_text_section(m, address=0x1000)
    b = add_code_block(bi, ORIG)
    func = add_function_object(m, "f", b)
    ctx = gtirb_rewriting.RewritingContext(m, [func])

    # "log the value the preceding instruction left in rax"
    @gtirb_rewriting.patch_constraints(
        reads_registers={"rax"},
        scratch_registers=1,
        align_stack=align_stack,
    )
    def patch(ctx):
        (tmp,) = ctx.scratch_registers
        assert tmp.name != "rax", "scratch register must not be rax"
        return f"""
            movabsq ${SEEN_ADDR}, %{tmp}
            movq %rax, (%{tmp})
        """

    ctx.insert_at(b, INSERT_AT, gtirb_rewriting.Patch.from_function(patch))
    ctx.apply()
    return bytes(bi.contents)


def rax_at_body(code):
    """
    Independent oracle: tiny symbolic execution of the straight-line listing
    up to the first instruction of the body (the `movabs`).  Registers start as
    the symbol "<name>0"; stack addresses are (base, offset) pairs, where the
    base changes when rsp is and-ed.  Returns what rax holds at the body.
    """
    X86_OP_REG = capstone.x86.X86_OP_REG
    X86_OP_IMM = capstone.x86.X86_OP_IMM
    X86_OP_MEM = capstone.x86.X86_OP_MEM
    md = capstone.Cs(capstone.CS_ARCH_X86, capstone.CS_MODE_64)
    md.detail = True
    insns = list(md.disasm(code, 0))
    listing = [f"{i.mnemonic} {i.op_str}".strip() for i in insns]
    regs = {"rsp": ("rsp0", 0)}
    mem = {}

    def get(r):
        return regs.get(r, r + "0")

    def push(v):
        base, off = regs["rsp"]
        regs["rsp"] = (base, off - 8)
        mem[regs["rsp"]] = v

    for insn in insns:
        ops = insn.operands
        m = insn.mnemonic
        if m == "movabs":
            v = get("rax")
            return listing, v if isinstance(v, str) else f"address {v[0]}{v[1]:+d}"
        if m == "push":
            push(get(insn.reg_name(ops[0].reg)))
        elif m == "pushfq":
            push("flags0")
        elif m == "mov" and ops[1].type == X86_OP_IMM:
            assert insn.reg_name(ops[0].reg) == "eax"
            regs["rax"] = "incoming-rax(0x1234)"
        elif m == "mov" and ops[1].type == X86_OP_REG:
            regs[insn.reg_name(ops[0].reg)] = get(insn.reg_name(ops[1].reg))
        elif m == "mov" and ops[1].type == X86_OP_MEM:
            b = get(insn.reg_name(ops[1].mem.base))
            addr = (b[0], b[1] + ops[1].mem.disp) if isinstance(b, tuple) else None
            regs[insn.reg_name(ops[0].reg)] = mem.get(addr, "unknown")
        elif m == "lea":
            b = get(insn.reg_name(ops[1].mem.base))
            regs[insn.reg_name(ops[0].reg)] = (b[0], b[1] + ops[1].mem.disp)
        elif m == "and":
            assert insn.reg_name(ops[0].reg) == "rsp"
            regs["rsp"] = ("aligned", 0)
        else:
            raise AssertionError(f"unexpected instruction {m}")
    raise AssertionError("body not found")


def run_native(code):
    if platform.machine() not in ("x86_64", "AMD64"):
        return None, None
    buf = mmap.mmap(
        -1, 4096, prot=mmap.PROT_READ | mmap.PROT_WRITE | mmap.PROT_EXEC
    )
    buf.write(code)
    addr = ctypes.addressof(ctypes.c_char.from_buffer(buf))
    SEEN.value = 0
    ret = ctypes.CFUNCTYPE(ctypes.c_uint64)(addr)()
    return ret, SEEN.value


def main():
    rc = 0
    for name, fmt in (
        ("x86-64 ELF", gtirb.Module.FileFormat.ELF),
        ("x86-64 PE", gtirb.Module.FileFormat.PE),
    ):
        for align in (False, True):
            code = rewrite(fmt, align)
            listing, at_body = rax_at_body(code)
            ret, seen = run_native(code)
            print(f"== {name}: reads_registers={{'rax'}}, scratch_registers=1,"
                  f" align_stack={align}")
            print("   " + "; ".join(listing))
            print(f"   symbolic value of rax when the body starts: {at_body}")
            if seen is not None:
                print(f"   native run: body observed rax = {seen:#x}, "
                      f"f() returned {ret:#x}")
            bad = at_body != "incoming-rax(0x1234)" or seen not in (None, 0x1234)
            if align:
                print("   required: rax is a read-register, so the generated "
                      "code must not use it as a scratch register; the body "
                      "must see the incoming value 0x1234")
                print(f"   VIOLATION: {bad}")
                rc |= int(bad)
            else:
                assert not bad, "control (align_stack=False) failed"
    return rc


if __name__ == "__main__":
    sys.exit(main())
