"""
C07 finding 3: on MIPS32 (a supported ABI), BlockPosition.EXIT does not place
the patch immediately before the block's terminator: it places it *after* the
jump, in front of the delay-slot instruction.  The first patch instruction then
executes in the delay slot and the rest of the patch is dead code.

Exit status: 1 = violation present, 0 = fixed.
"""
import sys

import gtirb
import gtirb_functions
from gtirb_capstone.instructions import GtirbInstructionDecoder
from gtirb_test_helpers import (
    add_code_block,
    add_edge,
    add_function,
    add_proxy_block,
    add_text_section,
    create_test_module,
)

from gtirb_rewriting import (
    AllFunctionsScope,
    BlockPosition,
    FunctionPosition,
    Patch,
    RewritingContext,
    patch_constraints,
)

ir, m = create_test_module(
    gtirb.Module.FileFormat.ELF,
    gtirb.Module.ISA.MIPS32,
    byte_order=gtirb.Module.ByteOrder.Big,
)
_, bi = add_text_section(m, address=0x1000)
# f:  addiu $v0, $zero, 1
#     jr    $ra              <- the block's terminator (Return edge)
#     nop                    <- its delay slot, part of the same block
blk = add_code_block(bi, bytes.fromhex("24020001" "03e00008" "00000000"))
add_edge(ir.cfg, blk, add_proxy_block(m), gtirb.Edge.Type.Return)
add_function(m, "f", blk)

seen = []


@patch_constraints()
def patch(ctx):
    seen.append(ctx.offset)
    return "addiu $v1, $zero, 7\naddiu $a0, $zero, 9"


ctx = RewritingContext(m, gtirb_functions.Function.build_functions(m))
ctx.register_insert(
    AllFunctionsScope(FunctionPosition.EXIT, BlockPosition.EXIT),
    Patch.from_function(patch),
)
ctx.apply()

insns = [
    f"{i.mnemonic} {i.op_str}".strip()
    for b in sorted(bi.blocks, key=lambda b: b.offset)
    for i in GtirbInstructionDecoder(m.isa).get_instructions(b)
]
print("offset handed to the patch:", seen)
print("block after the rewrite:")
for t in insns:
    print("    ", t)

jr = insns.index("jr $ra")
p1 = insns.index("addiu $v1, $zero, 7")
p2 = insns.index("addiu $a0, $zero, 9")
print()
print("property requires: EXIT = immediately before the terminator `jr $ra`,")
print("i.e. offset 4:  addiu $v0 ; <patch> ; jr $ra ; nop")
if seen == [4] and p1 < p2 < jr and p2 + 1 == jr:
    print("OK")
    sys.exit(0)
print(
    f"VIOLATION: patch placed at offset {seen[0]}, after the terminator "
    "(inside its delay slot)"
)
sys.exit(1)
