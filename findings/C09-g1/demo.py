#!/usr/bin/env python
"""
C09 demo 1: temporary-label suffixes are only unique inside one
RewritingContext, so "one patch per context" fails where the batch succeeds.

Module: two one-instruction code blocks b1, b2 in function f.
Modification set: insert the same patch (the example from
doc/Getting-Started.md, "Labels") at b1+0 and at b2+0.

Required (C09): one apply() with both insertions and two apply()s with one
insertion each give the same module up to UUIDs and temporary-label suffixes.
Observed: the batch works (.Lmy_label_1, .Lmy_label_2); one-at-a-time raises
MultipleDefinitionsError(".Lmy_label_1 defined multiple times") in the second
context.  A second variant shows the same for a patch that has no label of its
own at all (".long f - ." makes LLVM create .Ltmp0).

Exit status: 1 if the violation is present, 0 otherwise.
"""
import io
import re
import sys

import gtirb
import gtirb_functions
from gtirb_test_helpers import (
    add_code_block,
    add_data_block,
    add_data_section,
    add_edge,
    add_function,
    add_proxy_block,
    add_symbol,
    add_text_section,
    create_test_module,
    set_all_blocks_alignment,
)

import gtirb_rewriting
from gtirb_rewriting import Patch, patch_constraints


def build():
    ir, m = create_test_module(
        gtirb.Module.FileFormat.ELF, gtirb.Module.ISA.X64
    )
    _, bi = add_text_section(m, address=0x1000)
    b1 = add_code_block(bi, b"\x90")  # nop
    b2 = add_code_block(bi, b"\xc3")  # ret
    add_edge(ir.cfg, b1, b2, gtirb.Edge.Type.Fallthrough)
    add_edge(ir.cfg, b2, add_proxy_block(m), gtirb.Edge.Type.Return)
    add_function(m, "f", b1, {b2})
    _, dbi = add_data_section(m, address=0x2000)
    d1 = add_data_block(dbi, b"\x01\x02\x03\x04")
    d2 = add_data_block(dbi, b"\x05\x06\x07\x08")
    add_symbol(m, "d1", d1)
    add_symbol(m, "d2", d2)
    set_all_blocks_alignment(m, 1)
    return ir, m, {"b1": b1, "b2": b2, "d1": d1, "d2": d2}


@patch_constraints()
def label_patch(ctx):
    # verbatim from doc/Getting-Started.md, section "Labels"
    return """
        jmp .Lmy_label
        .Lmy_label:
        nop
    """


@patch_constraints()
def dot_patch(ctx):
    # no label written by the user; "." makes the assembler create .Ltmp0
    return ".long f - ."


def functions(m):
    return gtirb_functions.Function.build_functions(m)


def summary(m):
    """Module facts with the temporary-label suffix masked."""

    def name(s):
        return re.sub(r"^(\.L.*)_\d+$", r"\1_#", s.name)

    text = [
        (bi.contents.hex(), sorted((b.offset, b.size) for b in bi.blocks))
        for s in sorted(m.sections, key=lambda s: s.name)
        for bi in sorted(s.byte_intervals, key=lambda b: b.address or 0)
    ]
    syms = sorted(
        (name(s), s.referent.address if s.referent is not None and hasattr(s.referent, "address") else None)
        for s in m.symbols
    )
    return text, syms


def run(patch, where):
    # batch
    ir, m, n = build()
    ctx = gtirb_rewriting.RewritingContext(m, functions(m))
    for w in where:
        ctx.insert_at(n[w], 0, Patch.from_function(patch))
    ctx.apply()
    batch = summary(m)
    batch_names = sorted(s.name for s in m.symbols if s.name.startswith(".L"))

    # one at a time, each in its own context, in address order
    ir, m, n = build()
    seq_error = None
    try:
        for w in where:
            ctx = gtirb_rewriting.RewritingContext(m, functions(m))
            ctx.insert_at(n[w], 0, Patch.from_function(patch))
            ctx.apply()
    except Exception as e:  # noqa: BLE001
        seq_error = e
    seq = None if seq_error else summary(m)
    return batch, batch_names, seq, seq_error


def main():
    bad = False
    for title, patch, where in (
        ("documented .Lmy_label patch at b1+0 and b2+0", label_patch, ["b1", "b2"]),
        ("'.long f - .' inserted at d1+0 and d2+0", dot_patch, ["d1", "d2"]),
    ):
        batch, names, seq, err = run(patch, where)
        print(f"== {title}")
        print("  batch        : ok, temporary symbols", names)
        if err is not None:
            print(f"  one at a time: raised {type(err).__name__}: {err}")
            print("  required     : same module as the batch (up to the suffix)")
            bad = True
        elif seq != batch:
            print("  one at a time: different module")
            print("    batch:", batch)
            print("    seq  :", seq)
            bad = True
        else:
            print("  one at a time: ok, same module")
    print("VIOLATION PRESENT" if bad else "no violation")
    return 1 if bad else 0


if __name__ == "__main__":
    sys.exit(main())
