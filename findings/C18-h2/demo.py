"""
C18 finding 2: direct branches/calls that capstone does not put in
CS_GRP_JUMP / CS_GRP_CALL (x86 loop/loope/loopne, MIPS jal/bal) are classified
as CODE_REF, so their CFG edge is not retargeted, the wrong attribute rule is
applied, and retargeting them into data is not refused.

    b1: loop A        (E2 rel8, Branch edge b1 -> a, Fallthrough b1 -> b2)
    b2: ret
    a:  ret   (A)
    b:  ret   (B)
    d:  .quad 0 (D, data)           E: external (proxy)

The same module with `jne A` instead of `loop A` is used as a control.

Run:  cd /repo && PYTHONPATH=/repo/src /venv/bin/python hunt/2/demo.py
Exit status 1 = violation present, 0 = fixed.
"""
import struct
import sys

import gtirb
from gtirb_capstone.instructions import GtirbInstructionDecoder
from gtirb_test_helpers import (
    add_code_block,
    add_data_block,
    add_data_section,
    add_edge,
    add_proxy_block,
    add_symbol,
    add_text_section,
    create_test_module,
)

from gtirb_rewriting._modify import AmbiguousIRError, retarget_symbol_uses

Attr = gtirb.SymbolicExpression.Attribute


def build_x64(insn):
    ir, m = create_test_module(
        gtirb.Module.FileFormat.ELF, gtirb.Module.ISA.X64, binary_type=["DYN"]
    )
    _, bi = add_text_section(m, address=0x1000)
    A = add_symbol(m, "A")
    B = add_symbol(m, "B")
    if insn == "loop":
        b1 = add_code_block(bi, b"\xE2\x00", {(1, 1): gtirb.SymAddrConst(0, A)})
    else:  # jne rel32
        b1 = add_code_block(
            bi, b"\x0F\x85\x00\x00\x00\x00", {(2, 4): gtirb.SymAddrConst(0, A)}
        )
    b2 = add_code_block(bi, b"\xC3")
    a = add_code_block(bi, b"\xC3")
    b = add_code_block(bi, b"\xC3")
    A.referent = a
    B.referent = b
    _, dbi = add_data_section(m, address=0x4000)
    D = add_symbol(m, "D", add_data_block(dbi, b"\0" * 8))
    E = add_symbol(m, "E", add_proxy_block(m))
    add_edge(ir.cfg, b1, b2, gtirb.EdgeType.Fallthrough)
    add_edge(ir.cfg, b1, a, gtirb.EdgeType.Branch, conditional=True)
    return ir, m, bi, dict(A=A, B=B, D=D, E=E), b1


def build_mips():
    ir, m = create_test_module(
        gtirb.Module.FileFormat.ELF, gtirb.Module.ISA.MIPS32
    )
    m.byte_order = gtirb.Module.ByteOrder.Big
    _, bi = add_text_section(m, address=0x1000)
    A = add_symbol(m, "A")
    B = add_symbol(m, "B")
    w = lambda x: struct.pack(">I", x)  # noqa: E731
    # jal A ; nop (delay slot)
    b1 = add_code_block(
        bi, w(0x0C000000) + w(0), {(0, 4): gtirb.SymAddrConst(0, A)}
    )
    b2 = add_code_block(bi, w(0x03E00008) + w(0))  # jr $ra ; nop
    a = add_code_block(bi, w(0x03E00008) + w(0))
    b = add_code_block(bi, w(0x03E00008) + w(0))
    A.referent = a
    B.referent = b
    add_edge(ir.cfg, b1, b2, gtirb.EdgeType.Fallthrough)
    add_edge(ir.cfg, b1, a, gtirb.EdgeType.Call)
    return ir, m, bi, dict(A=A, B=B), b1


def targets(b1, types):
    return {
        e.target for e in b1.outgoing_edges if e.label.type in types
    }


CF = (gtirb.EdgeType.Branch, gtirb.EdgeType.Call)
bad = []


def check(label, cond, observed, required):
    print(f"   {label}: observed {observed}; required {required}")
    if not cond:
        bad.append(label)


for insn in ("jne", "loop"):
    print(f"== x86-64 ELF PIE, b1: {insn} A")

    # 1. internal -> internal: the branch edge must move
    ir, m, bi, s, b1 = build_x64(insn)
    retarget_symbol_uses(m, {s["A"]: s["B"]}, GtirbInstructionDecoder(m.isa))
    (expr,) = bi.symbolic_expressions.values()
    t = targets(b1, CF)
    check(
        f"[{insn}] A->B operand/edge",
        expr.symbol is s["B"] and t == {s["B"].referent},
        f"operand={expr.symbol.name}, branch edge -> "
        + ("B's block" if t == {s["B"].referent} else "A's block" if t == {s["A"].referent} else str(t)),
        "operand=B, branch edge -> B's block",
    )

    # 2. internal -> external in a PIE: control-flow rule gives {PLT}
    ir, m, bi, s, b1 = build_x64(insn)
    retarget_symbol_uses(m, {s["A"]: s["E"]}, GtirbInstructionDecoder(m.isa))
    (expr,) = bi.symbolic_expressions.values()
    t = targets(b1, CF)
    check(
        f"[{insn}] A->E(external) attributes/edge",
        expr.attributes == {Attr.PLT} and t == {s["E"].referent},
        f"attrs={sorted(a.name for a in expr.attributes)}, edge -> "
        + ("E's proxy" if t == {s["E"].referent} else "A's block"),
        "attrs=['PLT'] (control-flow rule), edge -> E's proxy",
    )

    # 3. control flow into data must be refused
    ir, m, bi, s, b1 = build_x64(insn)
    try:
        retarget_symbol_uses(
            m, {s["A"]: s["D"]}, GtirbInstructionDecoder(m.isa)
        )
        refused = False
    except AmbiguousIRError:
        refused = True
    check(
        f"[{insn}] A->D(data) refused",
        refused,
        "AmbiguousIRError" if refused else "silently accepted",
        "AmbiguousIRError",
    )

print("== MIPS32 ELF, b1: jal A")
ir, m, bi, s, b1 = build_mips()
retarget_symbol_uses(m, {s["A"]: s["B"]}, GtirbInstructionDecoder(m.isa))
(expr,) = bi.symbolic_expressions.values()
t = targets(b1, CF)
check(
    "[jal] A->B operand/edge",
    expr.symbol is s["B"] and t == {s["B"].referent},
    f"operand={expr.symbol.name}, call edge -> "
    + ("B's block" if t == {s["B"].referent} else "A's block"),
    "operand=B, call edge -> B's block",
)

if bad:
    print("VIOLATION:", ", ".join(bad))
    sys.exit(1)
print("ok")
sys.exit(0)
