"""
C01 hunt2 finding 1: a patch that ends in a label which is the target of one
of its own jumps cannot be inserted at the end of a code block that has no
code block after it (end of the section, or a data block follows):
edit.py:_cleanup_modified_blocks dies on its final bare assertion.

Run: cd /repo && PYTHONPATH=/repo/src /venv/bin/python hunt2/1/demo.py
Exit status 1 = violation present, 0 = fixed.
"""
import logging
import sys
import traceback

import gtirb
import gtirb_functions
from gtirb_test_helpers import (
    add_code_block,
    add_edge,
    add_function,
    add_proxy_block,
    add_text_section,
    create_test_module,
)

import gtirb_rewriting
from gtirb_rewriting import (
    AllBlocksScope,
    BlockPosition,
    Patch,
    RewritingContext,
    patch_constraints,
)

logging.disable(logging.CRITICAL)


def lit(asm):
    @patch_constraints()
    def f(ctx):
        return asm

    return Patch.from_function(f)


def build():
    ir, m = create_test_module(
        gtirb.Module.FileFormat.ELF, gtirb.Module.ISA.X64
    )
    _, bi = add_text_section(m, 0x1000)
    # f:  xor %eax,%eax ; ret
    b1 = add_code_block(bi, b"\x31\xc0\xc3")
    # two bytes of nop padding that end .text (no outgoing edges)
    b2 = add_code_block(bi, b"\x90\x90")
    add_edge(ir.cfg, b1, add_proxy_block(m), gtirb.Edge.Type.Return)
    add_function(m, "f", b1)
    return ir, m, bi, b1, b2


def run(asm, how):
    ir, m, bi, b1, b2 = build()
    ctx = RewritingContext(m, gtirb_functions.Function.build_functions(m))
    if how == "scope":
        # instrument the exit of every basic block
        ctx.register_insert(AllBlocksScope(BlockPosition.EXIT), lit(asm))
    else:
        ctx.insert_at(b2, b2.size, lit(asm))
    try:
        ctx.apply()
    except Exception as e:  # noqa: BLE001
        tb = traceback.extract_tb(sys.exc_info()[2])[-1]
        return "%s(%s) at %s:%s:%d" % (
            type(e).__name__,
            e,
            tb.filename.split("/src/")[-1],
            tb.name,
            tb.lineno,
        )
    return bytes(bi.contents).hex()


# jne .Lskip assembles to 75 00 (the rel8 is a symbolic expression, the
# stored displacement is 0), nop to 90.
PATCH = "jne .Lskip\nnop\n.Lskip:"
P = "750090"
CONTROL = "jne .Lskip\nnop\n.Lskip:\nnop"
PC = "75009090"

fail = False
for name, how, asm, want in [
    # control: same patch with an instruction after the label
    ("control, AllBlocksScope(EXIT)", "scope", CONTROL,
     "31c0" + PC + "c3" + "9090" + PC),
    ("AllBlocksScope(EXIT), patch ends in its skip label", "scope", PATCH,
     "31c0" + P + "c3" + "9090" + P),
    ("insert_at(last_block, last_block.size)", "at", PATCH,
     "31c0c3" + "9090" + P),
]:
    got = run(asm, how)
    ok = got == want
    print("%s\n   required .text: %s\n   observed      : %s  %s"
          % (name, want, got, "ok" if ok else "<-- VIOLATION"))
    fail |= not ok

sys.exit(1 if fail else 0)
