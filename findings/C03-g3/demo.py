#!/usr/bin/env python
"""
C03 finding 3: when an edit makes a block grow and its fall-through successor
has an alignment requirement, the rewrite materialises the alignment padding as
a new CodeBlock of nops between the two blocks - but the CFG is not told: the
grown block still "falls through" straight to the aligned block, and the nop
block that is physically executed in between has no edges at all (and belongs
to no function).

    cd /repo && PYTHONPATH=/repo/src /venv/bin/python hunt2/3/demo.py

exits 1 while the violation is present, 0 once fixed.
"""
import logging
import sys

import gtirb
import gtirb_functions
from gtirb_test_helpers import (
    add_code_block,
    add_edge,
    add_function,
    add_proxy_block,
    add_text_section,
    create_test_module,
    set_all_blocks_alignment,
)

import gtirb_rewriting
from gtirb_rewriting import Patch, patch_constraints

logging.disable(logging.CRITICAL)
ET = gtirb.Edge.Type


def lit(asm):
    @patch_constraints()
    def p(ctx):
        return asm

    return Patch.from_function(p)


def name(node):
    if isinstance(node, gtirb.ProxyBlock):
        return "<proxy>"
    return "block@%#x(size %d)" % (node.address, node.size)


def main():
    """
    f:  0x1000  (push rax; pop rax) x 8      A, 16 bytes, falls through
        0x1010  .p2align 4
        0x1010  nop; ret                     B, aligned to 16 (e.g. loop head)
    """
    ir, m = create_test_module(
        gtirb.Module.FileFormat.ELF, gtirb.Module.ISA.X64
    )
    _, bi = add_text_section(m, address=0x1000)
    a = add_code_block(bi, b"\x50\x58" * 8)
    b = add_code_block(bi, b"\x90\xc3")
    add_function(m, "f", a, {b})
    add_edge(ir.cfg, a, b, ET.Fallthrough)
    add_edge(ir.cfg, b, add_proxy_block(m), ET.Return)
    set_all_blocks_alignment(m, 1)
    m.aux_data["alignment"].data[a] = 16
    m.aux_data["alignment"].data[b] = 16
    assert a.address == 0x1000 and b.address == 0x1010

    ctx = gtirb_rewriting.RewritingContext(
        m, gtirb_functions.Function.build_functions(m)
    )
    ctx.insert_at(a, 0, lit("nop"))
    ctx.apply()

    blocks = sorted(m.code_blocks, key=lambda x: x.address)
    func_blocks = set().union(*m.aux_data["functionBlocks"].data.values())
    print("insert_at(A, 0, 'nop'); code blocks after the rewrite:")
    for blk in blocks:
        print(
            "  %-22s bytes=%s%s  in function: %-5s edges: %s"
            % (
                name(blk),
                bytes(blk.contents)[:6].hex(),
                ".." if blk.size > 6 else "",
                blk in func_blocks,
                sorted(
                    "%s->%s" % (e.label.type.name, name(e.target))
                    for e in blk.outgoing_edges
                ),
            )
        )

    ok = True
    for i, blk in enumerate(blocks[:-1]):
        nxt = blocks[i + 1]
        if nxt.address != blk.address + blk.size:
            continue
        last = bytes(blk.contents)[-1]
        if last == 0xC3:
            continue  # ret
        # every block here but B ends in an ordinary instruction, so it has
        # to fall through to the physically next block
        fts = [
            e.target
            for e in blk.outgoing_edges
            if e.label.type == ET.Fallthrough
        ]
        good = fts == [nxt]
        ok &= good
        print(
            "  %s is followed by %s: Fallthrough -> %s : %s"
            % (
                name(blk),
                name(nxt),
                [name(t) for t in fts],
                "ok" if good else "VIOLATION",
            )
        )
    return ok


if __name__ == "__main__":
    sys.exit(0 if main() else 1)
