"""
C18 finding 1: retarget_symbol_uses moves the Call edge but leaves the Return
edges where they were.

    main:  b1: call A          A: a: ret          B: b: ret
           b2: ret

Before: b1 -Call-> a, b1 -Fallthrough-> b2, a -Return-> b2, b -Return-> <proxy>
Retarget A -> B.
Required by the property ("return edges follow the calls: B's function returns
to those call sites, A's no longer does"):
        b1 -Call-> b, b -Return-> b2, a no longer returns to b2.

Run:  cd /repo && PYTHONPATH=/repo/src /venv/bin/python hunt/1/demo.py
Exit status 1 = violation present, 0 = fixed.
"""
import sys

import gtirb
import gtirb_functions
from gtirb_capstone.instructions import GtirbInstructionDecoder
from gtirb_test_helpers import (
    add_code_block,
    add_edge,
    add_proxy_block,
    add_symbol,
    add_text_section,
    create_test_module,
)

from gtirb_rewriting import RewritingContext
from gtirb_rewriting._modify import retarget_symbol_uses

sys.path.insert(0, "/repo/tests")
from helpers import add_function_object  # noqa: E402


def build():
    ir, m = create_test_module(
        gtirb.Module.FileFormat.ELF, gtirb.Module.ISA.X64
    )
    _, bi = add_text_section(m, address=0x1000)
    A = add_symbol(m, "A")
    B = add_symbol(m, "B")
    b1 = add_code_block(
        bi, b"\xE8\x00\x00\x00\x00", {(1, 4): gtirb.SymAddrConst(0, A)}
    )
    b2 = add_code_block(bi, b"\xC3")
    a = add_code_block(bi, b"\xC3")
    b = add_code_block(bi, b"\xC3")
    A.referent = a
    B.referent = b
    main = add_symbol(m, "main", b1)
    add_edge(ir.cfg, b1, b2, gtirb.EdgeType.Fallthrough)
    add_edge(ir.cfg, b1, a, gtirb.EdgeType.Call)
    add_edge(ir.cfg, a, b2, gtirb.EdgeType.Return)  # A returns to the site
    add_edge(ir.cfg, b, add_proxy_block(m), gtirb.EdgeType.Return)
    add_edge(ir.cfg, b2, add_proxy_block(m), gtirb.EdgeType.Return)
    add_function_object(m, main, b1, {b2})
    add_function_object(m, A, a)
    add_function_object(m, B, b)
    return ir, m, A, B, {b1: "b1", b2: "b2", a: "a", b: "b"}


def show(ir, names):
    for e in sorted(
        ir.cfg, key=lambda e: (names.get(e.source, "~"), e.label.type.name)
    ):
        print(
            "   ",
            names.get(e.source, "<proxy>"),
            f"-{e.label.type.name}->",
            names.get(e.target, "<proxy>"),
        )


violations = 0
for api in ("RewritingContext.retarget_symbol_uses", "_modify.retarget_symbol_uses"):
    ir, m, A, B, names = build()
    blocks = {v: k for k, v in names.items()}
    if api.startswith("Rewriting"):
        ctx = RewritingContext(m, gtirb_functions.Function.build_functions(m))
        ctx.retarget_symbol_uses(A, B)
        ctx.apply()
    else:
        retarget_symbol_uses(m, {A: B}, GtirbInstructionDecoder(m.isa))

    print(f"== {api}: CFG after retargeting A -> B")
    show(ir, names)

    def has(src, dst, ty):
        return any(
            e.source is blocks[src]
            and e.target is blocks[dst]
            and e.label.type == ty
            for e in ir.cfg
        )

    call_moved = has("b1", "b", gtirb.EdgeType.Call) and not has(
        "b1", "a", gtirb.EdgeType.Call
    )
    stale = has("a", "b2", gtirb.EdgeType.Return)
    missing = not has("b", "b2", gtirb.EdgeType.Return)
    print("   call edge moved to B's block        :", call_moved, "(required: True)")
    print("   A's block still returns to call site:", stale, "(required: False)")
    print("   B's block returns to call site      :", not missing, "(required: True)")
    if not call_moved or stale or missing:
        violations += 1

if violations:
    print("VIOLATION: return edges did not follow the retargeted call")
    sys.exit(1)
print("ok")
sys.exit(0)
