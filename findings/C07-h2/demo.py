"""
C07 finding 2: with overlapping code blocks (ddisasm's usual rendering of
`je 1f; lock; 1: cmpxchg ...`, which intervalutils.split_byte_interval
explicitly supports), inserting into one block leaves the block that overlaps
the insertion point with a stale size.  The other block then ends in the middle
of the inserted instruction and has lost its terminator, so

  * SingleBlockScope(A, EXIT) damages block B, which the scope did not
    designate, and
  * AllBlocksScope(EXIT) patches A and then dies on B with "Capstone failed to
    disassemble all instructions in target block" - B never gets the patch.

Exit status: 1 = violation present, 0 = fixed.
"""
import sys

import gtirb
from gtirb_capstone.instructions import GtirbInstructionDecoder
from gtirb_test_helpers import (
    add_code_block,
    add_edge,
    add_proxy_block,
    add_symbol,
    add_text_section,
    create_test_module,
)

from gtirb_rewriting import (
    AllBlocksScope,
    BlockPosition,
    Patch,
    RewritingContext,
    SingleBlockScope,
    patch_constraints,
)

ET = gtirb.Edge.Type


def build():
    """
    A:  f0 0f b1 0a   lock cmpxchg %ecx, (%rdx)
        c3            ret
    B:  = A + 1       cmpxchg %ecx, (%rdx) ; ret      (entered by `je B`)
    """
    ir, m = create_test_module(
        gtirb.Module.FileFormat.ELF, gtirb.Module.ISA.X64
    )
    _, bi = add_text_section(m, address=0x1000)
    a = add_code_block(bi, bytes.fromhex("f00fb10a" "c3"))
    b = gtirb.CodeBlock(offset=1, size=4)
    b.byte_interval = bi
    add_symbol(m, "A", a)
    add_symbol(m, "B", b)
    proxy = add_proxy_block(m)
    add_edge(ir.cfg, a, proxy, ET.Return)
    add_edge(ir.cfg, b, proxy, ET.Return)
    return m, bi, a, b


def marker_patch(log):
    @patch_constraints()
    def p(ctx):
        log.append(ctx.block)
        return "movl $0xeeeeeeee, %ebx"

    return Patch.from_function(p)


def listing(m, block):
    insns = list(GtirbInstructionDecoder(m.isa).get_instructions(block))
    text = [f"{i.mnemonic} {i.op_str}".strip() for i in insns]
    complete = sum(i.size for i in insns) == block.size
    return text, complete


def stream(m, bi, sym_name):
    """Linear disassembly from a label up to and including the first ret."""
    from gtirb_capstone.capstone_compatibility import capstone

    sym = next(s for s in m.symbols if s.name == sym_name)
    blk = sym.referent
    md = capstone.Cs(capstone.CS_ARCH_X86, capstone.CS_MODE_64)
    out = []
    for i in md.disasm(bytes(bi.contents)[blk.offset :], 0):
        out.append(i.mnemonic.split()[0] if i.mnemonic != "lock cmpxchg" else "lock cmpxchg")
        if i.mnemonic == "ret":
            break
    return out


def report(m, bi, a, b):
    print("   bytes:", bytes(bi.contents).hex())
    state = {}
    for name, blk in (("A", a), ("B", b)):
        if blk.byte_interval is None:
            print(f"   {name}: removed from the IR")
            state[name] = ([], False)
            continue
        text, complete = listing(m, blk)
        state[name] = (text, complete)
        print(
            f"   {name}: offset {blk.offset} size {blk.size} "
            f"bytes {bytes(blk.contents).hex()} -> {text}"
            + ("" if complete else "   <-- INCOMPLETE DISASSEMBLY")
        )
    return state


bad = False

# --- (a) one insertion, into A only -----------------------------------------
print("--- (a) SingleBlockScope(A, EXIT)")
m, bi, a, b = build()
log = []
ctx = RewritingContext(m, [])
ctx.register_insert(SingleBlockScope(a, BlockPosition.EXIT), marker_patch(log))
ctx.apply()
st = report(m, bi, a, b)
print("   required: A = lock cmpxchg ; <patch> ; ret   and B, which was not")
print("             designated, is still a well-formed block (decodes completely)")
sa = stream(m, bi, "A")
print("   instructions from label A:", sa)
a_ok = st["A"][1] and sa == ["lock cmpxchg", "mov", "ret"]
b_ok = st["B"][1]
print(f"   A as required: {a_ok};  B still decodes completely: {b_ok}")
bad |= not (a_ok and b_ok)

# --- (b) every block ---------------------------------------------------------
print("--- (b) AllBlocksScope(EXIT)")
m, bi, a, b = build()
log = []
ctx = RewritingContext(m, [])
ctx.register_insert(AllBlocksScope(BlockPosition.EXIT), marker_patch(log))
try:
    ctx.apply()
    err = None
except Exception as e:  # noqa
    err = e
st = report(m, bi, a, b)
names = ["A" if x is a else "B" if x is b else "?" for x in log]
print("   patch invoked for blocks:", names)
print("   exception:", repr(err))
print("   required: the patch is applied exactly once in A and exactly once in B,")
print("             each time immediately before the block's ret; no exception")
ok_b = (
    err is None
    and sorted(names) == ["A", "B"]
    and all(st[n][1] for n in ("A", "B"))
    and all(
        "mov" in stream(m, bi, n)[:-1] and stream(m, bi, n)[-1] == "ret"
        for n in ("A", "B")
    )
)
print("   as required:", ok_b)
bad |= not ok_b

print()
if bad:
    print("VIOLATION: the block overlapping the insertion point keeps its old size")
    sys.exit(1)
print("OK")
sys.exit(0)
