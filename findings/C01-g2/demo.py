"""
C01 hunt2 finding 2: when an edit makes a byte interval grow into the next
one, the byte intervals of every multi-interval section come back in an
arbitrary order: the section's bytes are reordered.

Run: cd /repo && PYTHONPATH=/repo/src /venv/bin/python hunt2/2/demo.py
Exit status 1 = violation present, 0 = fixed.
"""
import logging
import sys

import gtirb
from gtirb_test_helpers import (
    add_data_block,
    add_data_section,
    create_test_module,
)

from gtirb_rewriting import RewritingContext

logging.disable(logging.CRITICAL)

N = 5  # byte intervals in .data
TRIALS = 10  # interval order depends on object identity; repeat


def chunk(k):
    return bytes(0x10 * k + j for j in range(4))


def section_bytes(sect):
    """The section image: its byte intervals in address order."""
    return b"".join(
        bytes(bi.contents)
        for bi in sorted(sect.byte_intervals, key=lambda bi: bi.address)
    )


def trial(stride):
    ir, m = create_test_module(
        gtirb.Module.FileFormat.ELF, gtirb.Module.ISA.X64
    )
    sect, bi0 = add_data_section(m, 0x2000)
    first = add_data_block(bi0, chunk(0))
    for k in range(1, N):
        bi = gtirb.ByteInterval(contents=b"", address=0x2000 + stride * k)
        bi.section = sect
        add_data_block(bi, chunk(k))
    before = section_bytes(sect)
    ctx = RewritingContext(m, [])
    ctx.insert_at(first, 4, b"\xaa")  # one byte at the end of block 0
    ctx.apply()
    return before, section_bytes(sect)


want = chunk(0) + b"\xaa" + b"".join(chunk(k) for k in range(1, N))
print("request : insert_at(first data block of .data, 4, b'\\xaa')")
print("required:", want.hex())

bad = 0
for name, stride in [
    ("control, 16 bytes between interval addresses (no overlap)", 16),
    ("intervals adjacent (0x2000, 0x2004, ...): interval 0 grows into 1", 4),
]:
    wrong = []
    for _ in range(TRIALS):
        before, after = trial(stride)
        assert before == b"".join(chunk(k) for k in range(N))
        if after != want:
            wrong.append(after)
    print("%s: %d of %d runs differ" % (name, len(wrong), TRIALS))
    for w in wrong[:3]:
        print("   observed:", w.hex(), " <-- VIOLATION (surviving bytes reordered)")
    bad += len(wrong)

sys.exit(1 if bad else 0)
