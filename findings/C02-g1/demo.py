"""
C02 finding 1: edit_byte_interval() moves a block that lies inside (or at the
start of) a deleted range backwards by the full deletion length.

Input: a data section  p: 01 | d: 11 12 13 14 | q: 21  and an ordinary GTIRB
symbol `mid` whose payload is the *address* d+2 (an integral symbol).
prepare_for_rewriting() (called by RewritingContext.apply) turns it into a
reference to a zero-sized block at d+2 via gtirb_layout.assign_integral_symbols,
so `mid` designates the position in front of byte 13.

Run:  cd /repo && PYTHONPATH=/repo/src /venv/bin/python hunt2/1/demo.py
Exit status 1 = violation present, 0 = fixed.
"""
import io
import sys

import gtirb
from gtirb_test_helpers import (
    add_data_block,
    add_data_section,
    add_symbol,
    create_test_module,
)

import gtirb_rewriting


def build():
    ir, m = create_test_module(
        gtirb.Module.FileFormat.ELF, gtirb.Module.ISA.X64
    )
    _, bi = add_data_section(m, 0x2000)
    p = add_data_block(bi, b"\x01")
    d = add_data_block(bi, b"\x11\x12\x13\x14")
    q = add_data_block(bi, b"\x21")
    add_symbol(m, "p", p)
    add_symbol(m, "d", d)
    add_symbol(m, "q", q)
    mid = gtirb.Symbol("mid", payload=0x2000 + 1 + 2, module=m)  # d+2
    return ir, m, bi, d, mid


def position(sym):
    """offset of the symbol in its byte interval (None if not on a block)"""
    ref = sym.referent
    if not isinstance(ref, gtirb.ByteBlock) or ref.byte_interval is None:
        return None
    return ref.offset + (ref.size if sym.at_end else 0)


# (offset, length) deleted from d, surviving bytes of the section, and the
# index in those bytes in front of which `mid` has to end up: the first
# surviving byte that followed it (13, or 14 if 13 is deleted, or 21).
CASES = [
    ((1, 2), b"\x01\x11\x14\x21", 2),  # 12 13 deleted -> mid in front of 14
    ((2, 1), b"\x01\x11\x12\x14\x21", 3),  # 13 deleted  -> mid in front of 14
    ((0, 3), b"\x01\x14\x21", 1),  # 11 12 13 deleted -> in front of 14
    ((0, 4), b"\x01\x21", 1),  # whole block      -> in front of 21
    ((1, 1), b"\x01\x11\x13\x14\x21", 2),  # control: 12 deleted, in front of 13
]

bad = 0
for (off, length), exp_bytes, exp_pos in CASES:
    ir, m, bi, d, mid = build()
    ctx = gtirb_rewriting.RewritingContext(m, [])
    ctx.delete_at(d, off, length)
    ctx.apply()
    got_bytes = bytes(bi.contents)
    got_pos = position(mid)
    try:
        ir.save_protobuf_file(io.BytesIO())
        ser = "ok"
    except Exception as e:  # noqa
        ser = "FAILS (%s: %s)" % (type(e).__name__, e)
    ok = got_bytes == exp_bytes and got_pos == exp_pos and ser == "ok"
    print(
        "delete_at(d, %d, %d): bytes %s (required %s); mid at offset %s "
        "(required %d); serialisation %s  -> %s"
        % (
            off,
            length,
            got_bytes.hex(),
            exp_bytes.hex(),
            got_pos,
            exp_pos,
            ser,
            "ok" if ok else "VIOLATION",
        )
    )
    if not ok:
        if got_pos is not None and 0 <= got_pos:
            before = got_bytes[:got_pos][-1:].hex() or "<start>"
            after = got_bytes[got_pos : got_pos + 1].hex() or "<end>"
            print(
                "    mid now sits between %s and %s; it has been moved back "
                "over bytes that were not touched" % (before, after)
            )
        bad += 1

print("%d of %d cases violate C02" % (bad, len(CASES)))
sys.exit(1 if bad else 0)
