#!/usr/bin/env python
"""
C05 finding 1: join_byte_intervals creates a padding block that overlaps an
existing block when the last block *by offset* is nested in an earlier one.

Run: cd /repo && PYTHONPATH=/repo/src /venv/bin/python hunt/1/demo.py
Exits 1 when the violation is present, 0 otherwise.
"""
import io
import sys

import gtirb
import gtirb_rewriting
from gtirb_test_helpers import (
    add_code_block,
    add_text_section,
    create_test_module,
)


def nop_patch():
    @gtirb_rewriting.patch_constraints()
    def patch(ctx):
        return "nop"

    return gtirb_rewriting.Patch.from_function(patch)


def build(with_nested_block: bool):
    ir, m = create_test_module(
        gtirb.Module.FileFormat.ELF, gtirb.Module.ISA.X64
    )
    _, bi = add_text_section(m, address=0x1000)
    p = add_code_block(bi, b"\x90" * 4)  # P  [0,4)   <- the only edit is here
    a = add_code_block(bi, b"\x90" * 8)  # A  [4,12)
    b = None
    if with_nested_block:
        # B [6,8) lies entirely inside A (overlapping blocks are explicitly
        # supported by split_byte_interval, see its docstring)
        b = gtirb.CodeBlock(offset=6, size=2)
        b.byte_interval = bi
    c = add_code_block(bi, b"\x90" * 4)  # C  [12,16), address 0x1010
    m.aux_data["alignment"] = gtirb.AuxData({c: 16}, "mapping<UUID,uint64_t>")
    return ir, m, bi, {"P": p, "A": a, "B": b, "C": c}


def run(with_nested_block: bool):
    ir, m, bi, named = build(with_nested_block)
    names = {blk.uuid: n for n, blk in named.items() if blk is not None}
    old = set(names)

    ctx = gtirb_rewriting.RewritingContext(m, [])
    ctx.insert_at(named["P"], 0, nop_patch())  # one nop in front of P
    ctx.apply()

    # the IR must still serialise
    buf = io.BytesIO()
    ir.save_protobuf_file(buf)

    blocks = sorted(bi.blocks, key=lambda x: (x.offset, x.size))
    print(f"  interval size {bi.size}")
    for blk in blocks:
        tag = names.get(blk.uuid, "new")
        print(f"    {tag:4} [{blk.offset:2},{blk.offset + blk.size:2})")

    overlaps = []
    for i, x in enumerate(blocks):
        for y in blocks[i + 1 :]:
            if not x.size or not y.size:
                continue
            if x.offset < y.offset + y.size and y.offset < x.offset + x.size:
                if x.uuid not in old or y.uuid not in old:
                    overlaps.append((x, y))
    for x, y in overlaps:
        print(
            "  OVERLAP involving a newly created block: "
            f"{names.get(x.uuid, 'new')} [{x.offset},{x.offset + x.size}) and "
            f"{names.get(y.uuid, 'new')} [{y.offset},{y.offset + y.size})"
        )
    return overlaps


print("control (no nested block): P[0,4) A[4,12) C[12,16) align 16; insert nop at P+0")
control = run(False)
print(
    "  expected: C has to move from 0x100d to 0x1010, so exactly 3 padding "
    "bytes [13,16) get their own new block"
)
print()
print("case: same, plus B[6,8) nested inside A")
bad = run(True)
print(
    "  property C05 requires: newly created blocks never overlap; the padding "
    "block must again be [13,16)"
)
print(
    "  observed: the padding block starts right after B (the block with the "
    "greatest *offset*), i.e. inside A"
)



# ---------------------------------------------------------------------------
# Variant without any overlapping blocks in the input: a byte interval whose
# tail is uninitialised (size > len(contents)) and that has a gap before an
# aligned block. insert_padding() is then called twice in a row with the same
# `last_block`, and both calls create a block starting at the same offset.
def run_uninitialised():
    from gtirb_test_helpers import add_data_block, add_section

    ir, m = create_test_module(
        gtirb.Module.FileFormat.ELF, gtirb.Module.ISA.X64
    )
    _, bi = add_section(m, ".data", address=0x1000)
    d0 = add_data_block(bi, b"\x01\x02\x03\x04")  # D0 [0,4) initialised
    d1 = gtirb.DataBlock(offset=8, size=4)  # D1 [8,12) at 0x1008, align 8
    d1.byte_interval = bi
    bi.size = 12  # [4,12) is uninitialised, [4,8) is not covered by a block
    m.aux_data["alignment"] = gtirb.AuxData({d1: 8}, "mapping<UUID,uint64_t>")
    names = {d0.uuid: "D0", d1.uuid: "D1"}

    @gtirb_rewriting.patch_constraints()
    def patch(ctx):
        return ".byte 1"

    ctx = gtirb_rewriting.RewritingContext(m, [])
    ctx.insert_at(d0, 0, gtirb_rewriting.Patch.from_function(patch))
    ctx.apply()
    ir.save_protobuf_file(io.BytesIO())

    blocks = sorted(bi.blocks, key=lambda x: (x.offset, x.size))
    for blk in blocks:
        print(
            f"    {names.get(blk.uuid, 'new'):4} "
            f"[{blk.offset:2},{blk.offset + blk.size:2})"
        )
    res = []
    for i, x in enumerate(blocks):
        for y in blocks[i + 1 :]:
            if x.offset < y.offset + y.size and y.offset < x.offset + x.size:
                res.append((x, y))
                print(
                    "  OVERLAP between two newly created blocks: "
                    f"[{x.offset},{x.offset + x.size}) and "
                    f"[{y.offset},{y.offset + y.size})"
                )
    return res


print()
print(
    "variant: D0[0,4) initialised, gap [4,8), D1[8,12) align 8, bytes [4,12) "
    "uninitialised; insert one byte at D0+0"
)
bad2 = run_uninitialised()
print(
    "  expected: new padding blocks are disjoint (e.g. [5,9) for the old gap "
    "and [9,16) for the alignment padding)"
)

if control:
    print("control case unexpectedly overlaps")
    sys.exit(2)
if bad or bad2:
    print("VIOLATION PRESENT")
    sys.exit(1)
print("no violation")
sys.exit(0)
