"""Demo for finding 3 (property C08). Exits 1 while the defect is present."""
# ---------------------------------------------------------------------------
# Small independent oracle shared (by copy) between the demos.
#
# Original instructions are `mov eax, imm32` (b8 id) / `ret imm16` (c2 id) with
# unique immediates so that they can be recognised after the rewrite; patch
# code uses other opcodes.  The oracle flattens the module to a listing
# (directives and instructions in address order), and runs its own little CFI
# machine over it.  It does not use any gtirb_rewriting code.
# ---------------------------------------------------------------------------
import logging
import uuid

import gtirb
import gtirb_functions
import gtirb_rewriting
from gtirb_test_helpers import (
    add_code_block,
    add_data_block,
    add_data_section,
    add_edge,
    add_function,
    add_proxy_block,
    add_symbol,
    add_text_section,
    create_test_module,
    set_all_blocks_alignment,
)

logging.disable(logging.CRITICAL)
NULL_UUID = uuid.UUID(int=0)


def mov(i):
    return b"\xb8" + i.to_bytes(4, "little")


def ret(i):
    return b"\xc2" + i.to_bytes(2, "little")


def D(name, *args, sym=NULL_UUID):
    return (name, list(args), sym)


def patch(asm):
    @gtirb_rewriting.patch_constraints()
    def get_asm(ctx):
        return asm

    return gtirb_rewriting.Patch.from_function(get_asm)


def function(m, name, entry, others=()):
    fid = add_function(m, name, entry, set(others))
    return gtirb_functions.Function(
        fid,
        {entry},
        {entry} | set(others),
        [m.aux_data["functionNames"].data[fid]],
    )


def decode(data):
    out, i = [], 0
    while i < len(data):
        b = data[i]
        if b == 0xB8:
            n, t = 5, "mov#%d" % int.from_bytes(data[i + 1 : i + 5], "little")
        elif b == 0xC2:
            n, t = 3, "ret#%d" % int.from_bytes(data[i + 1 : i + 3], "little")
        elif b == 0x90:
            n, t = 1, "patch:nop"
        elif b == 0xC3:
            n, t = 1, "patch:ret"
        elif b == 0xEB:
            n, t = 2, "patch:jmp"
        elif b == 0xE9:
            n, t = 5, "patch:jmp"
        elif b == 0x50:
            n, t = 1, "patch:push"
        elif b == 0x58:
            n, t = 1, "patch:pop"
        else:
            raise ValueError("unexpected byte %#x" % b)
        out.append((i, t))
        i += n
    return out


def listing(m):
    """[('D', directive) | ('I', tag)] for the .text section, address order."""
    table = m.aux_data["cfiDirectives"].data
    per_block = {}
    for off, ds in table.items():
        per_block.setdefault(off.element_id, {})[off.displacement] = ds
    text = next(s for s in m.sections if s.name == ".text")
    out = []
    for blk in sorted(text.byte_blocks, key=lambda b: (b.address, b.size != 0)):
        if not isinstance(blk, gtirb.CodeBlock):
            continue
        dec = decode(blk.contents)
        dmap = per_block.get(blk, {})
        bounds = [o for o, _ in dec] + [blk.size]
        assert all(k in bounds for k in dmap), "directive off a boundary"
        for i, off in enumerate(bounds):
            out += [("D", d) for d in dmap.get(off, [])]
            if i < len(dec):
                out.append(("I", dec[i][1]))
    return out


class CFIError(Exception):
    pass


def unwind_states(items):
    """tag -> state for every instruction; raises CFIError if ill-formed."""
    st, nproc, res = None, 0, []
    for kind, x in items:
        if kind == "I":
            res.append(
                (
                    x,
                    None
                    if st is None
                    else dict(
                        proc=st["proc"],
                        personality=st["pers"],
                        lsda=st["lsda"],
                        cfa=st["cfa"],
                        regs=dict(st["regs"]),
                        saved=len(st["stack"]),
                    ),
                )
            )
            continue
        name, args, sym = x
        symname = sym.name if isinstance(sym, gtirb.Symbol) else None
        if name == ".cfi_startproc":
            if st is not None:
                raise CFIError(".cfi_startproc inside a procedure")
            st = dict(proc=nproc, pers=None, lsda=None, cfa=None, regs={}, stack=[])
            nproc += 1
        elif st is None:
            raise CFIError("%s outside any procedure" % name)
        elif name == ".cfi_endproc":
            st = None
        elif name == ".cfi_personality":
            st["pers"] = symname
        elif name == ".cfi_lsda":
            st["lsda"] = symname
        elif name == ".cfi_def_cfa":
            st["cfa"] = tuple(args)
        elif name in (".cfi_def_cfa_offset", ".cfi_adjust_cfa_offset"):
            if st["cfa"] is None:
                raise CFIError("%s but no CFA rule is defined" % name)
            base = st["cfa"][1] if name == ".cfi_adjust_cfa_offset" else 0
            st["cfa"] = (st["cfa"][0], base + args[0])
        elif name == ".cfi_offset":
            st["regs"][args[0]] = args[1]
        elif name == ".cfi_remember_state":
            st["stack"].append((st["cfa"], dict(st["regs"])))
        elif name == ".cfi_restore_state":
            if not st["stack"]:
                raise CFIError(".cfi_restore_state with nothing remembered")
            st["cfa"], st["regs"] = st["stack"].pop()
        else:
            raise CFIError("unknown directive " + name)
    if st is not None:
        raise CFIError("procedure still open at the end")
    return res


def show(items):
    for kind, x in items:
        if kind == "I":
            print("        " + x)
        else:
            s = x[2].name if isinstance(x[2], gtirb.Symbol) else ""
            print("    %s %s %s" % (x[0], ", ".join(map(str, x[1])), s))


def library_evaluates(m):
    """Second opinion: the library's own evaluator."""
    from gtirb_rewriting.dwarf.cfi_eval import evaluate_cfi_directives

    try:
        list(evaluate_cfi_directives(m, [b for b in m.code_blocks if b.size]))
        return None
    except Exception as e:  # CFIStateError
        return "%s: %s" % (type(e).__name__, e)


# ---------------------------------------------------------------------------
# Finding 3: code inserted at the entry of procedure g ends up inside the
# *previous* procedure f (and is evaluated with f's unwind state) when the
# same rewrite also appends code at the end of f.
# ---------------------------------------------------------------------------
def build(layout):
    ir, m = create_test_module(gtirb.Module.FileFormat.ELF, gtirb.Module.ISA.X64)
    _, bi = add_text_section(m, address=0x1000)
    b0 = add_code_block(bi, mov(1) + ret(2))  # f
    b1 = add_code_block(bi, mov(3) + ret(4))  # g
    add_edge(ir.cfg, b0, add_proxy_block(m), gtirb.Edge.Type.Return)
    add_edge(ir.cfg, b1, add_proxy_block(m), gtirb.Edge.Type.Return)
    f = function(m, "f", b0)
    g = function(m, "g", b1)
    set_all_blocks_alignment(m, 1)
    open_g = [D(".cfi_startproc"), D(".cfi_def_cfa", 7, 8)]
    table = {
        gtirb.Offset(b0, 0): [D(".cfi_startproc"), D(".cfi_def_cfa", 7, 8)],
        gtirb.Offset(b0, 5): [D(".cfi_def_cfa_offset", 32)],
        gtirb.Offset(b1, 8): [D(".cfi_endproc")],
    }
    if layout == "ddisasm":
        # .cfi_endproc at the end of f's block, g opened at the start of its
        # own block
        table[gtirb.Offset(b0, 8)] = [D(".cfi_endproc")]
        table[gtirb.Offset(b1, 0)] = open_g
    else:
        # g is opened right after f's .cfi_endproc, at the end of f's block
        # (the placement the library itself produces when it re-homes
        # directives, see tests/test_deletions.py::test_delete_block_with_cfi)
        # so the insertion point (b1, 0) is strictly inside g: no structural
        # directive is attached to it.
        table[gtirb.Offset(b0, 8)] = [D(".cfi_endproc"), D(".cfi_startproc")]
        table[gtirb.Offset(b1, 0)] = [D(".cfi_def_cfa", 7, 8)]
    m.aux_data["cfiDirectives"].data = table
    return m, [f, g], b0, b1


TAIL = "nop; ret"  # out-of-line code appended after f's ret (no CFI)
ENTRY = "push %rax; pop %rax"  # instrumentation at g's entry (no CFI)


def run(layout, with_tail):
    m, funcs, b0, b1 = build(layout)
    before = dict(unwind_states(listing(m)))
    ctx = gtirb_rewriting.RewritingContext(m, funcs)
    if with_tail:
        ctx.insert_at(b0, 8, patch(TAIL))
    ctx.insert_at(b1, 0, patch(ENTRY))
    ctx.apply()
    items = listing(m)
    show(items)
    after = unwind_states(items)
    want = before["mov#3"]  # state in effect at the insertion point (g entry)
    bad = False
    for tag, st in after:
        if tag in ("patch:push", "patch:pop"):
            if st != want:
                bad = True
                print("  VIOLATION: %s inserted at g's entry" % tag)
                print("     required:", want)
                print("     observed:", st)
    for tag, st in after:
        if tag in before and st != before[tag]:
            bad = True
            print("  VIOLATION: original instruction", tag, st, "!=", before[tag])
    if not bad:
        print("  ok: the entry patch is covered by g (procedure #1, CFA r7+8)")
    return bad


def main():
    bad = False
    for layout in ("ddisasm", "adjacent"):
        print("=== layout %s, control: only the insertion at g's entry" % layout)
        ctl = run(layout, with_tail=False)
        print("=== layout %s: insertion at the end of f AND at g's entry" % layout)
        bad |= run(layout, with_tail=True) or ctl
    print()
    print(
        "Property: code inserted inside a procedure is covered by that "
        "procedure with the state in effect at the insertion point.  The "
        "entry patch of g must be in procedure #1 with CFA r7+8 (as it is in "
        "the control run), not in f (procedure #0, CFA r7+32)."
    )
    print("RESULT:", "VIOLATED" if bad else "holds")
    return 1 if bad else 0


if __name__ == "__main__":
    raise SystemExit(main())
