"""
C20 / ReferenceCache: retarget_references(block, None, ...) on a block that has NO
references is a documented no-op, but it raises AssertionError when an earlier
get_referent()/set_referent() left an empty indirect-reference tree behind for that block.

Model (assigning Symbol.referent directly):
    retarget(block, to, at_end):  for s in tuple(block.references): s.referent, s.at_end = to, at_end
so for a block without references the call does nothing, whatever `to` is.

Run: cd /repo && PYTHONPATH=/repo/src /venv/bin/python hunt/1/demo.py
Exits 1 when the violation is present, 0 otherwise.
"""
import sys

import gtirb
from gtirb_test_helpers import (
    add_data_block,
    add_symbol,
    add_text_section,
    create_test_module,
)

from gtirb_rewriting._modify import ReferenceCache


def build():
    _, m = create_test_module(
        isa=gtirb.Module.ISA.X64, file_format=gtirb.Module.FileFormat.ELF
    )
    _, bi = add_text_section(m, address=0x1000)
    a = add_data_block(bi, b"\x00")
    b = add_data_block(bi, b"\x00")
    s = add_symbol(m, "s", a)
    return a, b, s


def try_noop_retarget(cache, block, label):
    try:
        cache.retarget_references(block, None, False)
    except AssertionError as exc:
        print(f"  {label}: retarget_references(B, None, False) -> AssertionError {exc!r}")
        return False
    print(f"  {label}: retarget_references(B, None, False) -> no-op")
    return True


ok = True

# Baseline: B never had any references -> no-op, as the code comment says.
a, b, s = build()
cache = ReferenceCache()
print("fresh cache, B has no references:")
ok &= try_noop_retarget(cache, b, "baseline")

# History-dependent case.  The abstract state before the last call is identical:
# s refers (directly) to A, B has no direct and no indirect references.
a, b, s = build()
cache = ReferenceCache()
cache.retarget_references(a, b, False)   # s: A -> B (indirect)
assert cache.get_referent(s) is b        # s becomes a direct reference to B
cache.set_referent(s, a, False)          # ... and is moved back to A
assert s.referent is a and not any(b.references)
print("after retarget(A->B); get_referent(s); set_referent(s, A): B has no references:")
print("  direct references of B:", list(b.references))
hist_ok = try_noop_retarget(cache, b, "with history")
ok &= hist_ok

# Same thing through set_referent only (no get_referent involved).
a, b, s = build()
cache = ReferenceCache()
cache.retarget_references(a, b, False)
cache.set_referent(s, None, False)
print("after retarget(A->B); set_referent(s, None): B has no references:")
ok &= try_noop_retarget(cache, b, "set_referent only")

# Control: exhausting get_references(B) first (it yields nothing) removes the stale
# entry, which shows that the cache's abstract content really was "no references".
a, b, s = build()
cache = ReferenceCache()
cache.retarget_references(a, b, False)
cache.get_referent(s)
cache.set_referent(s, a, False)
refs = list(cache.get_references(b))
print("control: get_references(B) =", refs, "then:")
try_noop_retarget(cache, b, "after get_references")

print()
print("property requires: no-op in every case (B has no references in the model)")
if not ok:
    print("VIOLATION: result of a no-op retarget depends on the cache's history")
    sys.exit(1)
print("ok")
sys.exit(0)
