#!/usr/bin/env python
"""
C03 finding 2: a `ret` inserted into a function that is called but has no
return instruction of its own (it ends in a tail jump) gets a Return edge to a
fresh proxy instead of to the return sites of the calls that target the
function.

    cd /repo && PYTHONPATH=/repo/src /venv/bin/python hunt2/2/demo.py

exits 1 while the violation is present, 0 once fixed.
"""
import logging
import sys

import gtirb
import gtirb_functions
from gtirb_test_helpers import (
    add_code_block,
    add_edge,
    add_function,
    add_proxy_block,
    add_symbol,
    add_text_section,
    create_test_module,
    set_all_blocks_alignment,
)

import gtirb_rewriting
from gtirb_rewriting import Patch, patch_constraints

logging.disable(logging.CRITICAL)
ET = gtirb.Edge.Type


def lit(asm):
    @patch_constraints()
    def p(ctx):
        return asm

    return Patch.from_function(p)


def name(node):
    if isinstance(node, gtirb.ProxyBlock):
        return "<proxy>"
    return "block@%#x" % node.address


def run(patch_asm, offset):
    """
    main:    call worker          (M0)
             ret                  (M1)   <- the only return site of worker
    worker:  nop; jmp helper      (W0)   <- no ret of its own
    helper:  ret                  (H0)   nobody calls helper
    """
    ir, m = create_test_module(
        gtirb.Module.FileFormat.ELF, gtirb.Module.ISA.X64
    )
    _, bi = add_text_section(m, address=0x1000)
    worker_sym = add_symbol(m, "worker")
    helper_sym = add_symbol(m, "helper")
    m0 = add_code_block(
        bi, b"\xe8\0\0\0\0", {1: gtirb.SymAddrConst(0, worker_sym)}
    )
    m1 = add_code_block(bi, b"\xc3")
    w0 = add_code_block(
        bi, b"\x90\xe9\0\0\0\0", {2: gtirb.SymAddrConst(0, helper_sym)}
    )
    h0 = add_code_block(bi, b"\xc3")
    worker_sym.referent = w0
    helper_sym.referent = h0
    add_function(m, "main", m0, {m1})
    add_function(m, worker_sym, w0)
    add_function(m, helper_sym, h0)
    add_edge(ir.cfg, m0, w0, ET.Call)
    add_edge(ir.cfg, m0, m1, ET.Fallthrough)
    add_edge(ir.cfg, m1, add_proxy_block(m), ET.Return)
    add_edge(ir.cfg, w0, h0, ET.Branch)
    add_edge(ir.cfg, h0, add_proxy_block(m), ET.Return)
    set_all_blocks_alignment(m, 1)

    before = set(m.code_blocks)
    ctx = gtirb_rewriting.RewritingContext(
        m, gtirb_functions.Function.build_functions(m)
    )
    ctx.insert_at(w0, offset, lit(patch_asm))
    ctx.apply()

    worker_uuid = next(
        u for u, s in m.aux_data["functionNames"].data.items()
        if s is worker_sym
    )
    worker_blocks = m.aux_data["functionBlocks"].data[worker_uuid]
    ok = True
    print("insert_at(worker_block, %d, %r)" % (offset, patch_asm))
    print("  call edge of main   :", sorted(
        "%s->%s" % (e.label.type.name, name(e.target))
        for e in m0.outgoing_edges))
    for b in sorted(worker_blocks, key=lambda b: b.address):
        rets = [e for e in b.outgoing_edges if e.label.type == ET.Return]
        if not rets and not bytes(b.contents).endswith(b"\xc3"):
            continue
        tg = sorted(name(e.target) for e in rets)
        good = {e.target for e in rets} == {m1} and len(rets) == 1
        ok &= good
        print(
            "  ret in worker (%s): Return -> %s ; required -> ['%s'] : %s"
            % (name(b), tg, name(m1), "ok" if good else "VIOLATION")
        )
    return ok


if __name__ == "__main__":
    r1 = run("ret", 1)
    print()
    # the same with a more realistic "early exit" patch
    r2 = run("test %rax, %rax; jne .Lcont; ret; .Lcont: nop", 0)
    sys.exit(0 if (r1 and r2) else 1)
