"""
C20 / BlockOrdering: a block that occurs twice in the argument of
add_detached_blocks / insert_blocks_after is accepted (only blocks that are
*already* ordered are refused) and leaves a phantom list node behind.

Run: cd /repo && PYTHONPATH=/repo/src /venv/bin/python hunt2/2/demo.py
Exits 1 while the violation is present, 0 once fixed.
"""
import sys

import gtirb

from gtirb_rewriting._adt import BlockOrdering

bad = False


def adj(o, blk):
    try:
        return o.adjacent_blocks(blk)
    except KeyError:
        return "KeyError"


def name(x):
    if isinstance(x, tuple):
        return tuple(name(y) for y in x)
    return names.get(id(x), x)


a, b, c = gtirb.CodeBlock(), gtirb.CodeBlock(), gtirb.CodeBlock()
names = {id(a): "a", id(b): "b", id(c): "c"}

# --- case 1: add_detached_blocks([a, a, b]) ---------------------------------
o = BlockOrdering()
try:
    o.add_detached_blocks([a, a, b])
    refused = False
except ValueError as exc:
    refused = True
    print("case 1: refused with ValueError(%s)  -> fixed" % exc)

if not refused:
    print("case 1: add_detached_blocks([a, a, b]) was accepted (required: ValueError,")
    print("        the same refusal as for a block that is already ordered)")
    print("  adjacent_blocks(a) =", name(adj(o, a)), "   <- a is its own predecessor")
    o.remove_block(a)
    print("  after remove_block(a):")
    print("    adjacent_blocks(a) =", name(adj(o, a)), "        (a is gone)")
    print("    adjacent_blocks(b) =", name(adj(o, b)), "   (required: (None, None); a was removed)")
    if adj(o, b) != (None, None):
        bad = True

# --- case 2: insert_blocks_after(c, [a, a]) ---------------------------------
o = BlockOrdering()
o.add_detached_blocks([c, b])
try:
    o.insert_blocks_after(c, [a, a])
    refused = False
except ValueError as exc:
    refused = True
    print("case 2: refused with ValueError(%s)  -> fixed" % exc)
    if (adj(o, c), adj(o, b)) != ((None, b), (c, None)):
        print("  but the ordering was changed by the refused call")
        bad = True

if not refused:
    print("case 2: insert_blocks_after(c, [a, a]) was accepted (required: ValueError)")
    o.remove_block(a)
    print("  after remove_block(a):")
    print("    adjacent_blocks(a) =", name(adj(o, a)))
    print("    adjacent_blocks(c) =", name(adj(o, c)), "   (required: (None, 'b'))")
    print("    adjacent_blocks(b) =", name(adj(o, b)), "   (required: ('c', None))")
    # With a plain list [c, a, a, b] one remove leaves [c, a, b] with a still
    # present; with a refusal the list is [c, b].  Neither matches.
    if adj(o, a) == "KeyError" and adj(o, c) != (None, b):
        bad = True

print()
if bad:
    print("VIOLATION PRESENT")
    sys.exit(1)
print("fixed")
sys.exit(0)
