#!/usr/bin/env python
"""
C03 finding 1: deleting a callee's (last) block moves the Call edges to the
next block, but the function that now receives the calls gets no Return edges
to the call's return site.

    cd /repo && PYTHONPATH=/repo/src /venv/bin/python hunt2/1/demo.py

exits 1 while the violation is present, 0 once fixed.
"""
import logging
import sys

import gtirb
import gtirb_functions
from gtirb_test_helpers import (
    add_code_block,
    add_edge,
    add_function,
    add_proxy_block,
    add_symbol,
    add_text_section,
    create_test_module,
    set_all_blocks_alignment,
)

import gtirb_rewriting

logging.disable(logging.CRITICAL)
ET = gtirb.Edge.Type


def name(m, node):
    if isinstance(node, gtirb.ProxyBlock):
        return "<proxy>"
    return "block@%#x" % node.address


def edges(m, block):
    return sorted(
        "%s->%s" % (e.label.type.name, name(m, e.target))
        for e in block.outgoing_edges
    )


def case_next_block():
    """
    main:    call callee          (M0)
             ret                  (M1)   <- return site
    callee:  ret                  (C0)   <- deleted: delete_at(C0, 0, 1)
    other:   nop; ret             (O0)
    """
    ir, m = create_test_module(
        gtirb.Module.FileFormat.ELF, gtirb.Module.ISA.X64
    )
    _, bi = add_text_section(m, address=0x1000)
    callee_sym = add_symbol(m, "callee")
    m0 = add_code_block(
        bi, b"\xe8\0\0\0\0", {1: gtirb.SymAddrConst(0, callee_sym)}
    )
    m1 = add_code_block(bi, b"\xc3")
    c0 = add_code_block(bi, b"\xc3")
    o0 = add_code_block(bi, b"\x90\xc3")
    callee_sym.referent = c0
    add_function(m, "main", m0, {m1})
    add_function(m, callee_sym, c0)
    add_function(m, "other", o0)
    add_edge(ir.cfg, m0, c0, ET.Call)
    add_edge(ir.cfg, m0, m1, ET.Fallthrough)
    add_edge(ir.cfg, c0, m1, ET.Return)
    add_edge(ir.cfg, m1, add_proxy_block(m), ET.Return)
    add_edge(ir.cfg, o0, add_proxy_block(m), ET.Return)
    set_all_blocks_alignment(m, 1)

    ctx = gtirb_rewriting.RewritingContext(
        m, gtirb_functions.Function.build_functions(m)
    )
    ctx.delete_at(c0, 0, c0.size)
    ctx.apply()

    print("case 1: delete_at(callee_block, 0, 1)  (callee is 'ret' only)")
    print("  edited listing: main: call callee; ret / callee: other: nop; ret")
    print("  symbol 'callee' now refers to", name(m, callee_sym.referent))
    print("  call block edges     :", edges(m, m0))
    print("  'other' block edges  :", edges(m, o0))
    call_targets = {
        e.target for e in m0.outgoing_edges if e.label.type == ET.Call
    }
    ret_targets = {
        e.target for e in o0.outgoing_edges if e.label.type == ET.Return
    }
    print(
        "  required: the call targets %s, so its ret must return to %s"
        % (name(m, o0), name(m, m1))
    )
    ok = call_targets == {o0} and ret_targets == {m1}
    print("  observed return targets:", sorted(name(m, t) for t in ret_targets))
    print("  ->", "ok" if ok else "VIOLATION")
    return ok


def case_proxy():
    """
    main:    call callee          (M0)
             ret                  (M1)
    callee:  nop                  (C0)  <- delete_at(C0,0,1,retarget_to_proxy)
             ret                  (C1)  Return->M1
    """
    ir, m = create_test_module(
        gtirb.Module.FileFormat.ELF, gtirb.Module.ISA.X64
    )
    _, bi = add_text_section(m, address=0x1000)
    callee_sym = add_symbol(m, "callee")
    m0 = add_code_block(
        bi, b"\xe8\0\0\0\0", {1: gtirb.SymAddrConst(0, callee_sym)}
    )
    m1 = add_code_block(bi, b"\xc3")
    c0 = add_code_block(bi, b"\x90")
    c1 = add_code_block(bi, b"\xc3")
    callee_sym.referent = c0
    add_function(m, "main", m0, {m1})
    add_function(m, callee_sym, c0, {c1})
    add_edge(ir.cfg, m0, c0, ET.Call)
    add_edge(ir.cfg, m0, m1, ET.Fallthrough)
    add_edge(ir.cfg, c0, c1, ET.Fallthrough)
    add_edge(ir.cfg, c1, m1, ET.Return)
    add_edge(ir.cfg, m1, add_proxy_block(m), ET.Return)
    set_all_blocks_alignment(m, 1)

    ctx = gtirb_rewriting.RewritingContext(
        m, gtirb_functions.Function.build_functions(m)
    )
    ctx.delete_at(c0, 0, c0.size, retarget_to_proxy=True)
    ctx.apply()

    print("case 2: delete_at(callee_entry, 0, 1, retarget_to_proxy=True)")
    print("  call block edges        :", edges(m, m0))
    print("  remaining 'ret' of callee:", edges(m, c1))
    ret_targets = [
        e.target for e in c1.outgoing_edges if e.label.type == ET.Return
    ]
    print(
        "  required: no call targets the function any more, so its ret "
        "leads to a proxy"
    )
    ok = len(ret_targets) == 1 and isinstance(ret_targets[0], gtirb.ProxyBlock)
    print("  ->", "ok" if ok else "VIOLATION (stale Return edge to the old return site)")
    return ok


if __name__ == "__main__":
    r1 = case_next_block()
    print()
    r2 = case_proxy()
    sys.exit(0 if (r1 and r2) else 1)
