"""
C20 / IdentitySet: binary set operations against a non-IdentitySet operand fall
back to the members' __hash__/__eq__ (inherited collections.abc mixins), so the
container stops behaving like a set of object identities.

Run: cd /repo && PYTHONPATH=/repo/src /venv/bin/python hunt2/1/demo.py
Exits 1 while the violation is present, 0 once fixed.
"""
import sys

from gtirb_rewriting._adt import IdentitySet

bad = []


def attempt(label, fn, required):
    try:
        got = fn()
    except Exception as exc:  # noqa: BLE001
        got = "%s: %s" % (type(exc).__name__, exc)
    ok = got == required
    print("%-34s observed %-44r required %r%s" % (label, got, required, "" if ok else "   <-- VIOLATION"))
    if not ok:
        bad.append(label)


def ids(s):
    """Abstract model: the set of identities held by an IdentitySet."""
    return sorted(id(x) for x in s)


# --- (a) unhashable members (the class's own test uses dicts) -------------
u = {}  # unhashable member
attempt("ids(IdentitySet([u]) - set())", lambda: ids(IdentitySet([u]) - set()), [id(u)])
attempt("ids(IdentitySet([u]) ^ frozenset())", lambda: ids(IdentitySet([u]) ^ frozenset()), [id(u)])
attempt("IdentitySet([u]) == {1}", lambda: IdentitySet([u]) == {1}, False)
attempt("IdentitySet([u]) <= {1}", lambda: IdentitySet([u]) <= {1}, False)


def iand_unhashable():
    s = IdentitySet([u])
    s &= frozenset()
    return ids(s)


attempt("s = IdentitySet([u]); s &= frozenset()", iand_unhashable, [])

# --- (b) equal-but-distinct hashable members ------------------------------
a = (1, 2)
b = tuple([1, 2])
assert a == b and a is not b
attempt("ids(IdentitySet([a]) & {b})", lambda: ids(IdentitySet([a]) & {b}), [])  # correct today
attempt("ids(IdentitySet([a]) - {b})", lambda: ids(IdentitySet([a]) - {b}), [id(a)])
attempt("ids(IdentitySet([a]) ^ {b})", lambda: ids(IdentitySet([a]) ^ {b}), sorted([id(a), id(b)]))
attempt("IdentitySet([a]) <= {b}", lambda: IdentitySet([a]) <= {b}, False)
attempt("IdentitySet([a]) == {b}", lambda: IdentitySet([a]) == {b}, False)


def iand_equal():
    s = IdentitySet([a])
    s &= {b}  # in-place version of the '&' above, which gives the empty set
    return ids(s)


attempt("s = IdentitySet([a]); s &= {b}", iand_equal, [])

print()
if bad:
    print("VIOLATION PRESENT (%d checks)" % len(bad))
    sys.exit(1)
print("fixed")
sys.exit(0)
