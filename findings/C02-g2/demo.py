"""
C02 finding 2: deleting a whole block moves labels of / into the *untouched*
neighbouring block when that neighbour contains a zero-sized block.

Input: data section  a: 11 12 13 | b: 21 22 [| c: 31]  and an ordinary GTIRB
symbol `a_plus_1` whose payload is the address a+1 (integral symbol; apply()
turns it into a reference to a zero-sized block inside a, in front of byte 12).
Only block b is deleted.

  case Y (b has a successor c): delete() removes the zero-sized block "in
      front of" b although it lies inside a -> a_plus_1 jumps over 12 13.
  case X (b is the last block of the section): b's labels become at_end
      references of that zero-sized block -> they land between 11 and 12
      instead of after 13.

Run:  cd /repo && PYTHONPATH=/repo/src /venv/bin/python hunt2/2/demo.py
Exit status 1 = violation present, 0 = fixed.
"""
import sys

import gtirb
from gtirb_test_helpers import (
    add_data_block,
    add_data_section,
    add_symbol,
    create_test_module,
)

import gtirb_rewriting


def build(with_c):
    ir, m = create_test_module(
        gtirb.Module.FileFormat.ELF, gtirb.Module.ISA.X64
    )
    _, bi = add_data_section(m, 0x2000)
    a = add_data_block(bi, b"\x11\x12\x13")
    b = add_data_block(bi, b"\x21\x22")
    syms = {"a": add_symbol(m, "a", a), "b": add_symbol(m, "b", b)}
    syms["b_end"] = add_symbol(m, "b_end", b)
    syms["b_end"].at_end = True
    if with_c:
        c = add_data_block(bi, b"\x31")
        syms["c"] = add_symbol(m, "c", c)
    syms["a_plus_1"] = gtirb.Symbol("a_plus_1", payload=0x2001, module=m)
    return ir, m, bi, b, syms


def position(sym):
    ref = sym.referent
    if not isinstance(ref, gtirb.ByteBlock) or ref.byte_interval is None:
        return None
    return ref.offset + (ref.size if sym.at_end else 0)


bad = 0
for with_c, exp_bytes, required in (
    # listing after deleting b:  a: 11 | a_plus_1: 12 13 | b: b_end: c: 31
    (True, b"\x11\x12\x13\x31", {"a": 0, "a_plus_1": 1, "b": 3, "b_end": 3, "c": 3}),
    # listing after deleting b:  a: 11 | a_plus_1: 12 13 | b: b_end:
    (False, b"\x11\x12\x13", {"a": 0, "a_plus_1": 1, "b": 3, "b_end": 3}),
):
    ir, m, bi, b, syms = build(with_c)
    ctx = gtirb_rewriting.RewritingContext(m, [])
    ctx.delete_at(b, 0, 2)
    ctx.apply()
    got_bytes = bytes(bi.contents)
    print(
        "delete_at(b, 0, 2), b %s: bytes %s (required %s)"
        % (
            "followed by c" if with_c else "is the last block of the section",
            got_bytes.hex(),
            exp_bytes.hex(),
        )
    )
    if got_bytes != exp_bytes:
        bad += 1
    for name, req in required.items():
        got = position(syms[name])
        ok = got == req
        print(
            "    %-9s offset %s (required %d)%s"
            % (name, got, req, "" if ok else "   <-- VIOLATION")
        )
        if not ok:
            bad += 1

print("%d label positions violate C02" % bad)
sys.exit(1 if bad else 0)
