"""
C20 / ReferenceCache: looking up another symbol's referent (cache.get_referent) while
iterating cache.get_references(block) crashes with RuntimeError / KeyError from the
cache's internals.

Model (assigning Symbol.referent directly): get_references(b) is `b.references`,
get_referent(s) is the read `s.referent`.  Reading a referent inside the loop does not
disturb the iteration; the loop sees every symbol referring to b exactly once.

Run: cd /repo && PYTHONPATH=/repo/src /venv/bin/python hunt/3/demo.py
Exits 1 when the violation is present, 0 otherwise.
"""
import sys

import gtirb
from gtirb_test_helpers import (
    add_data_block,
    add_symbol,
    add_text_section,
    create_test_module,
)

from gtirb_rewriting._modify import ReferenceCache


def build(nblocks):
    _, m = create_test_module(
        isa=gtirb.Module.ISA.X64, file_format=gtirb.Module.FileFormat.ELF
    )
    _, bi = add_text_section(m, address=0x1000)
    return m, [add_data_block(bi, b"\x00") for _ in range(nblocks)]


def scenario(title, nblocks, sym_blocks, retargets, lookups):
    """
    sym_blocks: symbol name -> index of the block it refers to
    retargets:  (from, to) block indices, all to the start
    lookups:    names of the symbols whose referent is read inside the loop
    Everything ends up referring to the last block.
    """
    print(title)
    # --- the model: plain Symbol.referent -------------------------------
    m, blocks = build(nblocks)
    syms = {n: add_symbol(m, n, blocks[i]) for n, i in sym_blocks.items()}
    for frm, to in retargets:
        for s in tuple(blocks[frm].references):
            s.referent = blocks[to]
            s.at_end = False
    target = blocks[-1]
    seen = []
    for s in target.references:
        seen.append(s.name)
        for n in lookups:
            assert syms[n].referent is target
    print("  model  : loop saw", sorted(seen), "- no exception")
    want = sorted(seen)

    # --- the library ---------------------------------------------------
    m, blocks = build(nblocks)
    syms = {n: add_symbol(m, n, blocks[i]) for n, i in sym_blocks.items()}
    cache = ReferenceCache()
    for frm, to in retargets:
        cache.retarget_references(blocks[frm], blocks[to], False)
    target = blocks[-1]
    seen = []
    try:
        for s in cache.get_references(target):
            seen.append(s.name)
            for n in lookups:
                assert cache.get_referent(syms[n]) is target
    except (RuntimeError, KeyError) as exc:
        msg = str(exc).split("(")[0]
        print(f"  library: loop saw {sorted(seen)} then {type(exc).__name__}: {msg}")
        return False
    cache.apply()
    final = sorted(s.name for s in target.references)
    print("  library: loop saw", sorted(seen), "- no exception; final references", final)
    return final == want and len(seen) == len(set(seen)) and set(seen) <= set(want)


results = [
    # 1. a -> A, b -> B; A's references retargeted to B.  While the loop is at the
    #    direct reference b, a's referent is looked up.
    scenario(
        "1) direct phase:   A{a} -> B{b};  for s in get_references(B): get_referent(a)",
        2, {"a": 0, "b": 1}, [(0, 1)], ["a"],
    ),
    # 2. A1{a1} and A2{a2} both retargeted to B (no direct references on B).
    scenario(
        "2) two subtrees:   A1{a1} -> B, A2{a2} -> B;  loop looks up a1 and a2",
        3, {"a1": 0, "a2": 1}, [(0, 2), (1, 2)], ["a1", "a2"],
    ),
    # 3. one node holding two symbols.
    scenario(
        "3) one node:       A{a1, a2} -> B;  loop looks up a1 and a2",
        2, {"a1": 0, "a2": 0}, [(0, 1)], ["a1", "a2"],
    ),
]

print()
print("property requires: same reference set as the model and no exception")
if not all(results):
    print("VIOLATION in scenario(s):", [i + 1 for i, r in enumerate(results) if not r])
    sys.exit(1)
print("ok")
sys.exit(0)
