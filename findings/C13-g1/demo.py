"""
C13 demo 1: the label pre-pass (_SymbolCreator) and the real pass (_Streamer)
take different branches of .if/.ifdef/.ifndef when the condition depends on a
symbol assigned earlier in the same text, because _SymbolCreator.emit_assignment
swallows the assignment instead of also letting LLVM record it.

Run:  cd /repo && PYTHONPATH=/repo/src /venv/bin/python hunt2/1/demo.py
Exits 1 when the violation is present, 0 when fixed.
"""
import sys

import gtirb
from gtirb_test_helpers import (
    add_code_block,
    add_symbol,
    add_text_section,
    create_test_module,
)

from gtirb_rewriting.assembler import Assembler
from gtirb_rewriting.assembler.assembler import (
    MultipleDefinitionsError,
    UndefSymbolError,
)


def make_module():
    _, m = create_test_module(
        gtirb.Module.FileFormat.ELF, gtirb.Module.ISA.X64
    )
    _, bi = add_text_section(m, address=0x1000)
    b = add_code_block(bi, b"\x90")
    add_symbol(m, "modsym", b)
    return m


def assemble(text):
    """returns ("ok", result) or (exception class name, message)"""
    asm = Assembler(make_module(), temp_symbol_suffix="_1")
    try:
        asm.assemble(text)
        return "ok", asm.finalize()
    except Exception as exc:  # noqa: BLE001 - we want to see everything
        return type(exc).__name__, str(exc)


def placed(result, sym):
    return any(
        sym.referent is b
        for sect in result.sections.values()
        for b in sect.blocks
    )


violations = 0


def report(title, text, required, observed, bad):
    global violations
    print(f"--- {title}")
    print("input:")
    for line in text.splitlines():
        print("    " + line)
    print("required:", required)
    print("observed:", observed)
    print("=> VIOLATION" if bad else "=> ok")
    print()
    violations += bool(bad)


# Control: with a literal condition the construct is handled correctly, so
# conditionals as such are supported.
text = ".if 1 == 0\nfallback:\n nop\n.endif\n jmp fallback\n"
kind, res = assemble(text)
report(
    "control: constant condition",
    text,
    "UndefSymbolError (fallback is in the untaken branch)",
    kind,
    kind != "UndefSymbolError",
)

# A. the same, but the condition uses a symbol assigned in the text.
text = "mode = 1\n.if mode == 0\nfallback:\n nop\n.endif\n jmp fallback\n"
kind, res = assemble(text)
if kind == "ok":
    syms = {s.name: s for s in res.symbols}
    fb = syms.get("fallback")
    observed = (
        f"assembled, bytes={res.text_section.data.hex()}, symbols="
        f"{sorted(syms)}; 'fallback' referent placed in a section: "
        f"{placed(res, fb) if fb else None}"
    )
else:
    observed = f"{kind}: {res}"
report(
    "A. unknown name is silently accepted (phantom label)",
    text,
    "UndefSymbolError: 'fallback' is never defined (.if mode == 0 is "
    "false, the real pass assembles only the jmp)",
    observed,
    kind != "UndefSymbolError",
)

# B. one definition per branch -> exactly one definition is ever assembled.
text = (
    "mode = 1\n.if mode == 0\nimpl:\n nop\n.else\nimpl:\n ud2\n.endif\n"
)
kind, res = assemble(text)
if kind == "ok":
    observed = (
        f"assembled, bytes={res.text_section.data.hex()}, symbols="
        f"{sorted(s.name for s in res.symbols)}"
    )
    bad = res.text_section.data != b"\x0f\x0b"
else:
    observed = f"{kind}: {res}"
    bad = True
report(
    "B. MultipleDefinitionsError for a name that is defined once",
    text,
    "assembles to 0f0b with one symbol 'impl' (no name is defined twice)",
    observed,
    bad,
)

# C. .ifdef on the assigned symbol: pre-pass says "undefined", real pass says
# "defined" -> the real pass meets a label that was never pre-created.
text = "have_x = 1\n.ifdef have_x\nfoo:\n nop\n.endif\n"
kind, res = assemble(text)
observed = (
    f"assembled, symbols={sorted(s.name for s in res.symbols)}"
    if kind == "ok"
    else f"{kind}: {res}"
)
report(
    "C. new label in a taken .ifdef branch",
    text,
    "assembles to 90 with symbols ['foo', 'have_x']",
    observed,
    kind != "ok" or "foo" not in {s.name for s in res.symbols},
)

# D. same shape, but the label is a name of the target module.
text = "have_x = 1\n.ifdef have_x\nmodsym:\n nop\n.endif\n"
kind, res = assemble(text)
report(
    "D. defining an existing module name in a taken .ifdef branch",
    text,
    "MultipleDefinitionsError (modsym exists in the target module)",
    kind if kind == "ok" else f"{kind}: {res}",
    kind != "MultipleDefinitionsError",
)

print("violations:", violations)
sys.exit(1 if violations else 0)
