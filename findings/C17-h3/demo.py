#!/usr/bin/env python
"""
C17 finding 3: with the default align_stack=True, CallPatch gets
stack_adjustment=None and then *assumes* the stack pointer is a multiple of
conv.stack_alignment. The align_stack prologue does not deliver that: it is
hard-wired to `and $-0x10` followed by two pushes, which on IA32 (4-byte
pushes) always leaves esp == 8 (mod 16), and on x86-64 gives 16-byte alignment
whatever the convention asks for. A custom convention with stack_alignment=16
on IA32 is therefore called with esp == 8 (mod 16) every time; the very same
patch with align_stack=False is aligned correctly.

Run:  cd /repo && PYTHONPATH=/repo/src /venv/bin/python hunt/3/demo.py
Exits 1 while the violation is present, 0 once every case passes.
"""
import logging
import os
import sys

sys.path.insert(0, os.path.dirname(os.path.abspath(__file__)))
from emu import IA32, X64, ELF, PE, check  # noqa: E402

from gtirb_rewriting.abi import CallingConventionDesc  # noqa: E402

logging.disable(logging.CRITICAL)

# cdecl with a 16-byte aligned stack (what GCC/MinGW-compiled i386 code
# assumes): no register arguments, caller cleans up, no shadow space.
cdecl16 = CallingConventionDesc(
    registers=(), stack_alignment=16, caller_cleanup=True, shadow_space=0
)
sysv32 = CallingConventionDesc(
    registers=("RDI", "RSI", "RDX", "RCX", "R8", "R9"),
    stack_alignment=32,
    caller_cleanup=True,
)

CASES = [
    # isa, ff, args, conv, initial sp offset from a 64-aligned address, kwargs
    (IA32, PE, [], cdecl16, 0, {}, "IA32, align 16, 0 args, default align_stack=True"),
    (IA32, PE, [1, 2, 3], cdecl16, 0, {}, "IA32, align 16, 3 args, default align_stack=True"),
    (IA32, PE, [1], cdecl16, 12, {}, "IA32, align 16, 1 arg, unaligned start, align_stack=True"),
    (X64, ELF, [1], sysv32, 0, {}, "x86-64, align 32, default align_stack=True"),
    # controls
    (IA32, PE, [], cdecl16, 0, {"align_stack": False}, "control: IA32, align 16, align_stack=False"),
    (IA32, PE, [1, 2, 3], cdecl16, 0, {"align_stack": False}, "control: IA32, align 16, 3 args, align_stack=False"),
    (IA32, PE, [1, 2, 3], None, 0, {}, "control: IA32 default convention (align 4)"),
    (X64, ELF, [1], None, 8, {}, "control: x86-64 default convention, unaligned start"),
]

violations = 0
for isa, ff, args, conv, mis, kw, desc in CASES:
    try:
        problems, listing = check(isa, ff, args, conv, sp_mis=mis, **kw)
        problems = [p for p in problems if not p.startswith("BONUS")]
    except (ValueError, NotImplementedError) as exc:
        # a clean refusal of an unsupported combination is not a violation
        print(f"refused   {desc}: {type(exc).__name__}: {exc}")
        continue
    except Exception as exc:  # noqa: BLE001
        first = (str(exc).splitlines() or [""])[0]
        problems, listing = [f"{type(exc).__name__}: {first}"], None
    print(f"{'ok' if not problems else 'VIOLATION':9} {desc}")
    for p in problems:
        print(f"            observed: {p}")
    if problems:
        violations += 1
        align = (conv.stack_alignment if conv else None)
        print(
            f"            required: stack pointer at the call instruction is "
            f"a multiple of {align}"
        )
        if listing and violations == 1:
            print("            code in the module after the rewrite:")
            for line in listing:
                print("               " + line)

print()
if violations:
    print(
        f"{violations} case(s) violate C17: the call is not executed with the "
        "stack pointer aligned to the convention's alignment although the "
        "starting point was aligned / align_stack was on."
    )
    sys.exit(1)
print("all cases pass")
sys.exit(0)
