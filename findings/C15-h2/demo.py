"""
C15 finding 2: a .cfi_escape whose bytes end inside a LEB128 operand makes
evaluate_cfi_directives raise EOFError, which is neither CFIStateError nor
ValueError.

Run:  cd /repo && PYTHONPATH=/repo/src /venv/bin/python hunt/2/demo.py
Exits 1 while the violation is present, 0 once fixed.
"""
import sys

import gtirb
from gtirb_test_helpers import (
    add_code_block,
    add_text_section,
    create_test_module,
)

from gtirb_rewriting._auxdata import NULL_UUID
from gtirb_rewriting.dwarf.cfi_eval import (
    CFIStateError,
    evaluate_cfi_directives,
)

CASES = [
    # DW_CFA_def_cfa_expression with the ULEB128 block length missing
    ("def_cfa_expression, no block length", [0x0F]),
    # DW_CFA_expression r6 with the block length missing
    ("expression r6, no block length", [0x10, 0x06]),
    # DW_CFA_val_expression with the register operand missing
    ("val_expression, no register", [0x16]),
    # DW_CFA_def_cfa_expression, 2-byte block: DW_OP_constu with an
    # unterminated ULEB128 (continuation bit set on the last byte)
    ("def_cfa_expression {constu <unterminated>}", [0x0F, 0x02, 0x10, 0x80]),
    # DW_CFA_def_cfa_expression, 1-byte block: DW_OP_breg7 without its offset
    ("def_cfa_expression {breg7 <missing sleb>}", [0x0F, 0x01, 0x77]),
    # control: an undefined CFA opcode is reported as ValueError (this is the
    # behaviour tests/test_dwarf_cfi_eval.py::errors-invalid-instructions pins)
    ("control: undefined opcode 0x17", [0x17]),
]


def run(escape):
    _, m = create_test_module(
        gtirb.Module.FileFormat.ELF, gtirb.Module.ISA.X64
    )
    _, bi = add_text_section(m, address=0x1000)
    b = add_code_block(bi, b"\x90")
    m.aux_data["cfiDirectives"].data[gtirb.Offset(b, 0)] = [
        (".cfi_startproc", [], NULL_UUID),
        (".cfi_escape", escape, NULL_UUID),
    ]
    try:
        states = [s for _, _, s in evaluate_cfi_directives(m, [b])]
        return "state", states
    except (CFIStateError, ValueError) as e:
        return "clean", e
    except BaseException as e:  # noqa: B902 - any other type is the violation
        return "other", e


bad = False
for label, escape in CASES:
    kind, val = run(escape)
    hexs = " ".join(f"{x:02x}" for x in escape)
    if kind == "clean":
        print(f"[ok ] .cfi_escape {hexs:<12} ({label}): "
              f"{type(val).__name__}: {val}")
    elif kind == "other":
        bad = True
        print(f"[BAD] .cfi_escape {hexs:<12} ({label}): raised "
              f"{type(val).__name__}({val}) - property requires "
              f"CFIStateError/ValueError")
    else:
        bad = True
        print(f"[BAD] .cfi_escape {hexs:<12} ({label}): accepted: {val}")

if bad:
    print("\nproperty C15 violated: ill-formed sequences 'are reported as "
          "CFIStateError/ValueError and never produce another exception type'")
    sys.exit(1)
print("ok")
sys.exit(0)
