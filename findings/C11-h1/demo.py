#!/usr/bin/env python
"""
C11 finding 1: the address layout that apply() performs (on entry for modules
without usable addresses, on exit whenever the rewrite made intervals overlap
or created address-less intervals) walks `module.sections` /
`section.byte_intervals` in *set iteration order*.  gtirb nodes hash by
identity, so the order - and with it every address in the output, the order of
code inside .text, the numbering of temporary labels and even whether apply()
succeeds - changes from run to run for the very same input.

The script runs the same three tiny rewrites in N fresh interpreters
(PYTHONHASHSEED=0..N-1) and compares what came out.

  A  .text(1 byte `ret`) immediately followed by .data; insert one `nop`.
  B  the same two blocks without addresses; one patch with a temporary label
     in each block.
  C  like A, plus retarget_symbol_uses(): succeeds or dies with AssertionError.

exit 1 = results differ between runs (violation present), 0 = all identical.
"""
import json
import os
import subprocess
import sys

HERE = os.path.dirname(os.path.abspath(__file__))
ROOT = os.path.dirname(os.path.dirname(HERE))
sys.path.insert(0, os.path.join(ROOT, "src"))

N_RUNS = 16


def child():
    import logging

    import gtirb
    from gtirb_test_helpers import (
        add_code_block,
        add_data_block,
        add_data_section,
        add_edge,
        add_proxy_block,
        add_symbol,
        add_text_section,
        create_test_module,
    )

    import gtirb_rewriting
    from gtirb_rewriting import Constraints, Patch, RewritingContext

    logging.disable(logging.CRITICAL)

    def patch(asm):
        return Patch.from_function(lambda ctx: asm, Constraints())

    def module(with_addresses):
        ir, m = create_test_module(
            gtirb.Module.FileFormat.ELF, gtirb.Module.ISA.X64
        )
        _, tbi = add_text_section(m, address=0x1000 if with_addresses else None)
        code = add_code_block(tbi, b"\xc3")  # ret
        add_edge(ir.cfg, code, add_proxy_block(m), gtirb.Edge.Type.Return)
        _, dbi = add_data_section(m, address=0x1001 if with_addresses else None)
        data = add_data_block(dbi, b"\x01\x02\x03\x04")
        return ir, m, code, data

    out = {}

    # --- A: one nop makes .text run into .data -> exit layout
    ir, m, code, data = module(True)
    ctx = RewritingContext(m, [])
    ctx.insert_at(code, 0, patch("nop"))
    ctx.apply()
    out["A"] = {s.name: s.address for s in m.sections}

    # --- B: no addresses on input -> entry layout decides the patch numbering
    ir, m, code, data = module(False)
    ctx = RewritingContext(m, [])
    ctx.insert_at(code, 0, patch("nop\n.L_x:\nnop"))
    ctx.insert_at(data, 0, patch(".byte 7\n.L_x:\n.byte 8"))
    ctx.apply()
    out["B"] = {
        s.name: s.referent.section.name
        for s in m.symbols
        if s.name.startswith(".L_x")
    }

    # --- C: A + a symbol retarget
    ir, m = create_test_module(
        gtirb.Module.FileFormat.ELF, gtirb.Module.ISA.X64
    )
    _, tbi = add_text_section(m, address=0x1000)
    b0 = add_code_block(tbi, b"\xe9\0\0\0\0")  # jmp A
    b1 = add_code_block(tbi, b"\xc3")  # A: ret
    b2 = add_code_block(tbi, b"\xc3")  # B: ret
    sym_a = add_symbol(m, "A", b1)
    sym_b = add_symbol(m, "B", b2)
    tbi.symbolic_expressions[1] = gtirb.SymAddrConst(0, sym_a)
    m.aux_data["symbolicExpressionSizes"].data[gtirb.Offset(tbi, 1)] = 4
    add_edge(ir.cfg, b0, b1, gtirb.Edge.Type.Branch)
    add_edge(ir.cfg, b1, add_proxy_block(m), gtirb.Edge.Type.Return)
    add_edge(ir.cfg, b2, add_proxy_block(m), gtirb.Edge.Type.Return)
    _, dbi = add_data_section(m, address=0x1000 + tbi.size)
    add_data_block(dbi, b"\x01\x02\x03\x04")
    ctx = RewritingContext(m, [])
    ctx.insert_at(b1, 0, patch("nop"))
    ctx.retarget_symbol_uses(sym_a, sym_b)
    try:
        ctx.apply()
        out["C"] = "ok, jmp now targets %s" % tbi.symbolic_expressions[1].symbol.name
    except AssertionError:
        out["C"] = "AssertionError in retarget._sym_expr_access_type"

    print(json.dumps(out, sort_keys=True))


def main():
    results = []
    for seed in range(N_RUNS):
        env = dict(os.environ)
        env["PYTHONHASHSEED"] = str(seed)
        env["PYTHONPATH"] = os.pathsep.join(
            [os.path.join(ROOT, "src"), env.get("PYTHONPATH", "")]
        )
        r = subprocess.run(
            [sys.executable, os.path.abspath(__file__), "--child"],
            env=env,
            capture_output=True,
            text=True,
        )
        if r.returncode != 0:
            print("child failed:\n" + r.stderr)
            return 2
        results.append(json.loads(r.stdout.strip().splitlines()[-1]))

    violated = False
    for part, what, want in (
        ("A", "section addresses after inserting one nop",
         "one address map, the same in every run"),
        ("B", "section that owns each temporary label (address-less input)",
         "the same label -> block assignment in every run"),
        ("C", "outcome of apply() with a symbol retarget",
         "the same outcome in every run"),
    ):
        distinct = {}
        for r in results:
            key = json.dumps(r[part], sort_keys=True)
            distinct[key] = distinct.get(key, 0) + 1
        print("part %s: %s" % (part, what))
        print("   property requires: %s" % want)
        for key, n in sorted(distinct.items()):
            print("   observed in %2d/%d runs: %s" % (n, N_RUNS, key))
        if len(distinct) > 1:
            violated = True

    if violated:
        print("VIOLATION: identical input, different modules (C11)")
        return 1
    print("all runs identical")
    return 0


if __name__ == "__main__":
    if "--child" in sys.argv:
        child()
    else:
        sys.exit(main())
