#!/usr/bin/env python
"""
C05 finding 2: an address-valued symbol that points into the middle of a block
+ a deletion that covers that address => block with a negative offset, the IR
can no longer be saved.

The input contains NO overlapping and NO zero-sized blocks.  The zero-sized
label block is created by apply() itself (prepare_for_rewriting ->
gtirb_layout.assign_integral_symbols).

Run:  cd /repo && PYTHONPATH=/repo/src /venv/bin/python hunt2/2/demo.py
Exit status 1 = violation present, 0 = fixed.
"""
import io
import sys

import gtirb
from gtirb_test_helpers import (
    add_data_block,
    add_data_section,
    add_symbol,
    create_test_module,
)

import gtirb_rewriting


def build():
    ir, m = create_test_module(
        gtirb.Module.FileFormat.ELF, gtirb.Module.ISA.X64
    )
    _, bi = add_data_section(m, address=0x4000)
    d1 = add_data_block(bi, bytes(range(8)))  # [0x4000, 0x4008)
    d2 = add_data_block(bi, b"\xaa\xbb\xcc\xdd")  # [0x4008, 0x400c)
    add_symbol(m, "d1", d1)
    add_symbol(m, "d2", d2)
    # integral symbol pointing at byte 3 of d1
    mid = gtirb.Symbol("mid", payload=0x4003, module=m)
    return ir, m, bi, d1, d2, mid


def check(title, ir, m, bi):
    bad = False
    print(title)
    print("  interval: size=%d contents=%s" % (bi.size, bytes(bi.contents).hex()))
    for b in sorted(m.byte_blocks, key=lambda b: (b.offset, b.size)):
        inside = 0 <= b.offset and b.offset + b.size <= b.byte_interval.size
        print(
            "  %-9s offset=%2d size=%d symbols=%s%s"
            % (
                type(b).__name__,
                b.offset,
                b.size,
                sorted(s.name for s in b.references),
                "" if inside else "   <-- outside its byte interval",
            )
        )
        bad |= not inside
    try:
        ir.save_protobuf_file(io.BytesIO())
        print("  save_protobuf: ok")
    except Exception as ex:
        print("  save_protobuf: FAILED: %s: %s" % (type(ex).__name__, ex))
        bad = True
    return bad


bad = False

# (a) delete bytes 2..5 of d1; 'mid' (byte 3) lies inside the deleted range
ir, m, bi, d1, d2, mid = build()
ctx = gtirb_rewriting.RewritingContext(m, [])
ctx.delete_at(d1, 2, 4)
ctx.apply()
bad |= check("(a) delete_at(d1, 2, 4)", ir, m, bi)
print("  required: d1=[0,4) d2=[4,8), label block of 'mid' at offset 2 (where the")
print("            deleted bytes were), every block inside [0,8], IR serializable")
print()

# (b) delete d1 completely
ir, m, bi, d1, d2, mid = build()
ctx = gtirb_rewriting.RewritingContext(m, [])
ctx.delete_at(d1, 0, d1.size)
ctx.apply()
bad |= check("(b) delete_at(d1, 0, 8)", ir, m, bi)
print("  required: d2=[0,4), the labels d1/mid at offset 0, IR serializable")

sys.exit(1 if bad else 0)
