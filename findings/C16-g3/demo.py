#!/usr/bin/env python
"""
C16 finding 3: the leaf status of a function is only recorded for functions
that are in the `functions` list of the RewritingContext.  If a first
rewriting is done without function information (RewritingContext(m, []), or
with a list that does not contain the function) and inserts a call into a
leaf function, the next RewritingContext sees the *inserted* call, records
the function as non-leaf in leafFunctions, drops the red-zone skip and its
prologue pushes straight into the red zone the function is using.

Run:  cd /repo && PYTHONPATH=/repo/src /venv/bin/python hunt2/3/demo.py
Exit status 1 while the violation is present, 0 once fixed.
"""
import logging
import sys

import capstone
import gtirb
import gtirb_functions
from gtirb_test_helpers import (
    add_code_block,
    add_edge,
    add_proxy_block,
    add_symbol,
    add_text_section,
    create_test_module,
    set_all_blocks_alignment,
)

sys.path.insert(0, "/repo/tests")
from helpers import add_function_object  # noqa: E402

from gtirb_rewriting import Constraints, Patch, RewritingContext  # noqa: E402

logging.disable(logging.CRITICAL)

ir, m = create_test_module(gtirb.Module.FileFormat.ELF, gtirb.Module.ISA.X64)
_, bi = add_text_section(m, address=0x1000)
add_symbol(m, "foo", add_proxy_block(m))
# leaf:  mov %rdi, -8(%rsp)      <- a leaf function using its red zone
#        mov -8(%rsp), %rax
#        ret
b1 = add_code_block(bi, b"\x48\x89\x7c\x24\xf8")
b2 = add_code_block(bi, b"\x48\x8b\x44\x24\xf8\xc3")
add_edge(ir.cfg, b1, b2, gtirb.Edge.Type.Fallthrough)
add_function_object(m, "leaf", b1, {b2})
set_all_blocks_alignment(m, 1)


class P(Patch):
    def __init__(self, asm, cons):
        super().__init__(cons)
        self.asm = asm

    def get_asm(self, ctx):
        return self.asm


# Rewriting 1: functionless use of the API (insert_at needs no function).
rc = RewritingContext(m, [])
rc.insert_at(b1, 0, P("call foo", Constraints(clobbers_registers={"rax"})))
rc.apply()

# Rewriting 2: ordinary use with the module's functions.
funcs = gtirb_functions.Function.build_functions(m)
rc = RewritingContext(m, funcs)
rc.insert_at(b2, 0, P("nop", Constraints(clobbers_registers={"rcx"})))
rc.apply()

print("leafFunctions:", {str(k)[:8]: v for k, v in m.aux_data["leafFunctions"].data.items()})

# ---- interpret the result --------------------------------------------------
md = capstone.Cs(capstone.CS_ARCH_X86, capstone.CS_MODE_64)
md.detail = True
X = capstone.x86
SP0 = 0x7FFF0008
reg = {"rsp": SP0, "rdi": 0xD1D1D1D1, "rax": 0xAAAA, "rcx": 0xCCCC}
mem = {}
events = []
in_function_body = False
for ins in md.disasm(bytes(bi.contents), 0x1000):
    mn, ops = ins.mnemonic, ins.operands
    print(f"    {ins.address:#x}: {mn} {ins.op_str}")
    if mn == "ret":
        break
    if mn == "lea":
        reg["rsp"] += ops[1].mem.disp
    elif mn == "push":
        reg["rsp"] -= 8
        mem[reg["rsp"]] = reg[ins.reg_name(ops[0].reg)]
        events.append((reg["rsp"] - SP0, in_function_body))
    elif mn == "pop":
        reg[ins.reg_name(ops[0].reg)] = mem[reg["rsp"]]
        reg["rsp"] += 8
    elif mn == "call":
        mem[reg["rsp"] - 8] = ins.address + ins.size  # callee returns at once
    elif mn == "mov" and ops[0].type == X.X86_OP_MEM:
        mem[reg["rsp"] + ops[0].mem.disp] = reg[ins.reg_name(ops[1].reg)]
        in_function_body = True  # from here on the red zone slot is live
    elif mn == "mov" and ops[1].type == X.X86_OP_MEM:
        reg[ins.reg_name(ops[0].reg)] = mem[reg["rsp"] + ops[1].mem.disp]
    elif mn == "nop":
        pass
    else:
        raise SystemExit(f"unexpected {mn} {ins.op_str}")

red_zone_writes = [off for off, live in events if live and -128 <= off < 0]
print(f"function returns rax = {reg['rax']:#x}; required {reg['rdi']:#x} (its argument, kept in the red zone)")
print("prologue writes relative to the function's rsp while the red zone is live:", red_zone_writes)
if reg["rax"] != reg["rdi"] or red_zone_writes:
    print("VIOLATION: prologue of the second patch wrote inside the red zone of a leaf function")
    sys.exit(1)
print("OK")
sys.exit(0)
