"""
C16 finding 1: align_stack=True, clobbers_flags=False -> the generated
prologue executes `and $-0x10, %rsp`, which overwrites ZF/SF/PF/CF/OF, and
nothing puts the flags back.  A patch that does not touch the flags (and says
so) therefore is NOT transparent: a cmp/jcc (or cmp/setcc) pair that straddles
the insertion point changes behaviour.

    cd /repo && PYTHONPATH=/repo/src /venv/bin/python hunt/1/demo.py

exit status 1 == violation present.
"""
import ctypes
import mmap
import platform
import sys

import capstone
import gtirb
from gtirb_test_helpers import (
    add_code_block,
    add_text_section,
    create_test_module,
)

sys.path.insert(0, "/repo/tests")
from helpers import add_function_object  # noqa: E402

import gtirb_rewriting  # noqa: E402
from gtirb_rewriting import Constraints  # noqa: E402

# f:  xor %eax,%eax ; cmp %eax,%eax ; <-- patch goes here --> sete %al ; ret
# f() == 1 because cmp sets ZF.
ORIG = bytes.fromhex("31c0" "39c0" "0f94c0" "c3")
INSERT_AT = 4


def rewrite(isa, fmt, constraints):
    _, m = create_test_module(fmt, isa)
    _, bi = add_text_section(m, address=0x1000)
    b = add_code_block(bi, ORIG)
    func = add_function_object(m, "f", b)
    ctx = gtirb_rewriting.RewritingContext(m, [func])

    class NopPatch(gtirb_rewriting.Patch):
        def get_asm(self, ctx):
            return "nop"  # does not touch flags, registers or the stack

    ctx.insert_at(b, INSERT_AT, NopPatch(constraints))
    ctx.apply()
    return bytes(bi.contents)


def flag_writers_not_undone(code, mode):
    """
    Independent static oracle: walk the straight-line listing, keep a stack of
    'saved flags' (pushf/popf) and report the instructions of the generated
    code that modify arithmetic flags and are not undone by a later popf.
    """
    md = capstone.Cs(capstone.CS_ARCH_X86, mode)
    md.detail = True
    insns = list(md.disasm(code, 0))
    # generated code == everything between `cmp` and `sete`, minus the nop
    start = next(i for i, x in enumerate(insns) if x.mnemonic == "cmp") + 1
    end = next(i for i, x in enumerate(insns) if x.mnemonic == "sete")
    dirty = []
    saved = []
    for insn in insns[start:end]:
        if insn.mnemonic.startswith("pushf"):
            saved.append(list(dirty))
        elif insn.mnemonic.startswith("popf"):
            dirty = saved.pop()
        elif insn.mnemonic == "nop":
            pass
        else:
            _, written = insn.regs_access()
            if any(insn.reg_name(r) in ("rflags", "eflags") for r in written):
                dirty.append(f"{insn.mnemonic} {insn.op_str}")
    return [f"{x.mnemonic} {x.op_str}".strip() for x in insns], dirty


def run_native(code):
    if platform.machine() not in ("x86_64", "AMD64"):
        return None
    buf = mmap.mmap(
        -1, 4096, prot=mmap.PROT_READ | mmap.PROT_WRITE | mmap.PROT_EXEC
    )
    buf.write(code)
    addr = ctypes.addressof(ctypes.c_char.from_buffer(buf))
    return ctypes.CFUNCTYPE(ctypes.c_uint64)(addr)()


def main():
    ELF, PE = gtirb.Module.FileFormat.ELF, gtirb.Module.FileFormat.PE
    X64, IA32 = gtirb.Module.ISA.X64, gtirb.Module.ISA.IA32
    bad = False
    for name, isa, fmt, mode in (
        ("x86-64 ELF", X64, ELF, capstone.CS_MODE_64),
        ("x86-64 PE", X64, PE, capstone.CS_MODE_64),
        ("IA32 PE", IA32, PE, capstone.CS_MODE_32),
    ):
        for cons in (
            Constraints(align_stack=True),  # the violating input
            Constraints(align_stack=True, clobbers_flags=True),  # control
        ):
            code = rewrite(isa, fmt, cons)
            listing, dirty = flag_writers_not_undone(code, mode)
            native = run_native(code) if isa == X64 else None
            print(
                f"== {name}: Constraints(align_stack=True, "
                f"clobbers_flags={cons.clobbers_flags})"
            )
            print("   " + "; ".join(listing))
            print(f"   flag-writing generated instructions never undone: "
                  f"{dirty or 'none'}")
            if native is not None:
                print(f"   native run of f(): returned {native}, the "
                      f"unpatched function returns 1")
            if not cons.clobbers_flags:
                violated = bool(dirty) or native not in (None, 1)
                print(
                    "   required: the patch body is a nop and declares it "
                    "does not clobber the flags, so the flags after the "
                    "epilogue must equal the flags before the prologue"
                )
                print(f"   VIOLATION: {violated}")
                bad |= violated
            else:
                assert not dirty and native in (None, 1), "control failed"
    return 1 if bad else 0


if __name__ == "__main__":
    sys.exit(main())
