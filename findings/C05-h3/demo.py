#!/usr/bin/env python
"""
C05 finding 3: deleting bytes at the start of a block that shares its offset
with a (documented, library-produced) zero-sized block gives the zero-sized
block a NEGATIVE offset; the IR can no longer be saved.

The zero-sized block is produced by the library itself in a first apply()
(doc/Deletion.md: "The block has incoming control flow, but ... the subsequent
block is not a code block"). The second apply() then breaks it.

Whether the bug fires depends on the iteration order of `ByteInterval.blocks`
(a set of objects hashed by id), so the scenario is repeated on fresh modules.

Run: cd /repo && PYTHONPATH=/repo/src /venv/bin/python hunt/3/demo.py
Exits 1 when the violation is present, 0 otherwise.
"""
import io
import sys

import gtirb
import gtirb_rewriting
from gtirb_test_helpers import (
    add_code_block,
    add_data_block,
    add_edge,
    add_symbol,
    add_text_section,
    create_test_module,
)

TRIALS = 40


def scenario():
    ir, m = create_test_module(
        gtirb.Module.FileFormat.ELF, gtirb.Module.ISA.X64
    )
    _, bi = add_text_section(m, address=0x1000)
    target_sym = add_symbol(m, "target")
    c0 = add_code_block(bi, b"\x90\x90")  # target: nop; nop   [0,2)
    target_sym.referent = c0
    d = add_data_block(bi, b"\x01\x02\x03\x04")  # data            [2,6)
    add_symbol(m, "data", d)
    c9 = add_code_block(  # jmp target                            [6,8)
        bi, b"\xeb\x00", {(1, 1): gtirb.SymAddrConst(0, target_sym)}
    )
    add_edge(ir.cfg, c9, c0, gtirb.Edge.Type.Branch)

    # ---- first rewrite: delete all of `target` -------------------------
    ctx = gtirb_rewriting.RewritingContext(m, [])
    ctx.delete_at(c0, 0, c0.size)
    ctx.apply()
    # documented outcome: c0 stays as a zero-sized block in front of `d`
    assert c0.byte_interval is bi and c0.size == 0 and c0.offset == 0
    assert d.offset == 0 and d.size == 4
    ir.save_protobuf_file(io.BytesIO())  # still fine

    # ---- second rewrite: delete the first byte of the data block -------
    ctx = gtirb_rewriting.RewritingContext(m, [])
    ctx.delete_at(d, 0, 1)
    ctx.apply()

    state = {
        "target(zero-sized)": (c0.offset, c0.size),
        "data": (d.offset, d.size),
        "jmp": (c9.offset, c9.size),
        "interval size": bi.size,
    }
    problems = []
    for blk in bi.blocks:
        if blk.offset < 0 or blk.offset + blk.size > bi.size:
            problems.append(
                f"block [{blk.offset},{blk.offset + blk.size}) lies outside "
                f"its interval of size {bi.size}"
            )
    try:
        ir.save_protobuf_file(io.BytesIO())
    except Exception as e:  # noqa: BLE001
        problems.append(f"save_protobuf_file failed: {type(e).__name__}: {e}")
    return state, problems


bad = 0
shown_good = shown_bad = False
for i in range(TRIALS):
    state, problems = scenario()
    if problems:
        bad += 1
        if not shown_bad:
            shown_bad = True
            print(f"trial {i}: after the second apply(): {state}")
            for p in problems:
                print("   PROBLEM:", p)
    elif not shown_good:
        shown_good = True
        print(f"trial {i}: after the second apply(): {state}   (fine)")

print()
print(f"{bad} of {TRIALS} identical trials ended with a block outside its interval")
print(
    "property C05 requires: blocks lie inside their intervals and the IR "
    "survives a save/load round trip"
)
print(
    "expected in every trial: target (0,0), data (0,3), jmp (3,2), interval "
    "size 5 - deleting a byte *behind* the zero-sized block must not move it"
)
if bad:
    print("VIOLATION PRESENT")
    sys.exit(1)
print("no violation")
sys.exit(0)
