#!/usr/bin/env python
"""
C17 finding 2: CallPatch interpolates the callee's name (and the names of
symbol arguments) into the assembly text without quoting it. A callee whose
name is not a bare assembler identifier cannot be called at all (every MSVC
C++ name on PE starts with '?'), and a callee whose name is spelled like a
register is silently turned into an *indirect call through that register*.

Run:  cd /repo && PYTHONPATH=/repo/src /venv/bin/python hunt/2/demo.py
Exits 1 while the violation is present, 0 once every case passes.
"""
import logging
import sys

sys.path.insert(0, "/repo/tests")

import capstone
import gtirb
from gtirb_test_helpers import (
    add_code_block,
    add_proxy_block,
    add_symbol,
    add_text_section,
    create_test_module,
)
from helpers import add_function_object

from gtirb_rewriting import RewritingContext
from gtirb_rewriting.patches import CallPatch

logging.disable(logging.CRITICAL)

X64, IA32, ARM64 = (
    gtirb.Module.ISA.X64,
    gtirb.Module.ISA.IA32,
    gtirb.Module.ISA.ARM64,
)
ELF, PE = gtirb.Module.FileFormat.ELF, gtirb.Module.FileFormat.PE


def insert_call(isa, ff, callee_name):
    """
    Module with one function `main: nop; ret` and an external callee;
    inserts CallPatch(callee, [5]) at main+0. Returns a description of the
    call instruction that ended up in the module.
    """
    _, m = create_test_module(ff, isa)
    _, bi = add_text_section(m, address=0x1000)
    if isa == ARM64:
        code = b"\x1F\x20\x03\xD5" + b"\xc0\x03\x5f\xd6"
    else:
        code = b"\x90\xc3"
    b = add_code_block(bi, code)
    main = add_symbol(m, "main", b)
    callee = add_symbol(m, callee_name, add_proxy_block(m))
    func = add_function_object(m, main, b)

    ctx = RewritingContext(m, [func])
    ctx.insert_at(b, 0, CallPatch(callee, [5]))
    ctx.apply()

    md = {
        X64: capstone.Cs(capstone.CS_ARCH_X86, capstone.CS_MODE_64),
        IA32: capstone.Cs(capstone.CS_ARCH_X86, capstone.CS_MODE_32),
        ARM64: capstone.Cs(capstone.CS_ARCH_ARM64, capstone.CS_MODE_ARM),
    }[isa]
    calls = []
    for insn in md.disasm(bytes(bi.contents), 0):
        if insn.mnemonic in ("call", "bl", "blr"):
            target = None
            for off, expr in bi.symbolic_expressions.items():
                if insn.address <= off < insn.address + insn.size:
                    target = expr.symbol
            calls.append((f"{insn.mnemonic} {insn.op_str}", target))
    assert len(calls) == 1, calls
    text, target = calls[0]
    if target is callee:
        return True, f"`{text}` with a symbolic operand -> {callee_name}"
    return False, (
        f"`{text}` with "
        + (f"symbolic operand {target.name}" if target else "NO symbolic operand")
    )


CASES = [
    (X64, PE, "?hook@@YAXH@Z", "MSVC-mangled `void hook(int)`"),
    (IA32, PE, "?hook@@YAXH@Z", "MSVC-mangled `void hook(int)`"),
    (X64, ELF, "rbx", "function named like a register"),
    (X64, PE, "rax", "function named like a register"),
    (IA32, PE, "eax", "function named like a register"),
    (X64, ELF, "hook", "control"),
    (X64, PE, "hook", "control"),
    (ARM64, ELF, "hook", "control"),
]

violations = 0
for isa, ff, name, desc in CASES:
    try:
        ok, what = insert_call(isa, ff, name)
    except Exception as exc:  # noqa: BLE001
        first = (str(exc).splitlines() or [""])[0]
        ok, what = False, f"{type(exc).__name__}: {first}"
    print(
        f"{'ok' if ok else 'VIOLATION':9} {isa.name}/{ff.name} callee "
        f"{name!r} ({desc})"
    )
    print(f"            observed: {what}")
    if not ok:
        violations += 1
        print(
            f"            required: a direct call whose target is the symbol "
            f"{name!r}, with the argument 5 in the first argument slot"
        )

print()
if violations:
    print(
        f"{violations} case(s) violate C17 ('for any callee ... executes the "
        "call'): the emitted code either cannot be assembled or calls through "
        "a register instead of calling the callee."
    )
    sys.exit(1)
print("all cases pass")
sys.exit(0)
