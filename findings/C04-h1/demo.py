#!/usr/bin/env python
"""
C04 finding 1: interval-keyed cfiDirectives entries do not travel with their
bytes (and survive the deletion of their bytes).

Run:  cd /repo && PYTHONPATH=/repo/src /venv/bin/python hunt/1/demo.py
Exit status 1 = violation present, 0 = fixed.
"""
import sys

import gtirb
from gtirb_test_helpers import (
    add_code_block,
    add_edge,
    add_proxy_block,
    add_text_section,
    create_test_module,
)

sys.path.insert(0, "/repo/tests")
from helpers import add_function_object, literal_patch  # noqa: E402

import gtirb_rewriting  # noqa: E402
from gtirb_rewriting import RewritingContext  # noqa: E402

NULL = gtirb_rewriting._auxdata.NULL_UUID


def build():
    """
    f:                       offset  bytes
        push %rax            0       50
        nop                  1       90      <- annotated boundary/byte
        pop %rax             2       58
        ret                  3       c3
    One code block, one byte interval.  Every Offset-keyed table gets the
    same annotation twice: once keyed on the block, once keyed on the
    interval, both at displacement 1 (block.offset == 0).
    """
    ir, m = create_test_module(
        isa=gtirb.Module.ISA.X64, file_format=gtirb.Module.FileFormat.ELF
    )
    _, bi = add_text_section(m, address=0x1000)
    b = add_code_block(bi, b"\x50\x90\x58\xc3")
    add_edge(ir.cfg, b, add_proxy_block(m), gtirb.Edge.Type.Return)
    f = add_function_object(m, "f", b)

    m.aux_data["comments"].data[gtirb.Offset(bi, 1)] = "interval-keyed comment"
    m.aux_data["padding"].data[gtirb.Offset(bi, 1)] = 1
    cfi = m.aux_data["cfiDirectives"].data
    cfi[gtirb.Offset(b, 0)] = [(".cfi_startproc", [], NULL)]
    cfi[gtirb.Offset(b, 1)] = [(".cfi_def_cfa_offset", [16], NULL)]
    cfi[gtirb.Offset(b, 4)] = [(".cfi_endproc", [], NULL)]
    # the interval-keyed one under test
    cfi[gtirb.Offset(bi, 1)] = [(".cfi_offset", [3, -16], NULL)]
    return ir, m, bi, b, f


def interval_keyed(m, table):
    return {
        k.displacement: v
        for k, v in dict(m.aux_data[table].data).items()
        if isinstance(k.element_id, gtirb.ByteInterval)
    }


def block_keyed_abs(m, table):
    return {
        k.element_id.offset + k.displacement: v
        for k, v in dict(m.aux_data[table].data).items()
        if isinstance(k.element_id, gtirb.ByteBlock)
        and k.element_id.byte_interval is not None
    }


bad = False

# ---------------------------------------------------------------- scenario A
print("A. insert one nop at offset 0 (before the annotated byte)")
ir, m, bi, b, f = build()
ctx = RewritingContext(m, [f])
ctx.insert_at(b, 0, literal_patch("nop"))
ctx.apply()
print("   bytes           :", bytes(bi.contents).hex(), "(the annotated nop is now at 2)")
print("   comments (bi)   :", interval_keyed(m, "comments"), "  required {2: ...}")
print("   padding  (bi)   :", interval_keyed(m, "padding"), "  required {2: 1}")
print("   cfi (block, abs):", {k: [d[0] for d in v] for k, v in sorted(block_keyed_abs(m, "cfiDirectives").items())})
got = interval_keyed(m, "cfiDirectives")
print("   cfi (bi)        :", {k: [d[0] for d in v] for k, v in got.items()}, "  required {2: ['.cfi_offset']}")
assert interval_keyed(m, "comments") == {2: "interval-keyed comment"}
assert interval_keyed(m, "padding") == {2: 1}
assert block_keyed_abs(m, "cfiDirectives")[2][0][0] == ".cfi_def_cfa_offset"
if set(got) != {2}:
    print("   VIOLATION: the interval-keyed CFI directive stayed at displacement", sorted(got),
          "- it now annotates the `push %rax` boundary instead of the nop it was on")
    bad = True

# ---------------------------------------------------------------- scenario B
print("B. delete bytes [1, 4) (the annotated byte and everything after it)")
ir, m, bi, b, f = build()
ctx = RewritingContext(m, [f])
ctx.delete_at(b, 1, 3)
ctx.apply()
print("   bytes           :", bytes(bi.contents).hex(), " interval size", bi.size)
print("   comments (bi)   :", interval_keyed(m, "comments"), "  required {}")
print("   padding  (bi)   :", interval_keyed(m, "padding"), "  required {}")
got = interval_keyed(m, "cfiDirectives")
print("   cfi (bi)        :", {k: [d[0] for d in v] for k, v in got.items()}, "  required {}")
assert interval_keyed(m, "comments") == {}
assert interval_keyed(m, "padding") == {}
if got:
    print("   VIOLATION: the directive of a removed byte is still there", sorted(got))
    bad = True

# ---------------------------------------------------------------- scenario C
print("C. public split_byte_interval() on a two-block interval")
ir, m = create_test_module(
    isa=gtirb.Module.ISA.X64, file_format=gtirb.Module.FileFormat.ELF
)
_, bi = add_text_section(m, address=0x1000)
b1 = add_code_block(bi, b"\x90")
b2 = add_code_block(bi, b"\x90\xc3")
m.aux_data["comments"].data[gtirb.Offset(bi, 2)] = "on the ret"
m.aux_data["cfiDirectives"].data[gtirb.Offset(bi, 2)] = [
    (".cfi_def_cfa_offset", [8], NULL)
]
parts = gtirb_rewriting.split_byte_interval(bi)
print("   parts:", [(p.size, bytes(p.contents).hex()) for p in parts])
for t in ("comments", "cfiDirectives"):
    for k, v in dict(m.aux_data[t].data).items():
        el = k.element_id
        which = parts.index(el)
        inside = 0 <= k.displacement <= el.size
        print("   %-13s -> part %d displacement %d (part size %d)%s"
              % (t, which, k.displacement, el.size, "" if inside else "   <-- outside its byte interval"))
        if not inside:
            bad = True

print()
print("RESULT:", "property C04 violated" if bad else "ok")
sys.exit(1 if bad else 0)
