#!/usr/bin/env python
"""
C10 finding 2: an alignment requirement that held before a rewrite does not
hold after it when the aligned block is not the lowest aligned block of its
group of overlapping blocks.

Layout of .text (x86-64 ELF, one byte interval at 0x1000, all bytes 0x90):

    P  CodeBlock  [0, 14)
    A  CodeBlock  [14, 18)  alignment 2   (0x100e: holds)   } overlapping
    B  CodeBlock  [16, 18)  alignment 16  (0x1010: holds)   } group

One `nop` is inserted at the start of P (P is not part of the group and the
group itself is not modified).

Property (C10): "Alignment requirements that held before a rewrite ... hold
after it".  Both requirements can be met together (A = 0x101e, B = 0x1020,
i.e. 15 nops of padding after P), and join_byte_intervals is the code that is
responsible for re-establishing them.
"""
import sys

import gtirb
import gtirb_rewriting
from gtirb_test_helpers import add_text_section, create_test_module


def literal_patch(asm):
    @gtirb_rewriting.patch_constraints()
    def patch(ctx):
        return asm

    return gtirb_rewriting.Patch.from_function(patch)


ir, m = create_test_module(gtirb.Module.FileFormat.ELF, gtirb.Module.ISA.X64)
_, bi = add_text_section(m, address=0x1000)
bi.contents = b"\x90" * 18
bi.size = 18
P = gtirb.CodeBlock(offset=0, size=14)
A = gtirb.CodeBlock(offset=14, size=4)
B = gtirb.CodeBlock(offset=16, size=2)
for blk in (P, A, B):
    blk.byte_interval = bi
alignment = m.aux_data["alignment"].data
alignment[A] = 2
alignment[B] = 16

print("before: A at %#x (align 2), B at %#x (align 16)" % (A.address, B.address))
assert A.address % 2 == 0 and B.address % 16 == 0

ctx = gtirb_rewriting.RewritingContext(m, [])
ctx.insert_at(P, 0, literal_patch("nop"))
ctx.apply()

print("after:  A at %#x (align %d), B at %#x (align %d)"
      % (A.address, alignment[A], B.address, alignment[B]))
print("        interval %#x size %d" % (bi.address, bi.size))
print("required: A.address % 2 == 0 and B.address % 16 == 0")
bad = [(n, b) for n, b in (("A", A), ("B", B)) if b.address % alignment[b]]
if bad:
    for n, b in bad:
        print("observed: %s at %#x is not aligned to %d" % (n, b.address, alignment[b]))
    print("VIOLATION")
    sys.exit(1)
print("ok")
sys.exit(0)
