"""
C12 / finding 2: the memory operand of an *indirect* call/jump through an
external symbol (`call *ext(%rip)`) gets a PLT attribute nobody wrote.

Run:  cd /repo && PYTHONPATH=/repo/src /venv/bin/python hunt/2/demo.py
Exits 1 while the violation is present, 0 once fixed.
"""
import sys

import gtirb
from gtirb_test_helpers import add_proxy_block, add_symbol, create_test_module

import gtirb_rewriting

Attr = gtirb.SymbolicExpression.Attribute


def assemble(text):
    _, m = create_test_module(
        gtirb.Module.FileFormat.ELF, gtirb.Module.ISA.X64, binary_type=["DYN"]
    )
    # `ext` is an external symbol (e.g. a function pointer variable that lives
    # in another shared object): its referent is a ProxyBlock.
    add_symbol(m, "ext", add_proxy_block(m))
    asm = gtirb_rewriting.Assembler(m)
    asm.assemble(text, gtirb_rewriting.X86Syntax.ATT)
    return asm.finalize()


def describe(text):
    res = assemble(text)
    sec = res.text_section
    ((off, expr),) = sec.symbolic_expressions.items()
    edges = sorted(
        (
            e.label.type.name,
            "direct" if e.label.direct else "indirect",
            type(e.target).__name__
            + ("(fresh)" if e.target in res.proxies else ""),
        )
        for e in res.cfg.out_edges(sec.blocks[0])
    )
    print(f"{text}")
    print(f"  bytes      : {sec.data.hex()}")
    print(f"  edges      : {edges}")
    print(
        f"  expression : @{off} size={sec.symbolic_expression_sizes[off]} "
        f"symbol={expr.symbol.name} addend={expr.offset} "
        f"attributes={sorted(a.name for a in expr.attributes)}"
    )
    return off, expr


bad = []
# reference: the very same memory operand in a non-branch instruction
_, ref = describe("movq ext(%rip), %rax")
for text, exp_off in (("call *ext(%rip)", 2), ("jmp *ext(%rip)", 2)):
    off, expr = describe(text)
    if (
        off != exp_off
        or expr.symbol.name != "ext"
        or expr.offset != 0
        or set(expr.attributes) != set()
    ):
        bad.append((text, sorted(a.name for a in expr.attributes)))

print()
print(
    "property requires: the symbolic operand of `call *ext(%rip)` is the "
    "memory displacement `ext` - symbol ext, addend 0, size 4, at offset 2, "
    "and *no* attributes (none were written; it is a data reference, the "
    "pointer stored at ext is what gets called).  {PLT} turns it into "
    "`call *ext@PLT(%rip)`, i.e. 'load 8 bytes of the PLT stub's code and "
    "jump there'."
)
if not bad:
    print("OK: indirect transfers keep their memory operand un-decorated")
    sys.exit(0)
for text, attrs in bad:
    print(f"VIOLATION: {text!r}: attributes {attrs}, expected []")
sys.exit(1)
