"""
C12 / finding 3: the MIPS32 unconditional branch `b label` is given the CFG of
a conditional jump (conditional Branch edge + Fallthrough edge).

Run:  cd /repo && PYTHONPATH=/repo/src /venv/bin/python hunt/3/demo.py
Exits 1 while the violation is present, 0 once fixed.
"""
import sys

import capstone
import gtirb
from gtirb_test_helpers import create_test_module

import gtirb_rewriting

ET = gtirb.Edge.Type

ASM = """
.set noreorder
top:
    b top
    nop
"""

_, m = create_test_module(
    gtirb.Module.FileFormat.ELF, gtirb.Module.ISA.MIPS32, binary_type=["DYN"]
)
asm = gtirb_rewriting.Assembler(m)
asm.assemble(ASM)
res = asm.finalize()
sec = res.text_section

md = capstone.Cs(
    capstone.CS_ARCH_MIPS, capstone.CS_MODE_MIPS32 | capstone.CS_MODE_BIG_ENDIAN
)
print("assembly:", " ; ".join(l.strip() for l in ASM.strip().splitlines()))
print("bytes   :", sec.data.hex())
decoded = [(i.address, i.mnemonic, i.op_str) for i in md.disasm(sec.data, 0)]
print("capstone:", decoded)

names = {b: f"block{i}[{b.offset}:{b.offset + b.size}]" for i, b in enumerate(sec.blocks)}
print("blocks  :", list(names.values()))
b0 = sec.blocks[0]
outs = sorted(
    (
        e.label.type.name,
        "conditional" if e.label.conditional else "unconditional",
        names.get(e.target, repr(e.target)),
    )
    for e in res.cfg.out_edges(b0)
)
print("out-edges of the block ending in `b top`:", outs)
print()
print(
    "property requires: `b` is a jump (capstone decodes the bytes as "
    "`b`, the MIPS unconditional branch), so its block ends with exactly one "
    "edge: Branch, unconditional, to the block of `top` - and no Fallthrough."
)

assert decoded[0][1] == "b", decoded
assert b0.offset == 0 and b0.size == 4

expected = [("Branch", "unconditional", names[b0])]
if outs == expected:
    print("OK")
    sys.exit(0)
print(f"VIOLATION: got {outs}, expected {expected}")
sys.exit(1)
