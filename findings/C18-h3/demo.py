"""
C18 finding 3: a perfectly valid retarget crashes with a bare AssertionError
when the block that holds the use of A sits at address 0.

Address 0 is what RewritingContext.apply() itself produces for a module that
has no addresses (supported since 0.3.0: "Layout is now performed before and
after rewriting, allowing for rewriting of modules without addresses"): the
layout puts the first block at 0.  It is also what relocatable objects and
explicitly zero-based sections have.

    b1: call A     <- first block of the module
    b2: ret
    a:  ud2  (A)
    b:  ud2  (B)

Retarget A -> B.  Required: operand becomes B, call edge b1 -> b.

Run:  cd /repo && PYTHONPATH=/repo/src /venv/bin/python hunt/3/demo.py
Exit status 1 = violation present, 0 = fixed.
"""
import sys
import traceback

import gtirb
from gtirb_capstone.instructions import GtirbInstructionDecoder
from gtirb_test_helpers import (
    add_code_block,
    add_data_block,
    add_data_section,
    add_edge,
    add_proxy_block,
    add_symbol,
    add_text_section,
    create_test_module,
)

from gtirb_rewriting import RewritingContext
from gtirb_rewriting._modify import retarget_symbol_uses


def build(address, pad):
    ir, m = create_test_module(
        gtirb.Module.FileFormat.ELF, gtirb.Module.ISA.X64
    )
    _, bi = add_text_section(m, address=address)
    A = add_symbol(m, "A")
    B = add_symbol(m, "B")
    if pad:
        add_code_block(bi, b"\x90")  # control: push b1 away from address 0
    b1 = add_code_block(
        bi, b"\xE8\x00\x00\x00\x00", {(1, 4): gtirb.SymAddrConst(0, A)}
    )
    b2 = add_code_block(bi, b"\xC3")
    a = add_code_block(bi, b"\x0F\x0B")
    b = add_code_block(bi, b"\x0F\x0B")
    A.referent = a
    B.referent = b
    add_edge(ir.cfg, b1, b2, gtirb.EdgeType.Fallthrough)
    add_edge(ir.cfg, b1, a, gtirb.EdgeType.Call)
    add_edge(ir.cfg, b2, add_proxy_block(m), gtirb.EdgeType.Return)
    return ir, m, A, B, b1, b


def outcome(ir, m, A, B, b1, b, run):
    try:
        run()
    except Exception as e:  # noqa: BLE001
        tb = traceback.extract_tb(e.__traceback__)[-1]
        return False, f"{type(e).__name__} at {tb.filename.split('/')[-1]}:{tb.lineno} ({tb.line})"
    exprs = [
        e for i in m.byte_intervals for e in i.symbolic_expressions.values()
    ]
    ok = [e.symbol for e in exprs] == [B] and any(
        e.target is b and e.label.type == gtirb.EdgeType.Call
        for e in b1.outgoing_edges
    )
    return ok, "operand=%s, call edge -> %s" % (
        exprs[0].symbol.name,
        "B's block" if ok else "?",
    )


failed = 0
cases = [
    ("RewritingContext, module without addresses (laid out from 0)", None, False, True),
    ("RewritingContext, module without addresses, nop block first (control)", None, True, True),
    ("retarget_symbol_uses, text section at address 0", 0, False, False),
    ("retarget_symbol_uses, text section at address 0x1000 (control)", 0x1000, False, False),
]
for title, address, pad, use_rwc in cases:
    ir, m, A, B, b1, b = build(address, pad)

    def run():
        if use_rwc:
            ctx = RewritingContext(m, [])
            ctx.retarget_symbol_uses(A, B)
            ctx.apply()
        else:
            retarget_symbol_uses(m, {A: B}, GtirbInstructionDecoder(m.isa))

    ok, what = outcome(ir, m, A, B, b1, b, run)
    print(f"== {title}")
    print(f"   b1 address after: {b1.address}")
    print(f"   observed: {what}")
    print("   required: operand=B, call edge -> B's block")
    if not ok:
        failed += 1

# the same assertion also guards data blocks
ir, m = create_test_module(gtirb.Module.FileFormat.ELF, gtirb.Module.ISA.X64)
_, dbi = add_data_section(m, address=0)
A = add_symbol(m, "A", add_proxy_block(m))
B = add_symbol(m, "B", add_proxy_block(m))
add_data_block(dbi, b"\0" * 8, {(0, 8): gtirb.SymAddrConst(0, A)})
try:
    retarget_symbol_uses(m, {A: B}, GtirbInstructionDecoder(m.isa))
    print("== data word at address 0: observed", dbi.symbolic_expressions[0].symbol.name, "; required B")
except AssertionError:
    print("== data word `.quad A` at address 0: observed AssertionError; required `.quad B`")
    failed += 1

if failed:
    print(f"VIOLATION: {failed} valid retarget request(s) crashed with AssertionError")
    sys.exit(1)
print("ok")
sys.exit(0)
