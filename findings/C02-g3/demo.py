"""
C02 finding 3: in a chain of adjacent whole-block deletions the labels of a
block deleted WITHOUT retarget_to_proxy are turned into references to an
external proxy when the following block is deleted WITH retarget_to_proxy
(e.g. by delete_function).

Input (.text):   tbl: .byte 1, 2      (data block, plain label `tbl`)
                 f:   ret             (function f, one block)
                 g:   nop             (function g, one block)
Operations:      ctx.delete_at(tbl_block, 0, 2)   # plain deletion
                 ctx.delete_function(f)           # retarget_to_proxy=True

Required: `tbl` slides to the next position of the listing (in front of g's
nop) and stays a defined label; only f's own label becomes a proxy reference.

Control: the same two deletions with the blocks laid out as  f, tbl, g  keep
`tbl` defined (in front of g) - the result depends on the address order only.

Run:  cd /repo && PYTHONPATH=/repo/src /venv/bin/python hunt2/3/demo.py
Exit status 1 = violation present, 0 = fixed.
"""
import os
import sys

sys.path.insert(
    0, os.path.join(os.path.dirname(os.path.abspath(__file__)), "..", "..", "tests")
)

import gtirb  # noqa: E402
from gtirb_test_helpers import (  # noqa: E402
    add_code_block,
    add_data_block,
    add_edge,
    add_proxy_block,
    add_symbol,
    add_text_section,
    create_test_module,
)
from helpers import add_function_object  # noqa: E402

import gtirb_rewriting  # noqa: E402


def run(order):
    ir, m = create_test_module(
        gtirb.Module.FileFormat.ELF, gtirb.Module.ISA.X64
    )
    _, bi = add_text_section(m, address=0x1000)
    blocks = {}
    for name in order:
        if name == "tbl":
            blocks[name] = add_data_block(bi, b"\x01\x02")
        elif name == "f":
            blocks[name] = add_code_block(bi, b"\xC3")
        else:
            blocks[name] = add_code_block(bi, b"\x90")
    tbl = add_symbol(m, "tbl", blocks["tbl"])
    f_sym = add_symbol(m, "f", blocks["f"])
    g_sym = add_symbol(m, "g", blocks["g"])
    add_edge(ir.cfg, blocks["f"], add_proxy_block(m), gtirb.Edge.Type.Return)
    f = add_function_object(m, f_sym, blocks["f"])
    g = add_function_object(m, g_sym, blocks["g"])

    ctx = gtirb_rewriting.RewritingContext(m, [f, g])
    ctx.delete_at(blocks["tbl"], 0, 2)
    ctx.delete_function(f)
    ctx.apply()

    def describe(sym):
        ref = sym.referent
        if isinstance(ref, gtirb.ProxyBlock):
            return "external proxy (undefined symbol)"
        if isinstance(ref, gtirb.ByteBlock) and ref.byte_interval is not None:
            off = ref.offset + (ref.size if sym.at_end else 0)
            return "defined, offset %d of %s" % (
                off,
                bytes(ref.byte_interval.contents).hex(),
            )
        return repr(ref)

    print("layout %s:  delete_at(tbl, 0, 2) + delete_function(f)" % ", ".join(order))
    print("    bytes left : %s (required 90)" % bytes(bi.contents).hex())
    print("    f   -> %s   (required: external proxy)" % describe(f_sym))
    print("    g   -> %s   (required: defined, offset 0)" % describe(g_sym))
    print("    tbl -> %s   (required: defined, offset 0)" % describe(tbl))
    ok = (
        isinstance(tbl.referent, gtirb.ByteBlock)
        and tbl.referent.byte_interval is bi
        and tbl.referent.offset + (tbl.referent.size if tbl.at_end else 0) == 0
        and isinstance(f_sym.referent, gtirb.ProxyBlock)
        and g_sym.referent is blocks["g"]
    )
    print("    -> %s" % ("ok" if ok else "VIOLATION"))
    return ok


ok_chain = run(["tbl", "f", "g"])
ok_control = run(["f", "tbl", "g"])
sys.exit(0 if (ok_chain and ok_control) else 1)
