#!/usr/bin/env python
"""
C05 finding 2: a patch that puts a CFI procedure into a non-text section and
ends it right after a `ret` leaves a cfiDirectives entry keyed on a block that
is not part of the module.

Run: cd /repo && PYTHONPATH=/repo/src /venv/bin/python hunt/2/demo.py
Exits 1 when the violation is present, 0 otherwise.
"""
import io
import sys
import uuid

import gtirb
import gtirb_rewriting
from gtirb_test_helpers import (
    add_code_block,
    add_edge,
    add_proxy_block,
    add_text_section,
    create_test_module,
)

PATCH = """
nop
ret

.section .mytext,"ax",@progbits
helper:
.cfi_startproc
ret
.cfi_endproc
"""

CONTROL_PATCH = PATCH.replace("ret\n.cfi_endproc", "ret\nnop\n.cfi_endproc")


def literal_patch(asm):
    @gtirb_rewriting.patch_constraints()
    def patch(ctx):
        return asm

    return gtirb_rewriting.Patch.from_function(patch)


def block_in_module(block, m):
    bi = block.byte_interval
    return (
        bi is not None
        and block in bi.blocks
        and bi.section is not None
        and bi.section.module is m
    )


def run(asm):
    ir, m = create_test_module(
        gtirb.Module.FileFormat.ELF, gtirb.Module.ISA.X64
    )
    _, bi = add_text_section(m, address=0x1000)
    b = add_code_block(bi, b"\x90\xc3")  # nop; ret
    add_edge(ir.cfg, b, add_proxy_block(m), gtirb.Edge.Type.Return)

    ctx = gtirb_rewriting.RewritingContext(m, [])
    ctx.register_insert_function("newfn", literal_patch(asm))
    ctx.apply()

    problems = []
    print("  blocks:")
    for s in m.sections:
        for blk in s.byte_blocks:
            print(
                f"    {s.name:8} {type(blk).__name__} "
                f"[{blk.offset},{blk.offset + blk.size}) {str(blk.uuid)[:8]}"
            )
    print("  cfiDirectives:")
    for off, directives in m.aux_data["cfiDirectives"].data.items():
        node = off.element_id
        ok = isinstance(node, gtirb.ByteBlock) and block_in_module(node, m)
        print(
            f"    ({type(node).__name__} {str(node.uuid)[:8]} size={node.size}, "
            f"+{off.displacement}) -> {[d[0] for d in directives]}"
            f"{'' if ok else '   <-- block is NOT in the module'}"
        )
        if not ok:
            problems.append(f"cfiDirectives key {node.uuid} not in module")

    # save / load: a node that is not in the IR comes back as a bare UUID
    buf = io.BytesIO()
    ir.save_protobuf_file(buf)
    buf.seek(0)
    ir2 = gtirb.IR.load_protobuf_file(buf)
    for off in ir2.modules[0].aux_data["cfiDirectives"].data:
        if isinstance(off.element_id, uuid.UUID):
            problems.append(
                f"after save/load the key is a dangling UUID {off.element_id}"
            )
    for p in problems:
        print("  PROBLEM:", p)
    return problems


print("control: helper is `ret; nop` so .cfi_endproc follows an instruction")
control = run(CONTROL_PATCH)
print()
print("case: register_insert_function('newfn', patch) with the patch")
print(PATCH)
bad = run(PATCH)
print(
    "  property C05 requires: every node mentioned in an aux-data table is "
    "part of the module and the IR round-trips unchanged"
)
print(
    "  expected: .cfi_endproc attached to the end of helper's block, i.e. "
    "(helper block, +1)"
)

if control:
    print("control unexpectedly fails")
    sys.exit(2)
if bad:
    print("VIOLATION PRESENT")
    sys.exit(1)
print("no violation")
sys.exit(0)
