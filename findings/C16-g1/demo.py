#!/usr/bin/env python
"""
C16 finding 1: on ARM64 ELF, preserve_caller_saved_registers=True does not
save/restore x16, x17 and x18, which AAPCS64 lets any callee (and every PLT
stub / linker veneer) clobber.

Run:  cd /repo && PYTHONPATH=/repo/src /venv/bin/python hunt2/1/demo.py
Exit status 1 while the violation is present, 0 once fixed.
"""
import logging
import sys

import capstone
import gtirb
from gtirb_test_helpers import add_code_block, add_text_section, create_test_module

sys.path.insert(0, "/repo/tests")
from helpers import add_function_object  # noqa: E402

import gtirb_rewriting  # noqa: E402
from gtirb_rewriting import Constraints, Patch, RewritingContext  # noqa: E402

logging.disable(logging.CRITICAL)

# AAPCS64 (IHI 0055) 6.1.1: "A subroutine invocation must preserve the
# contents of the registers r19-r29 and SP."  Everything else among the
# general purpose registers may be changed by a call: x0-x18 and x30.
# (x16/x17 are IP0/IP1: written by every PLT stub and range veneer.)
AAPCS64_CALL_CLOBBERED = [f"x{i}" for i in range(19)] + ["x30"]

# The patch body stands for "bl some_extern" - here it simply does what the
# callee / PLT stub is allowed to do: overwrite call-clobbered registers.
BODY = "\n".join(f"mov {r}, #0x5a5a" for r in AAPCS64_CALL_CLOBBERED)


class CallLike(Patch):
    def get_asm(self, ctx):
        return BODY


ir, m = create_test_module(gtirb.Module.FileFormat.ELF, gtirb.Module.ISA.ARM64)
_, bi = add_text_section(m, address=0x1000)
b = add_code_block(bi, b"\xc0\x03\x5f\xd6")  # ret
func = add_function_object(m, "f", b)
rc = RewritingContext(m, [func])
rc.insert_at(b, 0, CallLike(Constraints(preserve_caller_saved_registers=True)))
rc.apply()

# ---- tiny interpreter for exactly the instructions that can appear --------
md = capstone.Cs(capstone.CS_ARCH_ARM64, capstone.CS_MODE_ARM)
md.detail = True
NAMES = {"fp": "x29", "lr": "x30"}
reg = {f"x{i}": 0x1000 + i for i in range(31)}
reg["sp"] = SP0 = 0x7FFF0000
initial = dict(reg)
mem = {}


def rn(ins, r):
    n = ins.reg_name(r)
    return NAMES.get(n, n)


for ins in md.disasm(bytes(bi.contents), 0x1000):
    ops = ins.operands
    mn = ins.mnemonic
    if mn == "ret":
        break
    if mn in ("stp", "ldp", "str", "ldr"):
        nregs = 2 if mn[-1] == "p" else 1
        memop = ops[nregs].mem
        assert rn(ins, memop.base) == "sp"
        if len(ops) == nregs + 2:  # post-index
            addr = reg["sp"]
            new_sp = addr + ops[nregs + 1].imm
        else:  # pre-index with writeback
            assert ins.writeback
            addr = reg["sp"] + memop.disp
            new_sp = addr
        for k in range(nregs):
            r = rn(ins, ops[k].reg)
            if mn[0] == "s":
                assert addr + 8 * k < SP0
                mem[addr + 8 * k] = reg[r]
            else:
                reg[r] = mem[addr + 8 * k]
        reg["sp"] = new_sp
    elif mn in ("mov", "movz"):
        reg[rn(ins, ops[0].reg)] = ops[1].imm
    else:
        raise SystemExit(f"unexpected instruction {mn} {ins.op_str}")
else:
    raise SystemExit("ret not reached")

abi = gtirb_rewriting.ABI.get(m)
lib_set = sorted((r.name for r in abi.caller_saved_registers()), key=lambda n: int(n[1:]))
print("library caller_saved_registers():", " ".join(lib_set))
print("AAPCS64 call-clobbered GPRs     :", " ".join(AAPCS64_CALL_CLOBBERED))
bad = [r for r in list(initial) if reg[r] != initial[r]]
for r in bad:
    print(f"  {r}: before patch {initial[r]:#x}, after epilogue {reg[r]:#x}  (required: {initial[r]:#x})")
if bad:
    print("VIOLATION: registers the patch asked to preserve as caller-saved are not restored:", ", ".join(bad))
    sys.exit(1)
print("OK: every call-clobbered register and sp restored")
sys.exit(0)
