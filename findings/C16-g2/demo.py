#!/usr/bin/env python
"""
C16 finding 2: a read-register that is not in the ABI's scratch pool (ARM64:
x16, x17, x18, x29/fp, x30/lr) makes register allocation crash with
"ValueError: list.remove(x): x not in list", so no prologue/epilogue is
generated at all for a perfectly ordinary Constraints value
(e.g. a function-entry patch that reads the link register).

Run:  cd /repo && PYTHONPATH=/repo/src /venv/bin/python hunt2/2/demo.py
Exit status 1 while the violation is present, 0 once fixed.
"""
import logging
import sys

import capstone
import gtirb
from gtirb_test_helpers import add_code_block, add_text_section, create_test_module

sys.path.insert(0, "/repo/tests")
from helpers import add_function_object  # noqa: E402

from gtirb_rewriting import Constraints, Patch, RewritingContext  # noqa: E402

logging.disable(logging.CRITICAL)

failed = False
for read in ("x30", "lr", "x29", "x16", "x17", "x18"):
    seen = {}

    class LogReturnAddress(Patch):
        # e.g.   mov <scratch>, x30 ; ... store it somewhere ...
        def get_asm(self, ctx):
            (s,) = ctx.scratch_registers
            seen["scratch"] = s.name
            return f"mov {s}, {read}"

    ir, m = create_test_module(gtirb.Module.FileFormat.ELF, gtirb.Module.ISA.ARM64)
    _, bi = add_text_section(m, address=0x1000)
    b = add_code_block(bi, b"\xc0\x03\x5f\xd6")  # ret
    func = add_function_object(m, "f", b)
    rc = RewritingContext(m, [func])
    rc.insert_at(b, 0, LogReturnAddress(Constraints(reads_registers={read}, scratch_registers=1)))
    try:
        rc.apply()
    except Exception as e:  # noqa: BLE001
        failed = True
        print(f"reads_registers={{{read!r}}}, scratch_registers=1: OBSERVED {type(e).__name__}: {e}")
        print("    REQUIRED: one scratch register that is not the read register, spilled and restored")
        continue
    md = capstone.Cs(capstone.CS_ARCH_ARM64, capstone.CS_MODE_ARM)
    text = "; ".join(f"{i.mnemonic} {i.op_str}" for i in md.disasm(bytes(bi.contents), 0))
    ok = seen["scratch"] not in (read, "x30" if read == "lr" else read)
    print(f"reads_registers={{{read!r}}}: scratch={seen['scratch']}  code: {text}  {'ok' if ok else 'BAD'}")
    failed |= not ok

if failed:
    print("VIOLATION: Constraints with a read-register outside the scratch pool cannot be served")
    sys.exit(1)
print("OK")
sys.exit(0)
