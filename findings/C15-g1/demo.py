#!/usr/bin/env python
"""
C15 finding 1: evaluate_cfi_directives raises a bare NotImplementedError for
the two PE ABIs the README lists as supported (X64/PE, IA32/PE), on the
smallest well-formed input there is: a lone `.cfi_startproc`.

Run:  cd /repo && PYTHONPATH=/repo/src /venv/bin/python hunt2/1/demo.py
Exit status 1 = violation present, 0 = fixed.
"""
import sys
import uuid

import gtirb
from gtirb_test_helpers import (
    add_code_block,
    add_text_section,
    create_test_module,
)

from gtirb_rewriting.dwarf.cfi_eval import (
    CFARegisterOffset,
    CFIStateError,
    evaluate_cfi_directives,
)

NULL = uuid.UUID(int=0)

# DWARF register number of the return-address column:
#   x86-64: RIP = 16 (System V psABI fig. 3.36; LLVM uses the same numbering
#           for x86_64-pc-windows-* / x86_64-w64-mingw32)
#   i386  : EIP = 8
CASES = [
    (gtirb.Module.ISA.X64, gtirb.Module.FileFormat.PE, 16),
    (gtirb.Module.ISA.IA32, gtirb.Module.FileFormat.PE, 8),
    # control: the ELF flavour of the very same ISA works
    (gtirb.Module.ISA.X64, gtirb.Module.FileFormat.ELF, 16),
]

bad = False
for isa, fmt, want_rc in CASES:
    _, m = create_test_module(fmt, isa)
    _, bi = add_text_section(m, address=0x1000)
    b = add_code_block(bi, b"\x90\x90")
    table = m.aux_data["cfiDirectives"].data
    table[gtirb.Offset(b, 0)] = [
        (".cfi_startproc", [], NULL),
        (".cfi_def_cfa", [7, 8], NULL),
    ]
    table[gtirb.Offset(b, 2)] = [(".cfi_endproc", [], NULL)]

    required = (
        f"2 rows: ProcedureState(return_column={want_rc}, "
        f"cfa=CFARegisterOffset(7, 8)), then None"
    )
    try:
        rows = list(evaluate_cfi_directives(m, [b]))
        st = rows[0][2]
        ok = (
            len(rows) == 2
            and st is not None
            and st.return_column == want_rc
            and st.current.cfa == CFARegisterOffset(7, 8)
            and rows[1][2] is None
        )
        observed = f"{len(rows)} rows, first={st}"
    except (CFIStateError, ValueError) as e:
        ok = False
        observed = f"clean error {type(e).__name__}: {e}"
    except Exception as e:  # noqa: BLE001
        ok = False
        observed = f"{type(e).__name__}({e!s}) escaped from the generator"

    print(f"{isa.name}/{fmt.name}")
    print(f"  required: {required}")
    print(f"  observed: {observed}")
    print(f"  -> {'ok' if ok else 'VIOLATION'}")
    bad |= not ok

sys.exit(1 if bad else 0)
