#!/usr/bin/env python
"""
C11 finding 3: sections are looked up by name with a first-match over the
unordered `module.sections` set.  GTIRB does not require section names to be
unique (relocatable objects routinely carry several sections with one name);
with two same-named sections the section that receives

  A  the body of a function added with register_insert_function()  (".text")
  B  the `.section .mydata` part of an ordinary patch

is picked by set iteration order and so changes from run to run.

The same rewrite is executed in N fresh interpreters (PYTHONHASHSEED=0..N-1).
exit 1 = the receiving section differs between runs, 0 = always the same.
"""
import json
import os
import subprocess
import sys

HERE = os.path.dirname(os.path.abspath(__file__))
ROOT = os.path.dirname(os.path.dirname(HERE))
sys.path.insert(0, os.path.join(ROOT, "src"))

N_RUNS = 16


def child():
    import logging

    import gtirb
    from gtirb_test_helpers import (
        add_code_block,
        add_data_block,
        add_edge,
        add_proxy_block,
        add_section,
        add_text_section,
        create_test_module,
    )

    from gtirb_rewriting import Constraints, Patch, RewritingContext

    logging.disable(logging.CRITICAL)

    def patch(asm):
        return Patch.from_function(lambda ctx: asm, Constraints())

    ir, m = create_test_module(
        gtirb.Module.FileFormat.ELF, gtirb.Module.ISA.X64
    )
    # two code sections that are both called ".text"
    text1, bi1 = add_text_section(m, address=0x1000)
    b1 = add_code_block(bi1, b"\x90\xc3")
    add_edge(ir.cfg, b1, add_proxy_block(m), gtirb.Edge.Type.Return)
    text2, bi2 = add_text_section(m, address=0x2000)
    b2 = add_code_block(bi2, b"\x90\x90\xc3")
    add_edge(ir.cfg, b2, add_proxy_block(m), gtirb.Edge.Type.Return)
    # two data sections that are both called ".mydata"; only one is writable
    rw = {
        gtirb.Section.Flag.Readable,
        gtirb.Section.Flag.Writable,
        gtirb.Section.Flag.Loaded,
        gtirb.Section.Flag.Initialized,
    }
    data1, dbi1 = add_section(m, ".mydata", 0x3000, flags=rw)
    add_data_block(dbi1, b"\x01\x01\x01\x01")
    data2, dbi2 = add_section(
        m, ".mydata", 0x4000, flags=rw - {gtirb.Section.Flag.Writable}
    )
    add_data_block(dbi2, b"\x02\x02\x02\x02")

    ctx = RewritingContext(m, [])
    fsym = ctx.register_insert_function("fa", patch("ret"))
    ctx.insert_at(
        b1, 0, patch('nop\n.section .mydata,"aw"\nmyvar:\n.quad 5\n.text\n')
    )
    ctx.apply()

    myvar = next(s for s in m.symbols if s.name == "myvar")
    print(
        json.dumps(
            {
                "A": "first .text (the 2-byte one)"
                if fsym.referent.section is text1
                else "second .text (the 3-byte one)",
                "B": "writable .mydata"
                if myvar.referent.section is data1
                else "read-only .mydata",
            }
        )
    )


def main():
    results = []
    for seed in range(N_RUNS):
        env = dict(os.environ)
        env["PYTHONHASHSEED"] = str(seed)
        env["PYTHONPATH"] = os.pathsep.join(
            [os.path.join(ROOT, "src"), env.get("PYTHONPATH", "")]
        )
        r = subprocess.run(
            [sys.executable, os.path.abspath(__file__), "--child"],
            env=env,
            capture_output=True,
            text=True,
        )
        if r.returncode != 0:
            print("child failed:\n" + r.stderr)
            return 2
        results.append(json.loads(r.stdout.strip().splitlines()[-1]))

    violated = False
    for part, what in (
        ("A", "section that received the inserted function 'fa'"),
        ("B", "section that received the patch's `myvar: .quad 5`"),
    ):
        distinct = {}
        for r in results:
            distinct[r[part]] = distinct.get(r[part], 0) + 1
        print("part %s: %s" % (part, what))
        print("   property requires: the same section in every run")
        for key, n in sorted(distinct.items()):
            print("   observed in %2d/%d runs: %s" % (n, N_RUNS, key))
        if len(distinct) > 1:
            violated = True
    if violated:
        print("VIOLATION: identical input, different modules (C11)")
        return 1
    print("all runs identical")
    return 0


if __name__ == "__main__":
    if "--child" in sys.argv:
        child()
    else:
        sys.exit(main())
