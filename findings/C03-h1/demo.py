#!/usr/bin/env python
"""
C03 demo 1: deleting one of two back-to-back calls to the same function drops
the return edge that the *remaining* call still needs.

    g:  ret                     g:  ret
    f:  call g          ==>     f:  call g
        call g   <- delete_at       ret
        ret

Run:  cd /repo && PYTHONPATH=/repo/src /venv/bin/python hunt/1/demo.py
Exit status 1 = violation present, 0 = behaves as the property requires.
(HUNT_APPLY_FIX=1 applies the suggested fix as a run-time monkeypatch.)
"""
import os
import sys

import gtirb
import gtirb_functions
from gtirb_test_helpers import (
    add_code_block,
    add_edge,
    add_function,
    add_proxy_block,
    add_symbol,
    add_text_section,
    create_test_module,
    set_all_blocks_alignment,
)

import gtirb_rewriting

if os.environ.get("HUNT_APPLY_FIX"):
    sys.path.insert(0, os.path.join(os.path.dirname(__file__), ".."))
    import fixes

    fixes.fix_remove_order()

E = gtirb.Edge.Type

ir, m = create_test_module(gtirb.Module.FileFormat.ELF, gtirb.Module.ISA.X64)
_, bi = add_text_section(m, address=0x1000)

g_blk = add_code_block(bi, b"\xc3")  # g: ret
g_sym = add_symbol(m, "g", g_blk)
call = b"\xe8\x00\x00\x00\x00"
c1 = add_code_block(bi, call, {1: gtirb.SymAddrConst(0, g_sym)})  # f: call g
c2 = add_code_block(bi, call, {1: gtirb.SymAddrConst(0, g_sym)})  #    call g
r = add_code_block(bi, b"\xc3")  #    ret
f_sym = add_symbol(m, "f", c1)


def func(sym, entry, others):
    u = add_function(m, sym, entry, others)
    return gtirb_functions.Function(u, {entry}, {entry} | others, [sym])


g_fn = func(g_sym, g_blk, set())
f_fn = func(f_sym, c1, {c2, r})

# A CFG that is consistent with the code.
add_edge(ir.cfg, c1, g_blk, E.Call)
add_edge(ir.cfg, c1, c2, E.Fallthrough)
add_edge(ir.cfg, c2, g_blk, E.Call)
add_edge(ir.cfg, c2, r, E.Fallthrough)
add_edge(ir.cfg, g_blk, c2, E.Return)  # return site of the 1st call
add_edge(ir.cfg, g_blk, r, E.Return)  # return site of the 2nd call
add_edge(ir.cfg, r, add_proxy_block(m), E.Return)  # f has no callers
set_all_blocks_alignment(m, 1)

ctx = gtirb_rewriting.RewritingContext(m, [g_fn, f_fn])
ctx.delete_at(c2, 0, 5)  # delete the second "call g"
ctx.apply()

assert bi.contents == b"\xc3" + call + b"\xc3", bi.contents
assert c2.byte_interval is None  # the block is gone


def desc(n):
    if isinstance(n, gtirb.ProxyBlock):
        return "proxy"
    return f"block@{n.address:#x}"


print("listing after the rewrite:  g: ret | f: call g ; ret")
print("edges after the rewrite:")
for e in sorted(ir.cfg, key=lambda e: (e.source.address, e.label.type.value)):
    print(f"   {desc(e.source)} -{e.label.type.name}-> {desc(e.target)}")

call_edges = [e for e in c1.outgoing_edges if e.label.type == E.Call]
ft = [e.target for e in c1.outgoing_edges if e.label.type == E.Fallthrough]
assert [e.target for e in call_edges] == [g_blk] and ft == [r]

ret_targets = {e.target for e in g_blk.outgoing_edges if e.label.type == E.Return}
print()
print("property requires: g's return leads exactly to the return site of the")
print(f"   remaining call, i.e. {{{desc(r)}}}")
print("observed         :", "{" + ", ".join(sorted(desc(t) for t in ret_targets)) + "}")

if ret_targets == {r}:
    print("OK")
    sys.exit(0)
print("VIOLATION: the return edge g -> return site of the remaining call is missing")
sys.exit(1)
