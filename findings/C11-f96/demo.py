"""F96 (residual of F10): three code blocks of identical extent (same address, same size), one patch with a
temporary label on each.  After fix 6c9cbd8 blocks of *different* size at one address are ordered by size; blocks of
identical extent still tie in every block sort, the tie is broken by set iteration order (gtirb nodes hash by identity)
and the label suffixes / layout differ from run to run.  Exits 1 while more than one distinct output is seen in 12 runs."""
import subprocess, sys

CHILD = r'''
import gtirb
from gtirb_rewriting import *
from gtirb_test_helpers import create_test_module, add_text_section, add_code_block
ir, m = create_test_module(gtirb.Module.FileFormat.ELF, gtirb.Module.ISA.X64)
_, bi = add_text_section(m, address=0x1000)
a = add_code_block(bi, b"\x90\x90\xc3")
b = gtirb.CodeBlock(offset=0, size=3, byte_interval=bi)
c = gtirb.CodeBlock(offset=0, size=3, byte_interval=bi)
for n, blk in (("A", a), ("B", b), ("C", c)):
    gtirb.Symbol(n, payload=blk, module=m)
ctx = RewritingContext(m, [])
for blk in (a, b, c):
    ctx.insert_at(blk, 0, Patch.from_function(lambda ic: ".Lt: nop; jmp .Lt", Constraints()))
ctx.apply()
print(sorted((blk.address, blk.size, tuple(sorted(s.name for s in blk.references))) for blk in m.byte_blocks))
'''
outs = {subprocess.run([sys.executable, "-c", CHILD], capture_output=True, text=True).stdout for _ in range(12)}
print(len(outs), "distinct outputs in 12 runs")
sys.exit(1 if len(outs) > 1 else 0)
