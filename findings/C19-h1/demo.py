"""
C19 finding 1: deleting a symbol drops the *base* symbol-version definition
when its flags have any bit set besides VER_FLG_BASE (e.g. BASE|WEAK = 0x3).

Run:  cd /repo && PYTHONPATH=/repo/src /venv/bin/python hunt/1/demo.py
Exits 1 when the violation is present, 0 otherwise.
"""
import io
import sys

import gtirb
from gtirb_test_helpers import add_proxy_block, add_symbol, create_test_module

import gtirb_rewriting

VER_FLG_BASE = 0x1
VER_FLG_WEAK = 0x2

SYMVER_TYPE = (
    "tuple<mapping<uint16_t,tuple<sequence<string>,uint16_t>>,"
    "mapping<string,mapping<uint16_t,string>>,"
    "mapping<UUID,tuple<uint16_t,bool>>>"
)


def run(base_flags: int):
    ir, m = create_test_module(
        gtirb.Module.FileFormat.ELF, gtirb.Module.ISA.X64
    )
    foo = add_symbol(m, "foo", add_proxy_block(m))
    keep = add_symbol(m, "keep", add_proxy_block(m))
    defs = {
        # version definition of the library itself (vd_flags has the BASE bit)
        1: (["libtest.so.1"], base_flags),
        2: (["TEST_1.0"], 0),
        3: (["TEST_2.0"], 0),
    }
    reqs = {}
    entries = {foo: (2, False), keep: (3, False)}
    m.aux_data["elfSymbolVersions"] = gtirb.AuxData(
        (defs, reqs, entries), SYMVER_TYPE
    )

    ctx = gtirb_rewriting.RewritingContext(m, [])
    ctx.delete_symbol(foo)
    ctx.apply()

    buf = io.BytesIO()
    ir.save_protobuf_file(buf)  # still serialises
    return m.aux_data["elfSymbolVersions"].data


bad = False
for flags in (VER_FLG_BASE, VER_FLG_BASE | VER_FLG_WEAK):
    defs, reqs, entries = run(flags)
    expected = {1: (["libtest.so.1"], flags), 3: (["TEST_2.0"], 0)}
    print(f"base definition flags = {flags:#x}")
    print("  expected defs after deleting 'foo':", expected)
    print("  observed defs after deleting 'foo':", defs)
    if defs != expected:
        bad = True
        print(
            "  VIOLATION: the base definition (VER_FLG_BASE bit set) must "
            "always stay; only the unused non-base definition 2 may go"
        )

sys.exit(1 if bad else 0)
