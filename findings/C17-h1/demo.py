#!/usr/bin/env python
"""
C17 finding 1: on x86-64 an integer argument that has to go on the stack is
emitted as `push <imm>`; x86-64 has no push imm64, so any value outside the
signed 32-bit range cannot be passed (AsmSyntaxError from the patch's own
generated code), although the same value is passed fine in a register and on
ARM64.

Run:  cd /repo && PYTHONPATH=/repo/src /venv/bin/python hunt/1/demo.py
Exits 1 while the violation is present, 0 once every case passes.
"""
import logging
import os
import sys
import unittest.mock

sys.path.insert(0, os.path.dirname(os.path.abspath(__file__)))
import emu  # noqa: E402  (independent decoder + abstract machine)
from emu import X64, ELF, PE, check  # noqa: E402

import gtirb_rewriting  # noqa: E402
from gtirb_rewriting.patches import CallPatch  # noqa: E402
from gtirb_test_helpers import (  # noqa: E402
    create_test_module,
    add_symbol,
    add_proxy_block,
)

logging.disable(logging.CRITICAL)

BIG = 0xDEADBEEFFEEDFACE  # the value tests/test_calls.py passes on ARM64

CASES = [
    # (isa, format, args, description)
    (X64, ELF, [1, 2, 3, 4, 5, 6, 0x80000000], "7th arg = 2**31 (ELF)"),
    (X64, ELF, [1, 2, 3, 4, 5, 6, BIG], "7th arg = 0xDEADBEEFFEEDFACE (ELF)"),
    (X64, ELF, [1, 2, 3, 4, 5, 6, -0x80000001], "7th arg = -2**31-1 (ELF)"),
    (X64, PE, [1, 2, 3, 4, 0x100000000], "5th arg = 2**32 (PE)"),
    # controls: same values in a register / in int32 range on the stack
    (X64, ELF, [BIG], "control: 1st arg = 0xDEADBEEFFEEDFACE (register)"),
    (X64, ELF, [1, 2, 3, 4, 5, 6, 0x7FFFFFFF], "control: 7th arg = 2**31-1"),
    (X64, ELF, [1, 2, 3, 4, 5, 6, -0x80000000], "control: 7th arg = -2**31"),
]

# What CallPatch emits, straight from get_asm (no assembler involved).
_, m = create_test_module(ELF, X64)
foo = add_symbol(m, "foo", add_proxy_block(m))
ctx = unittest.mock.MagicMock(
    spec=gtirb_rewriting.InsertionContext, module=m, stack_adjustment=None
)
print("CallPatch(foo, [1,2,3,4,5,6,0x80000000]).get_asm() on x86-64 ELF:")
print(
    "    "
    + CallPatch(foo, [1, 2, 3, 4, 5, 6, 0x80000000])
    .get_asm(ctx)
    .replace("\n", "\n    ")
)
print()

violations = 0
for isa, ff, args, desc in CASES:
    try:
        problems, _ = check(isa, ff, args)
        problems = [p for p in problems if not p.startswith("BONUS")]
    except Exception as exc:  # noqa: BLE001
        first = (str(exc).splitlines() or [""])[0]
        problems = [f"{type(exc).__name__}: {first}"]
    status = "ok" if not problems else "VIOLATION"
    print(f"{status:9} {desc}")
    for p in problems:
        print(f"            observed: {p}")
    if problems:
        violations += 1
        n_reg = 6 if ff == ELF else 4
        shadow = 0 if ff == ELF else 32
        print(
            f"            required: at the call, the 8-byte slot at "
            f"[rsp+{shadow}] holds {args[n_reg] & (2**64 - 1):#x}"
        )

print()
if violations:
    print(
        f"{violations} case(s) violate C17: an integer argument in the "
        "64-bit range must arrive with its exact value, also when it is "
        "passed on the stack."
    )
    sys.exit(1)
print("all cases pass")
sys.exit(0)
