"""
Independent oracle for C17: build a tiny module, insert a CallPatch through
RewritingContext, decode the resulting bytes and run them on a small abstract
machine. At the call instruction, compare machine state to the calling
convention's requirements.
"""
import re
import sys
import random
import logging

sys.path.insert(0, "/repo/tests")

import capstone as cs
import gtirb
from gtirb_test_helpers import (
    create_test_module,
    add_text_section,
    add_code_block,
    add_symbol,
    add_proxy_block,
    add_data_section,
    add_data_block,
)
from helpers import add_function_object

from gtirb_rewriting import RewritingContext
from gtirb_rewriting.abi import ABI, CallingConventionDesc
from gtirb_rewriting.patches import CallPatch

X64, IA32, ARM64 = (
    gtirb.Module.ISA.X64,
    gtirb.Module.ISA.IA32,
    gtirb.Module.ISA.ARM64,
)
ELF, PE = gtirb.Module.FileFormat.ELF, gtirb.Module.FileFormat.PE
TARGETS = [(X64, ELF), (X64, PE), (IA32, PE), (ARM64, ELF)]


class Sym:
    """Marker for a symbol argument in a test-case description."""

    def __init__(self, name="dat"):
        self.name = name

    def __repr__(self):
        return f"Sym({self.name})"


class Call:
    """Marker: a callable argument which returns `inner`."""

    def __init__(self, inner):
        self.inner = inner

    def __repr__(self):
        return f"Call({self.inner!r})"


class Violation(Exception):
    pass


def build(isa, ff, args, conv=None, leaf=True, **kw):
    """Returns (module, byte_interval, seen_contexts, resolved_args)."""
    ir, m = create_test_module(ff, isa)
    _, bi = add_text_section(m, address=0x1000)
    nop = b"\x1F\x20\x03\xD5" if isa == ARM64 else b"\x90"
    ret = b"\xc0\x03\x5f\xd6" if isa == ARM64 else b"\xc3"
    b = add_code_block(bi, nop + ret)
    main = add_symbol(m, "main", b)
    foo = add_symbol(m, "foo", add_proxy_block(m))
    _, dbi = add_data_section(m, address=0x4000)
    dat = add_symbol(m, "dat", add_data_block(dbi, b"\x00" * 8))
    f = add_function_object(m, main, b)
    if not leaf:
        m.aux_data["leafFunctions"] = gtirb.AuxData(
            {f.uuid: 0}, "mapping<UUID,uint8_t>"
        )
    seen = []
    real_args = []
    resolved = []
    for a in args:
        inner = a.inner if isinstance(a, Call) else a
        val = dat if isinstance(inner, Sym) else inner
        resolved.append(val)
        if isinstance(a, Call):

            def fn(ctx, val=val):
                seen.append(ctx)
                return val

            real_args.append(fn)
        else:
            real_args.append(val)
    ctx = RewritingContext(m, [f])
    ctx.insert_at(b, 0, CallPatch(foo, real_args, conv, **kw))
    ctx.apply()
    return m, bi, seen, resolved, (b, f)


MASK64 = (1 << 64) - 1


class X86Machine:
    def __init__(self, bits, sp):
        self.bits = bits
        self.mask = (1 << bits) - 1
        self.slot = bits // 8
        self.spn = "rsp" if bits == 64 else "esp"
        names64 = [
            "rax", "rbx", "rcx", "rdx", "rsi", "rdi", "rbp",
            "r8", "r9", "r10", "r11", "r12", "r13", "r14", "r15",
        ]
        names32 = ["eax", "ebx", "ecx", "edx", "esi", "edi", "ebp"]
        self.names = names64 if bits == 64 else names32
        rnd = random.Random(1234)
        self.regs = {n: rnd.getrandbits(bits) for n in self.names}
        self.regs[self.spn] = sp
        self.flags = 0x246
        self.mem = {}  # addr -> (value, size)
        self.calls = []

    # full-register name for sub registers
    def canon(self, name):
        name = name.lower()
        if self.bits == 64:
            m = re.fullmatch(r"e([a-ds][xip]|[sd]i|bp|sp)", name)
            if m:
                return "r" + m.group(1), 32
            m = re.fullmatch(r"(r\d+)d", name)
            if m:
                return m.group(1), 32
            return name, 64
        return name, 32

    def get(self, name):
        full, sz = self.canon(name)
        return self.regs[full] & ((1 << sz) - 1)

    def set(self, name, val):
        full, sz = self.canon(name)
        self.regs[full] = val & ((1 << sz) - 1)  # 32-bit write zero-extends

    def push(self, val):
        self.regs[self.spn] = (self.regs[self.spn] - self.slot) & self.mask
        self.store(self.regs[self.spn], val)

    def pop(self):
        v = self.load(self.regs[self.spn])
        self.regs[self.spn] = (self.regs[self.spn] + self.slot) & self.mask
        return v

    def store(self, addr, val):
        self.mem[addr] = val if isinstance(val, tuple) else val & self.mask

    def load(self, addr):
        if addr not in self.mem:
            raise Violation(f"load of unwritten stack memory {addr:#x}")
        return self.mem[addr]


def x86_run(isa, bi, on_call):
    bits = 64 if isa == X64 else 32
    md = cs.Cs(cs.CS_ARCH_X86, cs.CS_MODE_64 if bits == 64 else cs.CS_MODE_32)
    md.detail = True
    return md


def sym_for(bi, insn):
    for o, e in bi.symbolic_expressions.items():
        if insn.address <= o < insn.address + insn.size:
            return e
    return None


def run_x86(isa, bi, sp0, callee):
    """
    Runs the bytes of `bi` until `ret`. `callee(machine, target_sym)` is
    invoked at each call. Returns the machine.
    """
    from capstone import x86 as X

    bits = 64 if isa == X64 else 32
    md = cs.Cs(cs.CS_ARCH_X86, cs.CS_MODE_64 if bits == 64 else cs.CS_MODE_32)
    md.detail = True
    mc = X86Machine(bits, sp0)
    init = dict(mc.regs)
    init_flags = mc.flags
    listing = []
    for insn in md.disasm(bytes(bi.contents), 0):
        listing.append(f"{insn.address:4x} {insn.mnemonic} {insn.op_str}")
        se = sym_for(bi, insn)
        mn = insn.mnemonic
        ops = insn.operands

        def memaddr(op):
            assert op.type == X.X86_OP_MEM
            base = insn.reg_name(op.mem.base) if op.mem.base else None
            assert not op.mem.index
            if base in ("rip", "eip", None):
                return None
            return (mc.get(base) + op.mem.disp) & mc.mask

        def rd(op):
            if op.type == X.X86_OP_REG:
                return mc.get(insn.reg_name(op.reg))
            if op.type == X.X86_OP_IMM:
                if se is not None:
                    return ("addr", se.symbol.name)
                return op.imm & mc.mask
            if op.type == X.X86_OP_MEM:
                a = memaddr(op)
                if a is None:
                    assert se is not None, "abs/rip mem without symbol"
                    return ("contents", se.symbol.name)
                return mc.load(a)
            raise AssertionError

        if mn == "nop":
            continue
        if mn == "ret":
            break
        if mn == "lea":
            a = memaddr(ops[1])
            if a is None:
                mc.regs[mc.canon(insn.reg_name(ops[0].reg))[0]] = (
                    "addr",
                    se.symbol.name,
                )
            else:
                mc.set(insn.reg_name(ops[0].reg), a)
        elif mn in ("pushfq", "pushfd"):
            mc.push(("flags", mc.flags))
        elif mn in ("popfq", "popfd"):
            v = mc.pop()
            if not (isinstance(v, tuple) and v[0] == "flags"):
                raise Violation(f"popf of non-flags value {v}")
            mc.flags = v[1]
        elif mn == "push":
            v = rd(ops[0])
            if ops[0].type == X.X86_OP_IMM and se is None:
                # sign extension of the immediate to the slot size
                v = ops[0].imm & mc.mask
            mc.push(v)
        elif mn == "pop":
            v = mc.pop()
            full = mc.canon(insn.reg_name(ops[0].reg))[0]
            mc.regs[full] = v
        elif mn in ("mov", "movabs") and ops[0].type == X.X86_OP_MEM:
            a = memaddr(ops[0])
            assert a is not None, listing[-1]
            v = rd(ops[1])
            size = ops[0].size
            if size == mc.slot:
                mc.store(a, v)
            else:
                assert size == 4 and mc.slot == 8 and isinstance(v, int)
                base = a & ~7
                oldv = mc.mem.get(base, 0)
                assert isinstance(oldv, int), "partial store over symbolic"
                sh = (a - base) * 8
                mc.store(
                    base,
                    (oldv & ~(0xFFFFFFFF << sh)) | ((v & 0xFFFFFFFF) << sh),
                )
        elif mn in ("mov", "movabs"):
            v = rd(ops[1])
            assert ops[0].type == X.X86_OP_REG, listing[-1]
            name = insn.reg_name(ops[0].reg)
            if isinstance(v, tuple):
                mc.regs[mc.canon(name)[0]] = v
            else:
                mc.set(name, v)
        elif mn in ("sub", "add", "and"):
            assert ops[0].type == X.X86_OP_REG and ops[1].type == X.X86_OP_IMM
            name = insn.reg_name(ops[0].reg)
            a = mc.get(name)
            imm = ops[1].imm & mc.mask
            r = {"sub": a - imm, "add": a + imm, "and": a & imm}[mn]
            mc.set(name, r)
            mc.flags = ("clobbered-by", mn)
        elif mn == "call":
            assert se is not None
            callee(mc, se.symbol.name)
        else:
            raise AssertionError("unhandled insn " + listing[-1])
    return mc, init, init_flags, listing


class ArmMachine:
    def __init__(self, sp):
        rnd = random.Random(99)
        self.regs = {f"x{i}": rnd.getrandbits(64) for i in range(31)}
        self.regs["sp"] = sp
        self.flags = 0x60000000
        self.mem = {}
        self.bits = 64
        self.slot = 8
        self.mask = MASK64
        self.spn = "sp"

    def get(self, n):
        return self.regs[n]

    def load(self, a):
        if a not in self.mem:
            raise Violation(f"load of unwritten stack memory {a:#x}")
        return self.mem[a]

    def store(self, a, v):
        self.mem[a] = v


def run_arm64(isa, bi, sp0, callee):
    md = cs.Cs(cs.CS_ARCH_ARM64, cs.CS_MODE_ARM)
    mc = ArmMachine(sp0)
    init = dict(mc.regs)
    init_flags = mc.flags
    listing = []

    def imm(s):
        s = s.strip().lstrip("#")
        return int(s, 0)

    def chk_sp():
        if mc.regs["sp"] % 16:
            raise Violation(
                "sp used as base while not 16-byte aligned: "
                + listing[-1]
            )

    for insn in md.disasm(bytes(bi.contents), 0):
        text = f"{insn.mnemonic} {insn.op_str}"
        listing.append(f"{insn.address:4x} {text}")
        se = sym_for(bi, insn)
        mn = insn.mnemonic
        o = insn.op_str
        if mn == "nop":
            continue
        if mn == "ret":
            break
        m = re.fullmatch(r"(x\d+), (x\d+), \[sp, #(-?\w+)\]!", o)
        if mn == "stp" and m:
            mc.regs["sp"] = (mc.regs["sp"] + imm(m.group(3))) & MASK64
            chk_sp()
            mc.store(mc.regs["sp"], mc.regs[m.group(1)])
            mc.store(mc.regs["sp"] + 8, mc.regs[m.group(2)])
            continue
        m = re.fullmatch(r"(x\d+), \[sp, #(-?\w+)\]!", o)
        if mn == "str" and m:
            mc.regs["sp"] = (mc.regs["sp"] + imm(m.group(2))) & MASK64
            chk_sp()
            mc.store(mc.regs["sp"], mc.regs[m.group(1)])
            continue
        m = re.fullmatch(r"(x\d+), (x\d+), \[sp\], #(-?\w+)", o)
        if mn == "ldp" and m:
            chk_sp()
            mc.regs[m.group(1)] = mc.load(mc.regs["sp"])
            mc.regs[m.group(2)] = mc.load(mc.regs["sp"] + 8)
            mc.regs["sp"] = (mc.regs["sp"] + imm(m.group(3))) & MASK64
            continue
        m = re.fullmatch(r"(x\d+), \[sp\], #(-?\w+)", o)
        if mn == "ldr" and m:
            chk_sp()
            mc.regs[m.group(1)] = mc.load(mc.regs["sp"])
            mc.regs["sp"] = (mc.regs["sp"] + imm(m.group(2))) & MASK64
            continue
        m = re.fullmatch(r"(x\d+), \[sp(?:, #(\w+))?\]", o)
        if mn == "str" and m:
            chk_sp()
            off = imm(m.group(2)) if m.group(2) else 0
            mc.store(mc.regs["sp"] + off, mc.regs[m.group(1)])
            continue
        m = re.fullmatch(r"(x\d+), nzcv", o)
        if mn == "mrs" and m:
            mc.regs[m.group(1)] = ("flags", mc.flags)
            continue
        m = re.fullmatch(r"nzcv, (x\d+)", o)
        if mn == "msr" and m:
            v = mc.regs[m.group(1)]
            if not (isinstance(v, tuple) and v[0] == "flags"):
                raise Violation(f"msr nzcv of non-flags value {v}")
            mc.flags = v[1]
            continue
        m = re.fullmatch(r"sp, sp, #(\w+)", o)
        if mn in ("sub", "add") and m:
            d = imm(m.group(1))
            mc.regs["sp"] = (
                mc.regs["sp"] + (d if mn == "add" else -d)
            ) & MASK64
            continue
        m = re.fullmatch(r"(x\d+), #(-?\w+)(?:, lsl #(\d+))?", o)
        if mn in ("mov", "movz", "movn", "movk") and m:
            v = imm(m.group(2))
            sh = int(m.group(3) or 0)
            r = m.group(1)
            if mn == "mov":
                assert not sh
                mc.regs[r] = v & MASK64
            elif mn == "movz":
                mc.regs[r] = (v << sh) & MASK64
            elif mn == "movn":
                mc.regs[r] = ~(v << sh) & MASK64
            else:
                old = mc.regs[r]
                assert isinstance(old, int), "movk onto symbolic"
                mc.regs[r] = (old & ~(0xFFFF << sh) | (v << sh)) & MASK64
            continue
        m = re.fullmatch(r"(x\d+), #?(\w+)", o)
        if mn == "adrp" and m:
            assert se is not None
            mc.regs[m.group(1)] = ("page", se.symbol.name, frozenset(se.attributes))
            continue
        m = re.fullmatch(r"(x\d+), (x\d+)(?:, #(\w+))?", o)
        if mn in ("add", "mov") and m and se is not None:
            v = mc.regs[m.group(2)]
            assert isinstance(v, tuple) and v[0] == "page", listing[-1]
            assert v[1] == se.symbol.name
            if v[2] or se.attributes != {gtirb.SymbolicExpression.Attribute.LO12}:
                mc.regs[m.group(1)] = ("weird", se.symbol.name, v[2], frozenset(se.attributes))
            else:
                mc.regs[m.group(1)] = ("addr", se.symbol.name)
            continue
        if mn == "bl":
            assert se is not None
            callee(mc, se.symbol.name)
            continue
        raise AssertionError("unhandled insn " + listing[-1])
    return mc, init, init_flags, listing


CALLER_SAVED = {
    (X64, ELF): ["rax", "rcx", "rdx", "rsi", "rdi", "r8", "r9", "r10", "r11"],
    (X64, PE): ["rax", "rcx", "rdx", "r8", "r9", "r10", "r11"],
    (IA32, PE): ["eax", "ecx", "edx"],
    (ARM64, ELF): [f"x{i}" for i in range(16)] + ["x30"],
}


def check(isa, ff, args, conv=None, sp_mis=0, leaf=True, verbose=False, **kw):
    """
    Returns list of violation strings (empty if the property holds).
    sp_mis: added to an aligned initial stack pointer.
    """
    m, bi, seen, resolved, _ = build(isa, ff, args, conv, leaf=leaf, **kw)
    abi = ABI.get(m)
    cconv = conv or abi.calling_convention()
    slot = abi.pointer_size()
    bits = slot * 8
    mask = (1 << bits) - 1
    sp0 = 0x7FFF0000 + sp_mis
    problems = []
    state = {}
    n_reg = min(len(cconv.registers), len(args))
    n_stack = len(args) - n_reg

    def expected(v):
        if isinstance(v, gtirb.Symbol):
            return ("addr", v.name)
        return v & mask

    def callee(mc, target):
        if "sp" in state:
            problems.append("more than one call emitted")
        if target != "foo":
            problems.append(f"call to {target} instead of foo")
        sp = mc.regs[mc.spn]
        state["sp"] = sp
        align = cconv.stack_alignment
        if sp % align:
            problems.append(
                f"sp at call = {sp:#x} is not {align}-byte aligned"
            )
        for i in range(n_reg):
            rname = cconv.registers[i].lower()
            try:
                got = mc.get(rname) if not isinstance(mc.regs.get(mc.canon(rname)[0] if hasattr(mc, "canon") else rname), tuple) else mc.regs[mc.canon(rname)[0] if hasattr(mc, "canon") else rname]
            except KeyError:
                problems.append(f"unknown register {rname}")
                continue
            exp = expected(resolved[i])
            if isinstance(exp, int) and hasattr(mc, "canon"):
                exp &= (1 << mc.canon(rname)[1]) - 1
            if got != exp:
                problems.append(
                    f"arg {i}: register {rname} holds {fmt(got)}, "
                    f"expected {fmt(exp)}"
                )
        for k in range(n_stack):
            addr = sp + cconv.shadow_space + k * slot
            got = mc.mem.get(addr, "<unwritten>")
            exp = expected(resolved[n_reg + k])
            if got != exp:
                problems.append(
                    f"arg {n_reg + k}: stack slot sp+{addr - sp} holds "
                    f"{fmt(got)}, expected {fmt(exp)}"
                )
        # the callee may scribble over everything below sp (its frame), its
        # shadow space and its argument slots, and over caller-saved registers
        junk = 0xDEAD0000
        lo = sp - 0x400
        for a in range(lo, sp + cconv.shadow_space + n_stack * slot, slot):
            mc.mem[a] = ("junk", a)
        for r in CALLER_SAVED[(isa, ff)]:
            mc.regs[r] = ("junk", r)
        mc.flags = ("junk", "flags")
        if not cconv.caller_cleanup:
            mc.regs[mc.spn] = sp + n_stack * slot

    runner = run_arm64 if isa == ARM64 else run_x86
    try:
        mc, init, init_flags, listing = runner(isa, bi, sp0, callee)
    except Violation as v:
        return [str(v)], None
    if "sp" not in state:
        problems.append("no call emitted")
    if mc.regs[mc.spn] != sp0:
        problems.append(
            f"sp after patch = {mc.regs[mc.spn]:#x}, before = {sp0:#x}"
        )
    for r, v in init.items():
        if mc.regs[r] != v and r != mc.spn:
            problems.append(f"BONUS register {r} not preserved: {fmt(mc.regs[r])} vs {fmt(v)}")
    if mc.flags != init_flags:
        problems.append(f"BONUS flags not preserved: {mc.flags}")
    n_call = sum(1 for a in args if isinstance(a, Call))
    if len(seen) != n_call:
        problems.append(f"{len(seen)} callable invocations for {n_call} callables")
    for c in seen:
        if c.module is not m or type(c).__name__ != "InsertionContext":
            problems.append("callable did not receive the insertion context")
    if verbose:
        print("\n".join(listing))
    return problems, listing


def fmt(v):
    return hex(v) if isinstance(v, int) else repr(v)


if __name__ == "__main__":
    logging.disable(logging.CRITICAL)
    for isa, ff in TARGETS:
        p, l = check(isa, ff, list(range(1, 12)))
        print(isa, ff, p)
