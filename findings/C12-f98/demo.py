"""F98: 'ret; .zero 0' and '.ascii ""; ret' made Assembler.finalize() die with a bare AssertionError (an empty block carried a
line-map / block-type entry).  Fixed in /repo by the commit recorded in known_findings.json.  Exits 1 while the defect is present."""
import sys
import gtirb
from gtirb_rewriting.assembler import Assembler
from gtirb_test_helpers import create_test_module

ir, m = create_test_module(gtirb.Module.FileFormat.ELF, gtirb.Module.ISA.X64)
bad = []
for text in ("ret\n.zero 0\n", '.ascii ""\nret\n'):
    try:
        a = Assembler(m, trivially_unreachable=True)
        a.assemble(text)
        r = a.finalize()
        want = b"\xc3" if "nop" not in text else b"\x90\xc3"
        if bytes(r.text_section.data) != want:
            bad.append((text, bytes(r.text_section.data)))
    except AssertionError as e:
        bad.append((text, "AssertionError"))
print(bad or "ok")
sys.exit(1 if bad else 0)
