"""
C15 finding 3: an escaped DW_CFA_*expression whose DWARF expression block is
truncated (a fixed-width operand is cut short) or whose last operation runs
past the declared block length is accepted silently, and the evaluator yields
a state with a fabricated operand instead of reporting ValueError.

Run:  cd /repo && PYTHONPATH=/repo/src /venv/bin/python hunt/3/demo.py
Exits 1 while the violation is present, 0 once fixed.
"""
import sys

import gtirb
from gtirb_test_helpers import (
    add_code_block,
    add_text_section,
    create_test_module,
)

from gtirb_rewriting._auxdata import NULL_UUID
from gtirb_rewriting.dwarf.cfi_eval import (
    CFIStateError,
    evaluate_cfi_directives,
)

X64 = gtirb.Module.ISA.X64
MIPS = gtirb.Module.ISA.MIPS32

CASES = [
    # (isa, label, escape bytes, why it is ill-formed)
    (X64, "def_cfa_expression len=1 {const1u <no operand>}",
     [0x0F, 0x01, 0x08],
     "DW_OP_const1u needs a 1-byte operand; the escape ends after the opcode"),
    (X64, "expression r6 len=2 {const2u <1 of 2 operand bytes>}",
     [0x10, 0x06, 0x02, 0x0A, 0x34],
     "DW_OP_const2u needs 2 operand bytes; only 1 is present"),
    (MIPS, "def_cfa_expression len=3 {addr <2 of 4 bytes>}",
     [0x0F, 0x03, 0x03, 0x11, 0x22],
     "DW_OP_addr needs pointer-size (4) operand bytes; only 2 are present"),
    (X64, "def_cfa_expression len=1 {const1u} + stray byte 0x2a",
     [0x0F, 0x01, 0x08, 0x2A],
     "the block is declared 1 byte long, so const1u has no operand inside it; "
     "0x2a is outside the block (and is not a CFA opcode either)"),
]


def run(isa, escape):
    _, m = create_test_module(gtirb.Module.FileFormat.ELF, isa)
    _, bi = add_text_section(m, address=0x1000)
    b = add_code_block(bi, b"\x00" * 4)
    m.aux_data["cfiDirectives"].data[gtirb.Offset(b, 0)] = [
        (".cfi_startproc", [], NULL_UUID),
        (".cfi_escape", escape, NULL_UUID),
    ]
    try:
        states = [s for _, _, s in evaluate_cfi_directives(m, [b])]
        return "state", states[0].current
    except (CFIStateError, ValueError) as e:
        return "clean", e
    except BaseException as e:  # noqa: B902
        return "other", e


bad = False
for isa, label, escape, why in CASES:
    kind, val = run(isa, escape)
    hexs = " ".join(f"{x:02x}" for x in escape)
    print(f"{isa.name} .cfi_escape {hexs}   ({label})")
    print(f"    ill-formed because: {why}")
    if kind == "clean":
        print(f"    [ok ] reported: {type(val).__name__}: {val}")
    elif kind == "state":
        bad = True
        print(f"    [BAD] silently accepted, yielded current row: {val}")
        print("          property requires CFIStateError/ValueError")
    else:
        bad = True
        print(f"    [BAD] raised {type(val).__name__}: {val}")

if bad:
    print("\nproperty C15 violated: ill-formed sequences 'never produce ... a "
          "silently wrong state'")
    sys.exit(1)
print("ok")
sys.exit(0)
