"""C13 finding 3: assemble() in chunks != assemble() of the concatenation, because every call starts a fresh LLVM
parser: the current section (and other parser-side state) is forgotten between calls.

Run: cd /repo && PYTHONPATH=/repo/src /venv/bin/python hunt/3/demo.py
Exits 1 while the violation is present, 0 once it is fixed.
"""
import sys

import gtirb
import gtirb_rewriting
from gtirb_test_helpers import create_test_module


def summarize(chunks):
    """Assemble `chunks` with one Assembler; return {section: (hex bytes, [(blocktype, off, size)])} or the error."""
    _, m = create_test_module(
        gtirb.Module.FileFormat.ELF, gtirb.Module.ISA.X64, binary_type=["DYN"]
    )
    asm = gtirb_rewriting.Assembler(m)
    try:
        for c in chunks:
            asm.assemble(c)
        r = asm.finalize()
    except gtirb_rewriting.AssemblerError as exc:
        return "%s: %s" % (type(exc).__name__, exc)
    out = {}
    for name, s in r.sections.items():
        exprs = sorted(
            (off, e.symbol.name) for off, e in s.symbolic_expressions.items()
        )
        out[name] = (
            s.data.hex(),
            [(type(b).__name__, b.offset, b.size) for b in s.blocks],
            exprs,
        )
    out["symbols"] = sorted(s.name for s in r.symbols)
    return out


CASES = [
    # (description, chunks) - no chunk refers to a label defined in a later chunk (there are no labels at all
    # in the first case)
    ("current section is forgotten", [".data\n.byte 1\n", ".byte 2\n"]),
    ("assembler-generated temporary names restart (.Ltmp0)", ["jmp .\n", "jmp .\n"]),
    ("absolute symbol of an earlier chunk is no longer folded", ["foo = 5\n", "mov $foo, %eax\n"]),
]

bad = 0
for desc, chunks in CASES:
    split = summarize(chunks)
    whole = summarize(["".join(chunks)])
    same = split == whole
    print("---", desc)
    print("    chunks        :", chunks)
    print("    concatenation :", whole)
    print("    chunked       :", split)
    print("    ->", "same" if same else "DIFFERENT")
    if not same:
        bad += 1

print()
print("property requires : chunked result == result of assembling the concatenation")
if bad:
    print("VIOLATION: %d of %d cases differ" % (bad, len(CASES)))
    sys.exit(1)
print("OK")
sys.exit(0)
