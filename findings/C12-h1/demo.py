"""
C12 / finding 1: `sym@GOTOFF` operands are recorded with the attribute set of
`sym@GOT` ({GOT}) instead of {GOTOFF}.

Run:  cd /repo && PYTHONPATH=/repo/src /venv/bin/python hunt/1/demo.py
Exits 1 while the violation is present, 0 once fixed.
"""
import os
import subprocess
import sys
import tempfile

import gtirb
from gtirb_test_helpers import add_proxy_block, add_symbol, create_test_module

import gtirb_rewriting

Attr = gtirb.SymbolicExpression.Attribute


def assemble(text):
    _, m = create_test_module(
        gtirb.Module.FileFormat.ELF, gtirb.Module.ISA.X64, binary_type=["DYN"]
    )
    add_symbol(m, "ext", add_proxy_block(m))
    asm = gtirb_rewriting.Assembler(m)
    asm.assemble(text, gtirb_rewriting.X86Syntax.ATT)
    return asm.finalize()


def pretty_print(text):
    """Optional cross-check with gtirb-pprinter (an independent consumer of the
    attributes); returns the printed instruction or None if unavailable."""
    try:
        _, m = create_test_module(
            gtirb.Module.FileFormat.ELF,
            gtirb.Module.ISA.X64,
            binary_type=["DYN"],
        )
        asm = gtirb_rewriting.Assembler(
            gtirb_rewriting.Assembler.ModuleTarget(m, detached=True),
            allow_undef_symbols=True,
        )
        asm.assemble(text, gtirb_rewriting.X86Syntax.ATT)
        ir = asm.finalize().create_ir()
        with tempfile.TemporaryDirectory() as d:
            p, out = os.path.join(d, "x.gtirb"), os.path.join(d, "x.s")
            ir.save_protobuf(p)
            subprocess.run(
                ["/venv/bin/gtirb-pprinter", "--ir", p, "--asm", out],
                check=True,
                capture_output=True,
            )
            for line in open(out):
                if "ext@" in line:
                    return line.strip()
    except Exception as exc:  # pragma: no cover - best effort only
        return f"(pretty-printer unavailable: {exc})"
    return None


TEXT_GOTOFF = "movabsq $ext@GOTOFF, %rax"
TEXT_GOT = "movabsq $ext@GOT, %rax"

res_off = assemble(TEXT_GOTOFF)
res_got = assemble(TEXT_GOT)
((off1, e_off),) = res_off.text_section.symbolic_expressions.items()
((off2, e_got),) = res_got.text_section.symbolic_expressions.items()

print(f"input A: {TEXT_GOTOFF}")
print(f"  bytes      : {res_off.text_section.data.hex()}")
print(f"  expression : @{off1} symbol={e_off.symbol.name} addend={e_off.offset}"
      f" attributes={sorted(a.name for a in e_off.attributes)}")
print(f"input B: {TEXT_GOT}")
print(f"  expression : @{off2} symbol={e_got.symbol.name} addend={e_got.offset}"
      f" attributes={sorted(a.name for a in e_got.attributes)}")
print("pretty-printed A:", pretty_print(TEXT_GOTOFF))
print()
print("property requires: the operand `ext@GOTOFF` yields one expression at "
      "offset 2 with symbol ext, addend 0 and attributes {GOTOFF} "
      "(gtirb has a dedicated Attribute.GOTOFF; {GOT} means `ext@GOT`, a "
      "different relocation).")

ok = (
    off1 == 2
    and isinstance(e_off, gtirb.SymAddrConst)
    and e_off.symbol.name == "ext"
    and e_off.offset == 0
    and set(e_off.attributes) == {Attr.GOTOFF}
)
if ok:
    print("OK: @GOTOFF is represented faithfully")
    sys.exit(0)

print(
    "VIOLATION: `ext@GOTOFF` got attributes "
    f"{sorted(a.name for a in e_off.attributes)}; it is indistinguishable from "
    f"`ext@GOT` ({sorted(a.name for a in e_got.attributes)})"
)
sys.exit(1)
