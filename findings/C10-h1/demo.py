#!/usr/bin/env python
"""
C10 finding 1: the block that join_byte_intervals creates to cover alignment
padding starts at the end of the *highest-offset* block of what precedes the
padding, not at the end of the bytes that are already covered.  With
overlapping blocks it therefore also covers bytes of an existing block.

.text (x86-64 ELF, one byte interval at 0x1000, 10 bytes, all 0x90):

    P  CodeBlock  [0, 2)
    A  CodeBlock  [2, 8)   } overlapping group: B lies inside A and ends
    B  CodeBlock  [4, 6)   } before A does
    C  CodeBlock  [8, 10)  alignment 2 (0x1008, holds)

The only modification is one `nop` inserted at the start of P (P is not part
of the overlapping group).  Everything behind it moves by one byte, C would
land on 0x1009, so one byte of padding is needed in front of C.

Property (C10): "the only bytes added for that are whole nops after code or
zeros after data, covered by blocks".  Hand-derived expectation: exactly one
0x90 is added, at interval offset 9 (directly after A [3, 9)), and the block
that is created for it is [9, 10).  No byte that belonged to A before may end
up inside a padding block.
"""
import sys

import gtirb
import gtirb_rewriting
from gtirb_test_helpers import add_text_section, create_test_module


def literal_patch(asm):
    @gtirb_rewriting.patch_constraints()
    def patch(ctx):
        return asm

    return gtirb_rewriting.Patch.from_function(patch)


ir, m = create_test_module(gtirb.Module.FileFormat.ELF, gtirb.Module.ISA.X64)
_, bi = add_text_section(m, address=0x1000)
bi.contents = b"\x90" * 10
bi.size = 10
P = gtirb.CodeBlock(offset=0, size=2)
A = gtirb.CodeBlock(offset=2, size=6)
B = gtirb.CodeBlock(offset=4, size=2)
C = gtirb.CodeBlock(offset=8, size=2)
for blk in (P, A, B, C):
    blk.byte_interval = bi
m.aux_data["alignment"].data[C] = 2
names = {P: "P", A: "A", B: "B", C: "C"}

ctx = gtirb_rewriting.RewritingContext(m, [])
ctx.insert_at(P, 0, literal_patch("nop"))
ctx.apply()

print("after apply():")
for blk in sorted(bi.blocks, key=lambda b: (b.offset, b.size)):
    print(
        "  %-6s %-9s [%2d, %2d)  addr %#x"
        % (
            names.get(blk, "<new>"),
            type(blk).__name__,
            blk.offset,
            blk.offset + blk.size,
            blk.address,
        )
    )
print("  contents", bytes(bi.contents).hex(), "size", bi.size)
print("  (the <new> block right behind P is the rest of P, split off by the")
print("   insertion because the blocks are in no function; it is not at issue)")

# sanity: the group moved as a whole and C is aligned again
assert (A.offset, A.size) == (3, 6) and (B.offset, B.size) == (5, 2)
assert bi.size == 12 and C.offset == 10 and C.address % 2 == 0

pad_lo, pad_hi = A.offset + A.size, C.offset  # the one added byte: [9, 10)
bad = []
for nb in bi.blocks:
    if nb in names:
        continue
    if nb.offset < pad_hi and pad_lo < nb.offset + nb.size:
        # this is the block covering the padding
        print()
        print("required: padding block == [%d, %d)" % (pad_lo, pad_hi))
        print("observed: padding block == [%d, %d)" % (nb.offset, nb.offset + nb.size))
        if (nb.offset, nb.offset + nb.size) != (pad_lo, pad_hi):
            bad.append(nb)

if bad:
    nb = bad[0]
    print(
        "          -> it also covers bytes [%d, %d) that belong to A [%d, %d)"
        % (nb.offset, pad_lo, A.offset, A.offset + A.size)
    )
    print("VIOLATION")
    sys.exit(1)
print("ok")
sys.exit(0)
