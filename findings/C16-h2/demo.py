"""
C16 finding 2: a code block that belongs to two functions (functionBlocks
lists it in both) - one with a call (non-leaf), one without (leaf, uses the
red zone).  RewritingContext decides "may be a leaf" from ONE of the owning
functions - whichever comes last in the `functions` list - so when that one is
the non-leaf function the x86-64 ELF prologue omits `lea -128(%rsp),%rsp` and
its `push` lands inside the red zone of the leaf function.

    cd /repo && PYTHONPATH=/repo/src /venv/bin/python hunt/2/demo.py

exit status 1 == violation present.
"""
import ctypes
import mmap
import platform
import sys

import capstone
import gtirb
from gtirb_test_helpers import (
    add_code_block,
    add_edge,
    add_proxy_block,
    add_symbol,
    add_text_section,
    create_test_module,
)

sys.path.insert(0, "/repo/tests")
from helpers import add_function_object  # noqa: E402

import gtirb_rewriting  # noqa: E402

RED_ZONE = 128


def build(order):
    _, m = create_test_module(
        gtirb.Module.FileFormat.ELF, gtirb.Module.ISA.X64
    )
    _, bi = add_text_section(m, address=0x1000)
    proxy = add_proxy_block(m)
    ext = add_symbol(m, "ext", proxy)

    # A (non-leaf):  call ext ; jmp S
    a = add_code_block(bi, b"\xe8\x00\x00\x00\x00", {1: gtirb.SymAddrConst(0, ext)})
    a2 = add_code_block(bi, b"\xe9\x00\x00\x00\x00")
    # B (leaf, keeps a value in the red zone):
    #    mov $0x1234,%eax ; mov $0x5555,%ecx ; mov %rax,-8(%rsp) ; (falls into S)
    b = add_code_block(
        bi, bytes.fromhex("b834120000" "b955550000" "48894424f8")
    )
    # S (shared tail):  mov -8(%rsp),%rax ; ret
    s = add_code_block(bi, bytes.fromhex("488b4424f8" "c3"))
    s_sym = add_symbol(m, "S", s)
    bi.symbolic_expressions[a2.offset + 1] = gtirb.SymAddrConst(0, s_sym)

    cfg = m.ir.cfg
    add_edge(cfg, a, proxy, gtirb.Edge.Type.Call)
    add_edge(cfg, a, a2, gtirb.Edge.Type.Fallthrough)
    add_edge(cfg, a2, s, gtirb.Edge.Type.Branch)
    add_edge(cfg, b, s, gtirb.Edge.Type.Fallthrough)
    add_edge(cfg, s, add_proxy_block(m), gtirb.Edge.Type.Return)

    fa = add_function_object(m, "A", a, {a2, s})
    fb = add_function_object(m, "B", b, {s})
    funcs = [fb, fa] if order == "B,A" else [fa, fb]

    ctx = gtirb_rewriting.RewritingContext(m, funcs)
    leaf = {
        "A": m.aux_data["leafFunctions"].data[fa.uuid],
        "B": m.aux_data["leafFunctions"].data[fb.uuid],
    }

    @gtirb_rewriting.patch_constraints(clobbers_registers={"rcx"})
    def patch(ctx):
        return "nop"

    ctx.insert_at(s, 0, gtirb_rewriting.Patch.from_function(patch))
    ctx.apply()
    return bytes(bi.contents), b.offset, leaf


def red_zone_writes(code, start):
    """
    Independent oracle: follow B from its entry with a symbolic rsp (=0 at
    entry of B) and list the stores done by code the library generated (the
    push/pop/lea around the `nop` marker) that land in [-128, 0).
    """
    md = capstone.Cs(capstone.CS_ARCH_X86, capstone.CS_MODE_64)
    md.detail = True
    sp = 0
    listing, bad = [], []
    for insn in md.disasm(code[start:], 0):
        text = f"{insn.mnemonic} {insn.op_str}".strip()
        listing.append(text)
        if insn.mnemonic == "lea" and insn.op_str.startswith("rsp, [rsp"):
            sp += insn.operands[1].mem.disp
        elif insn.mnemonic == "push":
            sp -= 8
            if -RED_ZONE <= sp < 0:
                bad.append(f"`{text}` writes [rsp0{sp:+d}, rsp0{sp + 8:+d})")
        elif insn.mnemonic == "pop":
            sp += 8
        elif insn.mnemonic == "ret":
            break
    return listing, bad


def run_native(code, start):
    if platform.machine() not in ("x86_64", "AMD64"):
        return None
    buf = mmap.mmap(
        -1, 4096, prot=mmap.PROT_READ | mmap.PROT_WRITE | mmap.PROT_EXEC
    )
    buf.write(code)
    addr = ctypes.addressof(ctypes.c_char.from_buffer(buf))
    return ctypes.CFUNCTYPE(ctypes.c_uint64)(addr + start)()


def main():
    rc = 0
    for order in ("A,B", "B,A"):
        code, b_off, leaf = build(order)
        listing, bad = red_zone_writes(code, b_off)
        native = run_native(code, b_off)
        print(f"== RewritingContext(m, [{order}]);  leafFunctions = {leaf}")
        print("   B + S after rewriting: " + "; ".join(listing))
        print(f"   generated stores inside B's red zone: {bad or 'none'}")
        if native is not None:
            print(f"   native call of B(): {native:#x} (unpatched B returns 0x1234)")
        if bad or native not in (None, 0x1234):
            rc = 1
    print()
    print(
        "required: S is also part of B, B has no calls (leafFunctions[B]==1),"
        " so code generated around a patch in S must not write to"
        " [rsp-128, rsp) - independent of the order of the functions list."
    )
    print("VIOLATION" if rc else "no violation")
    return rc


if __name__ == "__main__":
    sys.exit(main())
