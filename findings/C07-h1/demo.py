"""
C07 finding 1: a registered insertion that designates a zero-sized code block
is never applied - apply() dies with a bare AssertionError (ENTRY) or a
capstone ValueError (EXIT / ANYWHERE), after it has already patched the blocks
at lower addresses.

The zero-sized code block is not hand-made: it is what gtirb-rewriting itself
leaves behind (doc/Deletion.md, "Deleting Whole Blocks") when the body of a
function at the end of .text is deleted while it still has a caller.

Exit status: 1 = violation present, 0 = fixed.
"""
import sys

import gtirb
import gtirb_functions
from gtirb_test_helpers import (
    add_code_block,
    add_edge,
    add_function,
    add_proxy_block,
    add_symbol,
    add_text_section,
    create_test_module,
)

import gtirb_rewriting
from gtirb_rewriting import (
    AllBlocksScope,
    AllFunctionsScope,
    BlockPosition,
    FunctionPosition,
    Patch,
    RewritingContext,
    SingleBlockScope,
    patch_constraints,
)

ET = gtirb.Edge.Type
MARK = bytes.fromhex("bbeeeeeeee")  # movl $0xeeeeeeee, %ebx


def build():
    """
    main:  call foo ; ret
    foo:   nop ; ret            <- last block of .text, called from main
    """
    ir, m = create_test_module(
        gtirb.Module.FileFormat.ELF, gtirb.Module.ISA.X64
    )
    _, bi = add_text_section(m, address=0x1000)
    foo_sym = gtirb.Symbol("foo", module=m)
    b_call = add_code_block(
        bi, b"\xe8\x00\x00\x00\x00", {(1, 4): gtirb.SymAddrConst(0, foo_sym)}
    )
    b_ret = add_code_block(bi, b"\xc3")
    b_foo = add_code_block(bi, b"\x90\xc3")
    foo_sym.referent = b_foo
    ret_proxy = add_proxy_block(m)
    add_edge(ir.cfg, b_call, b_foo, ET.Call)
    add_edge(ir.cfg, b_call, b_ret, ET.Fallthrough)
    add_edge(ir.cfg, b_ret, ret_proxy, ET.Return)
    add_edge(ir.cfg, b_foo, b_ret, ET.Return)
    add_function(m, "main", b_call, {b_ret})
    add_function(m, foo_sym, b_foo)
    return ir, m, bi, b_call, b_ret, b_foo


def marker_patch(log):
    @patch_constraints()
    def p(ctx):
        log.append((ctx.block, ctx.offset, ctx.function and ctx.function.get_name()))
        return "movl $0xeeeeeeee, %ebx"

    return Patch.from_function(p)


def attempt(title, make_scope):
    ir, m, bi, b_call, b_ret, b_foo = build()

    # Rewrite #1: stub out foo by deleting its whole body.  Per
    # doc/Deletion.md the block "has incoming control flow, but there isn't a
    # subsequent block in section", so a zero-sized block is left in the IR.
    ctx = RewritingContext(m, gtirb_functions.Function.build_functions(m))
    ctx.delete_at(b_foo, 0, b_foo.size)
    ctx.apply()
    if b_foo.module is not m or b_foo.size != 0:
        # (Not what happens today.)  Fall back to a hand-made empty block so
        # that the demo still exercises the property.
        print("   note: deletion did not leave a zero-sized block; building one")
        ir, m, bi, b_call, b_ret, b_foo = build()
        bi.contents = bi.contents[: b_foo.offset]
        bi.size = b_foo.offset
        b_foo.size = 0

    # Rewrite #2: an ordinary instrumentation pass.
    functions = gtirb_functions.Function.build_functions(m)
    log = []
    ctx = RewritingContext(m, functions)
    ctx.register_insert(make_scope(b_foo), marker_patch(log))
    print(f"--- {title}")
    try:
        ctx.apply()
        err = None
    except Exception as e:  # noqa
        err = e
    invoked = [(("foo" if b is b_foo else "main-block"), off, fn) for b, off, fn in log]
    print("   patch invoked for:", invoked)
    print("   exception        :", repr(err))
    # The property: the patch is applied exactly once in the (empty) block foo,
    # at offset 0, and the bytes of the marker are what the symbol foo labels.
    ok = (
        err is None
        and sum(1 for b, _, _ in log if b is b_foo) == 1
        and foo_landed(m, MARK)
    )
    print("   patch landed once at foo+0:", ok)
    return ok


def foo_landed(m, mark):
    sym = next(s for s in m.symbols if s.name == "foo")
    blk = sym.referent
    if not isinstance(blk, gtirb.CodeBlock) or blk.byte_interval is None:
        return False
    data = bytes(blk.byte_interval.contents)
    return (
        data[blk.offset : blk.offset + len(mark)] == mark
        and data.count(mark) >= 1
    )


results = [
    attempt(
        "AllBlocksScope(ENTRY)",
        lambda b: AllBlocksScope(BlockPosition.ENTRY),
    ),
    attempt(
        "AllBlocksScope(EXIT)",
        lambda b: AllBlocksScope(BlockPosition.EXIT),
    ),
    attempt(
        "AllFunctionsScope(ENTRY, ENTRY, {'foo'})",
        lambda b: AllFunctionsScope(
            FunctionPosition.ENTRY, BlockPosition.ENTRY, {"foo"}
        ),
    ),
    attempt(
        "SingleBlockScope(foo, ANYWHERE)",
        lambda b: SingleBlockScope(b, BlockPosition.ANYWHERE),
    ),
]

print()
print("property requires: every designated code block - including the empty")
print("block that still carries the symbol/function 'foo' - receives the patch")
print("exactly once at offset 0 (ENTRY = EXIT = ANYWHERE = 0 for an empty block).")
if all(results):
    print("OK: all insertions landed")
    sys.exit(0)
print("VIOLATION: insertion into the zero-sized block is never performed")
sys.exit(1)
