#!/usr/bin/env python
"""
C03 demo 2: a direct branch in a patch whose target label is an end-of-block
(at_end) symbol gets a CFG edge to the START of the symbol's block instead of
to the block at the position of the label.

Variant A - the at_end label is created by the library itself, by an earlier
patch of the same rewrite that ends in "jmp ...; label:" (a trampoline):

    f:  nop                      f:  nop
        nop   <- replace_at  =>      jmp g
        ret                      resume:
    g:  nop   <- insert_at           ret
        ret                      g:  jmp resume
                                     nop
                                     ret

Variant B - the at_end symbol is part of the input module (like the
end-of-function symbols ddisasm emits) and a single patch jumps to it.

Run:  cd /repo && PYTHONPATH=/repo/src /venv/bin/python hunt/2/demo.py
Exit status 1 = violation present, 0 = behaves as the property requires.
(HUNT_APPLY_FIX=1 applies the suggested fix as a run-time monkeypatch.)
"""
import os
import sys

import gtirb
import gtirb_functions
from gtirb_test_helpers import (
    add_code_block,
    add_edge,
    add_function,
    add_proxy_block,
    add_symbol,
    add_text_section,
    create_test_module,
    set_all_blocks_alignment,
)

import gtirb_rewriting
from gtirb_rewriting import Patch, patch_constraints

if os.environ.get("HUNT_APPLY_FIX"):
    sys.path.insert(0, os.path.join(os.path.dirname(__file__), ".."))
    import fixes

    fixes.fix_at_end_target()

E = gtirb.Edge.Type


def literal_patch(asm):
    @patch_constraints()
    def p(ctx):
        return asm

    return Patch.from_function(p)


def func(m, sym, entry, others=frozenset()):
    u = add_function(m, sym, entry, set(others))
    return gtirb_functions.Function(u, {entry}, {entry} | set(others), [sym])


def desc(n):
    if isinstance(n, gtirb.ProxyBlock):
        return "proxy"
    return f"block@{n.address:#x}(size {n.size})"


def sym_address(sym):
    blk = sym.referent
    return blk.address + (blk.size if sym.at_end else 0)


def check(m, label_name, jmp_addr):
    """The Branch edge of the block that ends with the jmp at jmp_addr must
    lead to the block that starts at the address of the label."""
    sym = next(s for s in m.symbols if s.name == label_name)
    want = sym_address(sym)
    src = next(
        b for b in m.code_blocks if b.address <= jmp_addr < b.address + b.size
    )
    (edge,) = [e for e in src.outgoing_edges if e.label.type == E.Branch]
    print(
        f"   label {label_name!r}: referent {desc(sym.referent)}, "
        f"at_end={sym.at_end}  => position {want:#x}"
    )
    print(f"   property requires: Branch edge -> the block starting at {want:#x}")
    print(f"   observed         : Branch edge -> {desc(edge.target)}")
    ok = (
        isinstance(edge.target, gtirb.CodeBlock)
        and edge.target.address == want
    )
    print("   OK" if ok else "   VIOLATION: the edge leads to the wrong block")
    return ok


def variant_a():
    print("Variant A: label made at_end by an earlier patch of the same rewrite")
    ir, m = create_test_module(
        gtirb.Module.FileFormat.ELF, gtirb.Module.ISA.X64
    )
    _, bi = add_text_section(m, address=0x1000)
    f_blk = add_code_block(bi, b"\x90\x90\xc3")  # f: nop; nop; ret
    g_blk = add_code_block(bi, b"\x90\xc3")  # g: nop; ret
    f_fn = func(m, add_symbol(m, "f", f_blk), f_blk)
    g_fn = func(m, add_symbol(m, "g", g_blk), g_blk)
    add_edge(ir.cfg, f_blk, add_proxy_block(m), E.Return)
    add_edge(ir.cfg, g_blk, add_proxy_block(m), E.Return)
    set_all_blocks_alignment(m, 1)

    ctx = gtirb_rewriting.RewritingContext(m, [f_fn, g_fn])
    ctx.replace_at(f_blk, 1, 1, literal_patch("jmp g\nresume:"))
    ctx.insert_at(g_blk, 0, literal_patch("jmp resume"))
    ctx.apply()

    # 0x1000 f: nop; jmp g | 0x1003 resume: ret | 0x1004 g: jmp resume; nop; ret
    assert bi.contents == b"\x90\xeb\x00\xc3\xeb\x00\x90\xc3", bi.contents
    return check(m, "resume", 0x1004)


def variant_b():
    print("Variant B: at_end symbol present in the input module")
    ir, m = create_test_module(
        gtirb.Module.FileFormat.ELF, gtirb.Module.ISA.X64
    )
    _, bi = add_text_section(m, address=0x1000)
    a_blk = add_code_block(bi, b"\x90\x90\xc3")  # f: nop; nop; ret
    b_blk = add_code_block(bi, b"\x90\xc3")  # g: nop; ret
    f_fn = func(m, add_symbol(m, "f", a_blk), a_blk)
    g_fn = func(m, add_symbol(m, "g", b_blk), b_blk)
    end_sym = add_symbol(m, "f_end", a_blk)
    end_sym.at_end = True  # f_end == address of g
    add_edge(ir.cfg, a_blk, add_proxy_block(m), E.Return)
    add_edge(ir.cfg, b_blk, add_proxy_block(m), E.Return)
    set_all_blocks_alignment(m, 1)

    ctx = gtirb_rewriting.RewritingContext(m, [f_fn, g_fn])
    ctx.replace_at(a_blk, 1, 1, literal_patch("jmp f_end"))
    ctx.apply()
    # 0x1000 f: nop; jmp f_end; ret | 0x1004 f_end: g: nop; ret
    assert bi.contents == b"\x90\xeb\x00\xc3\x90\xc3", bi.contents
    return check(m, "f_end", 0x1001)


ok_a = variant_a()
print()
ok_b = variant_b()
sys.exit(0 if ok_a and ok_b else 1)
