"""
C13 demo 3: AArch64 literal-pool loads (`ldr Xn, =expr`) with
allow_undef_symbols=True (what `python -m gtirb_rewriting.assembler` uses).

LLVM rewrites `ldr x0, =sym` into `ldr x0, .LtmpN` and queues `.LtmpN: .xword
sym` for the literal pool.  The pool is never emitted through the streamer, so
the library sees a reference to a name that nobody defined, and
_Streamer._resolve_symbol turns that LLVM-internal temporary into an extern
(proxy-backed) symbol.  The name the text actually referred to is dropped.

Run:  cd /repo && PYTHONPATH=/repo/src /venv/bin/python hunt2/3/demo.py
Exits 1 when the violation is present, 0 when fixed (either by emitting the
pool or by refusing the input).
"""
import sys

import gtirb
from gtirb_test_helpers import (
    add_code_block,
    add_symbol,
    add_text_section,
    create_test_module,
)

from gtirb_rewriting.assembler import Assembler
from gtirb_rewriting.assembler.assembler import AssemblerError


def run(text):
    _, m = create_test_module(
        gtirb.Module.FileFormat.ELF, gtirb.Module.ISA.ARM64
    )
    _, bi = add_text_section(m, address=0x1000)
    modsym = add_symbol(m, "modsym", add_code_block(bi, b"\x1f\x20\x03\xd5"))
    asm = Assembler(m, allow_undef_symbols=True)
    try:
        asm.assemble(text)
        return modsym, asm.finalize()
    except AssemblerError as exc:
        return modsym, exc


def referenced(result):
    return [
        s
        for sect in result.sections.values()
        for e in sect.symbolic_expressions.values()
        for s in e.symbols
    ]


violations = 0
for title, text, wanted in [
    (
        "name that exists in the target module",
        "ldr x0, =modsym\nret\n",
        "modsym",
    ),
    ("unknown name, undefined symbols allowed", "ldr x0, =ext\nret\n", "ext"),
]:
    modsym, res = run(text)
    print(f"--- {title}")
    print("input:   ", text.replace("\n", " ; "))
    if isinstance(res, AssemblerError):
        print(f"observed: refused with {type(res).__name__}: {res}")
        print("=> ok (a refusal is acceptable)")
        print()
        continue

    created = [
        (s.name, type(s.referent).__name__ if s.referent else None)
        for s in res.symbols
    ]
    refs = referenced(res)
    if wanted == "modsym":
        print(
            "required: the reference binds to the module's 'modsym' Symbol "
            "object; no new symbol is created"
        )
        good = any(s is modsym for s in refs) and not created
    else:
        print(
            "required: exactly one proxy-backed symbol, named 'ext', and the "
            "code refers to it"
        )
        good = created == [("ext", "ProxyBlock")] and any(
            s.name == "ext" for s in refs
        )
    print("observed: bytes   =", res.text_section.data.hex())
    print("          created =", created)
    print("          referenced by the code =", [s.name for s in refs])
    print("=> ok" if good else "=> VIOLATION")
    print()
    violations += not good

print("violations:", violations)
sys.exit(1 if violations else 0)
