#!/usr/bin/env python
"""
C09 finding 3: data blocks that a patch adds to an existing section
(".data ... .text" inside the patch, a documented feature) are entered into the
block-ordering cache as "detached": they have no neighbours and are nobody's
neighbour.  A later deletion in the same apply() therefore believes the section
has no other block although the IR section already contains one.

    .text  A: push %rax; pop %rax; ret        f:
    .data  D: 01 02                           var:

    modifications (address order):
        1. insert_at(A, 0, "nop / .data / .Lnew: .byte 5 / .text")
        2. delete_at(D, 0, 2)                 -- the whole block

doc/Deletion.md: a zero-sized block is only left behind when "there are symbols
attached to the block, but there are no other blocks in the section to move
them to".  After step 1 section .data holds a second block.  Applied one at a
time, D is removed and `var` moves to the other block; in one apply() the cache
reports (None, None) as D's neighbours, D is kept as a zero-sized block and
`var` stays on it.

Exit status: 1 if the violation is present, 0 otherwise.
"""
import sys

import gtirb
import gtirb_functions
from gtirb_test_helpers import (
    add_code_block,
    add_data_block,
    add_data_section,
    add_function,
    add_proxy_block,
    add_symbol,
    add_text_section,
    create_test_module,
)

import gtirb_rewriting
import gtirb_rewriting.rewriting as rw
from gtirb_rewriting import Patch, patch_constraints


@patch_constraints()
def patch_with_data(ctx):
    return """
        nop
        .data
    .Lnew:
        .byte 5
        .text
    """


def build():
    ir, m = create_test_module(gtirb.Module.FileFormat.ELF, gtirb.Module.ISA.X64)
    _, tbi = add_text_section(m, address=0x1000)
    a = add_code_block(tbi, b"\x50\x58\xc3")
    add_function(m, "f", a)
    ir.cfg.add(
        gtirb.Edge(a, add_proxy_block(m), gtirb.Edge.Label(gtirb.Edge.Type.Return))
    )
    _, dbi = add_data_section(m, address=0x4000)
    d = add_data_block(dbi, b"\x01\x02")
    var = add_symbol(m, "var", d)
    return m, a, d, var


def new_ctx(m):
    return gtirb_rewriting.RewritingContext(
        m, gtirb_functions.Function.build_functions(m)
    )


def data_section(m):
    sect = next(s for s in m.sections if s.name == ".data")
    rows = []
    for blk in sect.byte_blocks:
        rows.append(
            "DataBlock size=%d bytes=%s symbols=%s"
            % (
                blk.size,
                blk.contents.hex(),
                sorted((s.name.rstrip("_0123456789"), s.at_end) for s in blk.references),
            )
        )
    return sorted(rows)


mid_rewrite = {}
_orig_delete = rw.delete


def _delete(cache, block, offset, length, retarget_to_proxy=False):
    mid_rewrite["cache"] = cache.adjacent_blocks(block)
    mid_rewrite["ir_others"] = [
        b for b in block.section.byte_blocks if b is not block
    ]
    return _orig_delete(cache, block, offset, length, retarget_to_proxy)


def main():
    # batch
    rw.delete = _delete
    m1, a, d, var = build()
    ctx = new_ctx(m1)
    ctx.insert_at(a, 0, Patch.from_function(patch_with_data))
    ctx.delete_at(d, 0, d.size)
    ctx.apply()
    rw.delete = _orig_delete
    batch = data_section(m1)

    # one at a time, address order (.text 0x1000 before .data 0x4000)
    m2, a, d, var = build()
    ctx = new_ctx(m2)
    ctx.insert_at(a, 0, Patch.from_function(patch_with_data))
    ctx.apply()
    ctx = new_ctx(m2)
    ctx.delete_at(d, 0, d.size)
    ctx.apply()
    seq = data_section(m2)

    print("batch        .data:", *batch, sep="\n    ")
    print("one at a time .data:", *seq, sep="\n    ")
    print(
        "mid-rewrite, before step 2: cache.adjacent_blocks(D) = %s ; other "
        "blocks in D's section according to the IR: %d"
        % (mid_rewrite["cache"], len(mid_rewrite["ir_others"]))
    )
    print(
        "property requires: same module both ways (D removed, `var` moved to "
        "the remaining .data block, no zero-sized block)"
    )
    zero_left = any("size=0" in r for r in batch)
    cache_blind = mid_rewrite["cache"] == (None, None) and mid_rewrite["ir_others"]
    bad = zero_left or bool(cache_blind) or (
        [r.split(" bytes")[0] for r in batch] != [r.split(" bytes")[0] for r in seq]
    )
    print("VIOLATION" if bad else "ok")
    return 1 if bad else 0


if __name__ == "__main__":
    sys.exit(main())
