#!/usr/bin/env python
"""
C01 finding 2: once the deletions registered for a block have consumed all of
the block's remaining bytes, any later request for the same block (e.g. an
insert_at at the block's end) makes apply() die on a bare internal assertion
instead of producing the edited bytes.

Run:  cd /repo && PYTHONPATH=/repo/src /venv/bin/python hunt/2/demo.py
Exit status 1 = violation present, 0 = fixed.
"""
import sys
import traceback

sys.path.insert(0, "/repo/tests")

import gtirb
from gtirb_test_helpers import (
    add_code_block,
    add_edge,
    add_proxy_block,
    add_text_section,
    create_test_module,
)
from helpers import add_function_object, literal_patch

import gtirb_rewriting

NOP = b"\x90"


def run(name, register, expected):
    # f:  push rax; push rcx; push rdx; push rbx      <- block b
    #     push rsp; ret                                <- block b2
    ir, m = create_test_module(
        gtirb.Module.FileFormat.ELF, gtirb.Module.ISA.X64
    )
    _, bi = add_text_section(m, address=0x1000)
    b = add_code_block(bi, b"\x50\x51\x52\x53")
    b2 = add_code_block(bi, b"\x54\xc3")
    add_edge(ir.cfg, b, b2, gtirb.Edge.Type.Fallthrough)
    add_edge(ir.cfg, b2, add_proxy_block(m), gtirb.Edge.Type.Return)
    func = add_function_object(m, "f", b, {b2})

    ctx = gtirb_rewriting.RewritingContext(m, [func])
    register(ctx, b)
    print(name)
    print("  property requires :", expected.hex(" "))
    try:
        ctx.apply()
    except Exception as exc:  # noqa: BLE001
        frame = traceback.extract_tb(exc.__traceback__)[-1]
        print(
            "  observed          : %s(%s) at %s:%d: %s"
            % (
                type(exc).__name__,
                exc,
                frame.filename.split("/")[-1],
                frame.lineno,
                frame.line,
            )
        )
        return False
    got = bytes(bi.contents)
    print("  observed          :", got.hex(" "))
    return got == expected


def main():
    nop = lambda: literal_patch("nop")  # noqa: E731
    results = []

    # Reference: the same edit expressed as one replace_at works.
    results.append(
        run(
            "reference: replace_at(b, 0, 4, nop)",
            lambda c, b: c.replace_at(b, 0, 4, nop()),
            NOP + b"\x54\xc3",
        )
    )
    # Listing view: delete the four pushes, add a nop where they ended.
    results.append(
        run(
            "delete_at(b, 0, 4); insert_at(b, 4, nop)",
            lambda c, b: (c.delete_at(b, 0, 4), c.insert_at(b, 4, nop())),
            NOP + b"\x54\xc3",
        )
    )
    # No whole-block deletion is requested here, two partial ones are enough.
    results.append(
        run(
            "delete_at(b, 0, 2); delete_at(b, 2, 2); insert_at(b, 4, nop)",
            lambda c, b: (
                c.delete_at(b, 0, 2),
                c.delete_at(b, 2, 2),
                c.insert_at(b, 4, nop()),
            ),
            NOP + b"\x54\xc3",
        )
    )
    # Nor does the deletion have to start at offset 0: an earlier patch that
    # ends its own block (here with ret) leaves the tail as a separate block.
    results.append(
        run(
            "replace_at(b, 0, 1, 'ret'); delete_at(b, 1, 3); "
            "insert_at(b, 4, nop)",
            lambda c, b: (
                c.replace_at(b, 0, 1, literal_patch("ret")),
                c.delete_at(b, 1, 3),
                c.insert_at(b, 4, nop()),
            ),
            b"\xc3" + NOP + b"\x54\xc3",
        )
    )
    if all(results):
        print("all cases produce the bytes the property requires")
        return 0
    print("VIOLATION: %d of %d cases failed" % (results.count(False), len(results)))
    return 1


if __name__ == "__main__":
    sys.exit(main())
