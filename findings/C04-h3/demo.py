#!/usr/bin/env python
"""
C04 finding 3: on AArch64 (and ARM) a patch operand `sym+(-4)` in a
PC-relative instruction loses its addend: the created expression is `sym+0`.
Every other addend (`+4`, `-8`, `-3`, ...) is kept.

Run:  cd /repo && PYTHONPATH=/repo/src /venv/bin/python hunt/3/demo.py
Exit status 1 = violation present, 0 = fixed.
"""
import sys

import gtirb
from gtirb_test_helpers import (
    add_code_block,
    add_data_block,
    add_data_section,
    add_edge,
    add_proxy_block,
    add_symbol,
    add_text_section,
    create_test_module,
)

sys.path.insert(0, "/repo/tests")
from helpers import add_function_object, literal_patch  # noqa: E402

from gtirb_rewriting import RewritingContext  # noqa: E402


def rewrite(asm):
    """AArch64 ELF module:  f: ret ;  .data  var: .xword 0, 0 ; insert `asm` before the ret."""
    ir, m = create_test_module(
        isa=gtirb.Module.ISA.ARM64, file_format=gtirb.Module.FileFormat.ELF
    )
    _, bi = add_text_section(m, address=0x1000)
    _, dbi = add_data_section(m, address=0x4000)
    b = add_code_block(bi, b"\xc0\x03\x5f\xd6")  # ret
    add_edge(ir.cfg, b, add_proxy_block(m), gtirb.Edge.Type.Return)
    f = add_function_object(m, "f", b)
    var = add_symbol(m, "var", add_data_block(dbi, b"\x00" * 16))
    ctx = RewritingContext(m, [f])
    ctx.insert_at(b, 0, literal_patch(asm))
    ctx.apply()
    (off, expr), = bi.symbolic_expressions.items()
    assert off == 0, off  # patch position 0 + offset 0 inside the patch
    assert expr.symbol is var and len(list(m.symbols_named("var"))) == 1
    return expr.offset


bad = False
print("patch (inserted at f+0)          required addend   observed addend")
for addend in (8, 4, -3, -4, -8, -12):
    asm = "ldr x1, var+(%d)" % addend
    got = rewrite(asm)
    flag = "" if got == addend else "   <-- addend lost"
    print("  %-30s %+4d              %+4d%s" % (asm, addend, got, flag))
    if got != addend:
        bad = True

# the data directive and the non-literal forms keep -4, so it is not a
# limitation on negative addends as such
for asm in (".xword var+(-4)", "adr x1, var+(-4)"):
    got = rewrite(asm)
    print("  %-30s %+4d              %+4d" % (asm, -4, got))
    assert got == -4

print()
if bad:
    print("VIOLATION: `ldr x1, var+(-4)` created SymAddrConst(0, var): the patch expression did not")
    print("keep its addend, the patched code loads from var instead of var-4.")
    sys.exit(1)
print("ok")
sys.exit(0)
