"""
C19 finding 2: when delete_symbol has to refuse (SymbolUsesRemainingError,
symbol still used and not forced) the module has already been edited: every
aux-data trace of the symbols is gone (and CFI operands nulled), forced
symbols may already have lost their expressions, yet all symbols are still in
the module and still used.

Run:  cd /repo && PYTHONPATH=/repo/src /venv/bin/python hunt/2/demo.py
Exits 1 when the violation is present, 0 otherwise.
"""
import sys

import gtirb
from gtirb_test_helpers import (
    add_code_block,
    add_data_block,
    add_data_section,
    add_elf_symbol_info,
    add_function,
    add_symbol,
    add_text_section,
    create_test_module,
)

import gtirb_rewriting
from gtirb_rewriting._auxdata import NULL_UUID

bad = False

# ---------------------------------------------------------------- case A
# foo: ud2
# bar: .cfi_startproc ; .cfi_personality 0, foo ; call foo ; .cfi_endproc
ir, m = create_test_module(gtirb.Module.FileFormat.ELF, gtirb.Module.ISA.X64)
_, bi = add_text_section(m, address=0x1000)
b1 = add_code_block(bi, b"\x0F\x0B")
foo = add_symbol(m, "foo", b1)
foo_fn = add_function(m, foo, b1)
b2 = add_code_block(
    bi, b"\xE8\x00\x00\x00\x00", {(1, 4): gtirb.SymAddrConst(0, foo)}
)
bar = add_symbol(m, "bar", b2)
add_function(m, bar, b2)
add_elf_symbol_info(m, foo, 0, "FUNC")
add_elf_symbol_info(m, bar, 0, "FUNC")
m.aux_data["cfiDirectives"].data = {
    gtirb.Offset(b2, 0): [
        (".cfi_startproc", [], NULL_UUID),
        (".cfi_personality", [0], foo),
    ],
    gtirb.Offset(b2, b2.size): [(".cfi_endproc", [], NULL_UUID)],
}
m.aux_data["symbolForwarding"].data = {bar: foo}

ctx = gtirb_rewriting.RewritingContext(m, [])
ctx.delete_symbol(foo)  # not forced, "call foo" still uses it
try:
    ctx.apply()
    print("A: no exception?!")
    bad = True
except gtirb_rewriting.SymbolUsesRemainingError as e:
    print("A: call failed as required:", e)

print("A: foo still in module:", foo in m.symbols)
print("A: call foo expression still there:", dict(bi.symbolic_expressions))
obs = {
    "elfSymbolInfo has foo": foo in m.aux_data["elfSymbolInfo"].data,
    "functionNames has foo": foo_fn in m.aux_data["functionNames"].data,
    "symbolForwarding bar->foo": m.aux_data["symbolForwarding"].data.get(bar)
    is foo,
    "cfi personality names foo": m.aux_data["cfiDirectives"].data[
        gtirb.Offset(b2, 0)
    ][1]
    == (".cfi_personality", [0], foo),
}
for k, v in obs.items():
    print(f"A:   {k}: {v}   (required: True - nothing was deleted)")
if not all(obs.values()):
    bad = True
    print(
        "A: VIOLATION: the deletion was refused, foo is still a symbol of "
        "the module and still called, but its aux-data entries were removed"
    )

# ---------------------------------------------------------------- case B
# two symbols at once: a (force=True) used in one byte interval, b
# (force=False) used in another.  The call must fail because of b; a was "not deleted" either,
# but its use is silently dropped.
ir, m = create_test_module(gtirb.Module.FileFormat.ELF, gtirb.Module.ISA.X64)
_, tbi = add_text_section(m, address=0x1000)
_, dbi = add_data_section(m, address=0x4000)
ta = add_code_block(tbi, b"\x0F\x0B")
a = add_symbol(m, "a", ta)
tb = add_code_block(tbi, b"\x0F\x0B")
b = add_symbol(m, "b", tb)
# The library walks module.byte_intervals in an unspecified (set) order; put
# the use of the forced symbol in whichever interval it visits first.
first, second = list(m.byte_intervals)
tc = add_code_block(tbi, b"\xE8\x00\x00\x00\x00")
add_data_block(dbi, b"\x00" * 8)
tbi.symbolic_expressions[tc.offset + 1] = gtirb.SymAddrConst(
    0, a if first is tbi else b
)
dbi.symbolic_expressions[0] = gtirb.SymAddrConst(0, a if first is dbi else b)
a_use = first

ctx = gtirb_rewriting.RewritingContext(m, [])
ctx.delete_symbol(a, force=True)
ctx.delete_symbol(b, force=False)
try:
    ctx.apply()
    print("B: no exception?!")
    bad = True
except gtirb_rewriting.SymbolUsesRemainingError as e:
    print("B: call failed as required:", e)
print("B: a still in module:", a in m.symbols, " b still in module:", b in m.symbols)
print("B: .text expressions:", dict(tbi.symbolic_expressions))
print("B: .data expressions:", dict(dbi.symbolic_expressions))
if a in m.symbols and not a_use.symbolic_expressions:
    bad = True
    print(
        "B: VIOLATION: nothing was deleted (both symbols remain), but the "
        "expression that uses 'a' was removed"
    )

sys.exit(1 if bad else 0)
