import sys
sys.path.insert(0, "/repo/tests")
import gtirb, gtirb_rewriting
from gtirb_test_helpers import create_test_module, add_text_section, add_data_section, add_code_block, add_data_block, add_symbol
ir, m = create_test_module(gtirb.Module.FileFormat.ELF, gtirb.Module.ISA.X64)
_, bi = add_data_section(m, address=0x2000)
bi.contents = b"\x01\x02\x03\x04\x05\x06"; bi.size = 6
a = gtirb.DataBlock(offset=0, size=4); a.byte_interval = bi
b = gtirb.DataBlock(offset=2, size=4); b.byte_interval = bi
ctx = gtirb_rewriting.RewritingContext(m, [])
ctx.delete_at(a, 3, 1)
ctx.apply()
for blk in sorted(m.data_blocks, key=lambda x: (x.offset, x.size)):
    print(type(blk).__name__, "bi size", blk.byte_interval.size, "off", blk.offset, "size", blk.size, "contents", bytes(blk.byte_interval.contents))
    if blk.offset + blk.size > blk.byte_interval.size: print("  BLOCK EXTENDS PAST ITS BYTE INTERVAL")
try:
    import io; ir.save_protobuf_file(io.BytesIO()); print("saved ok")
except Exception as e: print("save failed", e)
