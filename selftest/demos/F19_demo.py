import sys
sys.path.insert(0, "/repo/tests")
import gtirb, gtirb_rewriting
from gtirb_test_helpers import create_test_module, add_text_section, add_data_section, add_code_block, add_data_block, add_symbol
from gtirb_rewriting import Patch, patch_constraints

@patch_constraints()
def p(ctx):
    return ".byte 0xAA\nlbl:\n"

ir, m = create_test_module(gtirb.Module.FileFormat.ELF, gtirb.Module.ISA.X64)
_, bi = add_data_section(m, address=0x2000)
d = add_data_block(bi, b"\x01\x02\x03\x04")
ctx = gtirb_rewriting.RewritingContext(m, [])
ctx.insert_at(d, 2, Patch.from_function(p))
ctx.apply()
lbl = next(s for s in m.symbols if s.name == "lbl")
blk = lbl.referent
print("contents", bytes(bi.contents), "lbl ->", blk, "at_end", lbl.at_end, "block off/size", blk.offset, blk.size)
pos = blk.offset + (blk.size if lbl.at_end else 0)
print("lbl designates offset", pos, "(expected 3: right after the inserted 0xAA)")
sys.exit(0 if pos == 3 else 1)
