import sys
sys.path.insert(0, "/repo/tests")
import gtirb, gtirb_rewriting
from gtirb_test_helpers import create_test_module, add_text_section, add_code_block, add_edge, add_proxy_block, set_all_blocks_alignment, add_symbol
from helpers import add_function_object
from gtirb_rewriting import Patch, patch_constraints

def dump(m, ir):
    names = {}
    for s in m.symbols:
        if s.referent is not None: names.setdefault(s.referent.uuid, []).append(s.name)
    def nm(b):
        if isinstance(b, gtirb.ProxyBlock): return "proxy:" + ",".join(names.get(b.uuid, ["?"]))
        return f"{type(b).__name__}@{b.byte_interval.address + b.offset if b.byte_interval else None}+{b.size}[{','.join(names.get(b.uuid, []))}]" + ("" if b.module is m else " NOT-IN-MODULE")
    for b in sorted(m.code_blocks, key=lambda b: (b.address, b.size)):
        print(" ", nm(b), bytes(b.contents).hex())
        for e in sorted(b.outgoing_edges, key=lambda e: str(e.label)):
            print("     ->", nm(e.target), e.label.type.name if e.label else None, "cond" if e.label and e.label.conditional else "", "direct" if e.label and e.label.direct else "indirect")

def build():
    ir, m = create_test_module(gtirb.Module.FileFormat.ELF, gtirb.Module.ISA.X64)
    _, bi = add_text_section(m, address=0x1000)
    b = add_code_block(bi, b"\x50\x58\xC3")   # push rax; pop rax; ret
    t = add_code_block(bi, b"\x90\xC3")       # target: nop; ret
    func = add_function_object(m, "func", b)
    tf = add_function_object(m, "target", t)
    add_edge(ir.cfg, b, add_proxy_block(m), gtirb.Edge.Type.Return)
    add_edge(ir.cfg, t, add_proxy_block(m), gtirb.Edge.Type.Return)
    set_all_blocks_alignment(m, 1)
    return ir, m, bi, b, t, func, tf

def patch(text):
    @patch_constraints()
    def p(ctx): return text
    return Patch.from_function(p)

print("A: `jmp target` inserted at offset 1 of push;pop;ret")
ir, m, bi, b, t, func, tf = build()
ctx = gtirb_rewriting.RewritingContext(m, [func, tf]); ctx.insert_at(b, 1, patch("jmp target")); ctx.apply(); dump(m, ir)
print("A2: `ret` inserted at offset 1")
ir, m, bi, b, t, func, tf = build()
ctx = gtirb_rewriting.RewritingContext(m, [func, tf]); ctx.insert_at(b, 1, patch("ret")); ctx.apply(); dump(m, ir)
print("B: delete the ret terminator of func (offset 2, len 1)")
ir, m, bi, b, t, func, tf = build()
ctx = gtirb_rewriting.RewritingContext(m, [func, tf]); ctx.delete_at(b, 2, 1); ctx.apply(); dump(m, ir)
print("C: insert nop at end (offset 3) of func (after ret: no fallthrough)")
ir, m, bi, b, t, func, tf = build()
ctx = gtirb_rewriting.RewritingContext(m, [func, tf]); ctx.insert_at(b, 3, patch("nop")); ctx.apply(); dump(m, ir)
print("D: patch with two calls to target (caller-less) at offset 1")
ir, m, bi, b, t, func, tf = build()
ctx = gtirb_rewriting.RewritingContext(m, [func, tf]); ctx.insert_at(b, 1, patch("call target\ncall target")); ctx.apply(); dump(m, ir)
