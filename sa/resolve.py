"""
Name and call resolution (annotation driven) and the package call graph.
"""

from __future__ import annotations

import ast
from typing import Dict, Iterable, List, Optional, Set, Tuple

from .astx import attr_path, calls_in, walk_no_nested, src
from .core import ClassInfo, FuncInfo, Mod, Repo

# ----------------------------------------------------------------------------
# Names
# ----------------------------------------------------------------------------


def resolve_name(repo: Repo, mod: Mod, name: str, depth: int = 0):
    """
    -> ('module', modname) | ('func', FuncInfo) | ('class', ClassInfo)
     | ('var', modname, varname) | ('ext', dotted) | None
    """
    if depth > 6:
        return None
    if name in mod.functions:
        return ("func", mod.functions[name])
    if name in mod.classes:
        return ("class", mod.classes[name])
    if mod.toplevel_assign(name) is not None:
        return ("var", mod.name, name)
    imp = mod.imports.get(name)
    if imp is None:
        return None
    if imp.startswith("ext:"):
        return ("ext", imp[4:])
    if imp.startswith("mod:"):
        return ("module", imp[4:])
    _, base, attr, sub = imp.split(":")
    if sub in repo.mods:
        return ("module", sub)
    target = repo.mods.get(base)
    if target is None:
        return None
    return resolve_name(repo, target, attr, depth + 1)


def resolve_attr_chain(repo: Repo, mod: Mod, path: Tuple[str, ...]):
    """Resolve a.b.c where a is a module alias / class / etc."""
    cur = resolve_name(repo, mod, path[0])
    i = 1
    while cur is not None and i < len(path):
        kind = cur[0]
        if kind == "module":
            m = repo.mods.get(cur[1])
            sub = (cur[1] + "." if cur[1] else "") + path[i]
            if sub in repo.mods:
                cur = ("module", sub)
            elif m is not None:
                cur = resolve_name(repo, m, path[i])
            else:
                cur = None
        elif kind == "class":
            ci: ClassInfo = cur[1]
            q = f"{ci.qual}.{path[i]}"
            if q in repo.classes:
                cur = ("class", repo.classes[q])
            else:
                fi = repo.method(ci, path[i])
                cur = ("func", fi) if fi else ("classattr", ci, path[i])
        elif kind == "ext":
            cur = ("ext", cur[1] + "." + path[i])
        elif kind == "var":
            return ("varattr", cur[1], cur[2], path[i:])
        else:
            return None
        i += 1
    return cur


# ----------------------------------------------------------------------------
# Types (very small annotation-driven inference)
# ----------------------------------------------------------------------------


def _ann_class(repo: Repo, mod: Mod, ann: Optional[ast.expr]) -> Optional[ClassInfo]:
    if ann is None:
        return None
    if isinstance(ann, ast.Constant) and isinstance(ann.value, str):
        try:
            ann = ast.parse(ann.value, mode="eval").body
        except SyntaxError:
            return None
    if isinstance(ann, ast.Subscript):
        base = src(ann.value)
        if base in ("Optional", "typing.Optional"):
            return _ann_class(repo, mod, ann.slice)
        if base in ("Type", "type"):
            return None
        return _ann_class(repo, mod, ann.value)
    p = attr_path(ann)
    if p is None:
        return None
    r = resolve_attr_chain(repo, mod, p)
    if r and r[0] == "class":
        return r[1]
    return None


class TypeEnv:
    """Types of names inside one function."""

    def __init__(self, repo: Repo, fi: FuncInfo):
        self.repo = repo
        self.fi = fi
        self.vars: Dict[str, ClassInfo] = {}
        cur: Optional[FuncInfo] = fi
        chain = []
        while cur is not None:
            chain.append(cur)
            cur = cur.parent
        for f in reversed(chain):
            for a in f.params:
                c = _ann_class(repo, f.mod, a.annotation)
                if c:
                    self.vars[a.arg] = c
            if f.cls is not None and f.params and f.parent is None:
                first = f.params[0].arg
                if first in ("self", "cls") and "staticmethod" not in f.decorators():
                    self.vars[first] = f.cls
            for n in walk_no_nested(f.node):
                if isinstance(n, ast.AnnAssign) and isinstance(n.target, ast.Name):
                    c = _ann_class(repo, f.mod, n.annotation)
                    if c:
                        self.vars[n.target.id] = c
                elif isinstance(n, ast.Assign) and len(n.targets) == 1:
                    t = n.targets[0]
                    if isinstance(t, ast.Name) and t.id not in self.vars:
                        c = self.type_of(n.value)
                        if c:
                            self.vars[t.id] = c
                elif isinstance(n, (ast.With, ast.AsyncWith)):
                    for it in n.items:
                        if isinstance(it.optional_vars, ast.Name):
                            c = self.type_of(it.context_expr, ctxmgr=True)
                            if c:
                                self.vars[it.optional_vars.id] = c

    def type_of(self, e: ast.expr, ctxmgr: bool = False) -> Optional[ClassInfo]:
        repo = self.repo
        if isinstance(e, ast.Name):
            return self.vars.get(e.id)
        if isinstance(e, ast.Attribute):
            base = self.type_of(e.value)
            if base is not None:
                return class_attr_type(repo, base, e.attr)
            return None
        if isinstance(e, ast.Call):
            targets = resolve_call(repo, self.fi, e, self)
            for t in targets:
                if isinstance(t, ClassInfo):
                    return t
                if isinstance(t, FuncInfo):
                    if t.name == "__init__" and t.cls:
                        return t.cls
                    ret = t.node.returns
                    if ret is not None:
                        # Iterator[X] for context managers
                        if (
                            ctxmgr
                            and isinstance(ret, ast.Subscript)
                            and src(ret.value) in ("Iterator", "Generator")
                        ):
                            sl = ret.slice
                            if isinstance(sl, ast.Tuple):
                                sl = sl.elts[0]
                            return _ann_class(repo, t.mod, sl)
                        if src(ret) in ("Self", '"Self"') and t.cls:
                            return t.cls
                        return _ann_class(repo, t.mod, ret)
        return None


_ATTR_CACHE: Dict[Tuple[str, str], Optional[ClassInfo]] = {}


def class_attr_type(repo: Repo, ci: ClassInfo, attr: str) -> Optional[ClassInfo]:
    key = (ci.qual + "@" + str(id(repo)), attr)
    if key in _ATTR_CACHE:
        return _ATTR_CACHE[key]
    _ATTR_CACHE[key] = None
    res: Optional[ClassInfo] = None
    for c in repo.mro(ci):
        # class-level annotations (dataclass fields)
        for st in c.node.body:
            if (
                isinstance(st, ast.AnnAssign)
                and isinstance(st.target, ast.Name)
                and st.target.id == attr
            ):
                res = _ann_class(repo, c.mod, st.annotation)
                break
        if res:
            break
        init = c.methods.get("__init__")
        if init is not None:
            env = None
            for n in walk_no_nested(init.node):
                tgt = None
                val = None
                ann = None
                if isinstance(n, ast.Assign) and len(n.targets) == 1:
                    tgt, val = n.targets[0], n.value
                elif isinstance(n, ast.AnnAssign):
                    tgt, val, ann = n.target, n.value, n.annotation
                if (
                    isinstance(tgt, ast.Attribute)
                    and isinstance(tgt.value, ast.Name)
                    and tgt.value.id == "self"
                    and tgt.attr == attr
                ):
                    if ann is not None:
                        res = _ann_class(repo, c.mod, ann)
                    if res is None and val is not None:
                        env = env or TypeEnv(repo, init)
                        res = env.type_of(val)
                    if res:
                        break
        if res:
            break
        # properties
        m = c.methods.get(attr)
        if m is not None and any("property" in d for d in m.decorators()):
            res = _ann_class(repo, m.mod, m.node.returns)
            if res:
                break
    _ATTR_CACHE[key] = res
    return res


# ----------------------------------------------------------------------------
# Calls
# ----------------------------------------------------------------------------


def _method_targets(repo: Repo, ci: ClassInfo, name: str) -> List[FuncInfo]:
    out: List[FuncInfo] = []
    m = repo.method(ci, name)
    if m is not None:
        out.append(m)
    for sub in repo.subclasses(ci):
        if name in sub.methods and sub.methods[name] not in out:
            out.append(sub.methods[name])
    return out


_UNIQUE: Dict[int, Dict[str, List[FuncInfo]]] = {}


def _by_method_name(repo: Repo) -> Dict[str, List[FuncInfo]]:
    k = id(repo)
    if k not in _UNIQUE:
        d: Dict[str, List[FuncInfo]] = {}
        for f in repo.funcs.values():
            if f.cls is not None and f.parent is None:
                d.setdefault(f.name, []).append(f)
        _UNIQUE[k] = d
    return _UNIQUE[k]


def resolve_call(
    repo: Repo, fi: FuncInfo, call: ast.Call, env: Optional[TypeEnv] = None
) -> List[object]:
    """-> list of FuncInfo / ClassInfo (constructors); [] if external/unknown."""
    f = call.func
    mod = fi.mod
    if isinstance(f, ast.Name):
        # nested defs of enclosing functions
        cur: Optional[FuncInfo] = fi
        while cur is not None:
            q = f"{cur.qual}.{f.id}"
            if q in repo.funcs:
                return [repo.funcs[q]]
            cur = cur.parent
        r = resolve_name(repo, mod, f.id)
        if r is None:
            return []
        if r[0] == "func":
            return [r[1]]
        if r[0] == "class":
            ci = r[1]
            init = repo.method(ci, "__init__")
            return [init] if init else [ci]
        return []
    if isinstance(f, ast.Attribute):
        # super().m()
        if (
            isinstance(f.value, ast.Call)
            and isinstance(f.value.func, ast.Name)
            and f.value.func.id == "super"
            and fi.cls is not None
        ):
            for c in repo.mro(fi.cls)[1:]:
                if f.attr in c.methods:
                    return [c.methods[f.attr]]
            return []
        p = attr_path(f)
        if p is not None:
            r = resolve_attr_chain(repo, mod, p)
            if r is not None:
                if r[0] == "func" and r[1] is not None:
                    return [r[1]]
                if r[0] == "class":
                    init = repo.method(r[1], "__init__")
                    return [init] if init else [r[1]]
                if r[0] == "ext":
                    return []
        env = env or TypeEnv(repo, fi)
        base = env.type_of(f.value)
        if base is not None:
            t = _method_targets(repo, base, f.attr)
            if t:
                return list(t)
            # nested class constructor: Assembler.Result(...)
            q = f"{base.qual}.{f.attr}"
            if q in repo.classes:
                ci = repo.classes[q]
                init = repo.method(ci, "__init__")
                return [init] if init else [ci]
            return []
        # fallback: method name defined by exactly one class family
        cands = _by_method_name(repo).get(f.attr, [])
        if cands and f.attr not in _GENERIC_METHOD_NAMES:
            roots = set()
            for c in cands:
                assert c.cls is not None
                roots.add(repo.mro(c.cls)[-1].qual)
            if len(roots) == 1:
                return list(cands)
    return []


_GENERIC_METHOD_NAMES = {
    "get",
    "add",
    "discard",
    "pop",
    "update",
    "clear",
    "remove",
    "append",
    "extend",
    "insert",
    "items",
    "values",
    "keys",
    "setdefault",
    "set",
    "exists",
    "encode",
    "decode",
    "validate",
    "copy",
    "apply",
    "run",
    "__init__",
}


class CallGraph:
    def __init__(self, repo: Repo):
        self.repo = repo
        self.edges: Dict[str, Set[str]] = {}
        self.unresolved: Dict[str, List[str]] = {}
        self._envs: Dict[str, TypeEnv] = {}
        for q, fi in repo.funcs.items():
            self.edges[q] = set()
        for q, fi in repo.funcs.items():
            env = TypeEnv(repo, fi)
            self._envs[q] = env
            for c in calls_in(fi.node):
                ts = resolve_call(repo, fi, c, env)
                for t in ts:
                    if isinstance(t, FuncInfo):
                        self.edges[q].add(t.qual)
                if not ts:
                    self.unresolved.setdefault(q, []).append(src(c.func))
            # nested defs and lambdas run in the context of their parent
            for n in walk_no_nested(fi.node):
                if n is not fi.node and isinstance(
                    n, (ast.FunctionDef, ast.AsyncFunctionDef)
                ):
                    self.edges[q].add(f"{q}.{n.name}")
            for n in ast.walk(fi.node):
                if isinstance(n, ast.Lambda):
                    for c in calls_in(n.body, nested=True):
                        for t in resolve_call(repo, fi, c, env):
                            if isinstance(t, FuncInfo):
                                self.edges[q].add(t.qual)

    def env(self, q: str) -> TypeEnv:
        return self._envs[q]

    def cone(self, roots: Iterable[str]) -> Set[str]:
        seen: Set[str] = set()
        work = list(roots)
        while work:
            q = work.pop()
            if q in seen or q not in self.edges:
                continue
            seen.add(q)
            work.extend(self.edges[q])
        return seen


_CG: Dict[int, CallGraph] = {}


def callgraph(repo: Repo) -> CallGraph:
    if id(repo) not in _CG:
        _CG[id(repo)] = CallGraph(repo)
    return _CG[id(repo)]
