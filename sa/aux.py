"""
Aux-data table registry reconstructed from the define_table(...) calls in
_auxdata.py and the wrappers in _auxdata_offsetmap.py, plus helpers that say
which tables a function touches.
"""

from __future__ import annotations

import ast
import dataclasses
from typing import Dict, List, Optional, Set, Tuple

from .astx import attr_path, calls_in, src, walk_no_nested
from .core import AnalysisError, FuncInfo, Mod, Repo
from .resolve import resolve_attr_chain, resolve_name


@dataclasses.dataclass
class TableDef:
    var: str  # python variable in _auxdata.py
    name: str  # gtirb table name
    gt_type: str
    py_type: str  # source text of the static type
    node: ast.Call

    def mentions(self, *words: str) -> bool:
        return any(w in self.py_type for w in words)

    @property
    def key_type(self) -> Optional[str]:
        """For Dict[K, V] tables: K; for Set[X]/List[X]: X; else the type."""
        try:
            t = ast.parse(self.py_type, mode="eval").body
        except SyntaxError:
            return None
        if isinstance(t, ast.Subscript):
            head = src(t.value)
            sl = t.slice
            if head == "Dict" and isinstance(sl, ast.Tuple):
                return src(sl.elts[0])
            if head in ("Set", "List"):
                return src(sl)
            return None
        return src(t)

    @property
    def value_type(self) -> Optional[str]:
        try:
            t = ast.parse(self.py_type, mode="eval").body
        except SyntaxError:
            return None
        if isinstance(t, ast.Subscript) and src(t.value) == "Dict":
            sl = t.slice
            if isinstance(sl, ast.Tuple):
                return src(sl.elts[1])
        return None


_CACHE: Dict[int, Dict[str, TableDef]] = {}


def _expand_type(mod: Mod, node: ast.expr, depth: int = 0) -> str:
    """Inline module-level type aliases (CFIDirectiveType) into the text."""
    text = src(node)
    if depth > 3:
        return text
    for n in ast.walk(node):
        if isinstance(n, ast.Name):
            v = mod.toplevel_assign(n.id)
            if v is not None and not isinstance(v, ast.Call):
                text = text.replace(n.id, _expand_type(mod, v, depth + 1))
    return text


def table_defs(repo: Repo) -> Dict[str, TableDef]:
    if id(repo) in _CACHE:
        return _CACHE[id(repo)]
    mod = repo.mod("_auxdata")
    out: Dict[str, TableDef] = {}
    for st in mod.tree.body:
        if (
            isinstance(st, ast.Assign)
            and len(st.targets) == 1
            and isinstance(st.targets[0], ast.Name)
            and isinstance(st.value, ast.Call)
            and isinstance(st.value.func, ast.Name)
            and st.value.func.id == "define_table"
        ):
            c = st.value
            if len(c.args) < 4:
                raise AnalysisError(
                    f"define_table call with unexpected shape at {mod.relpath}:{st.lineno}"
                )
            name = c.args[1]
            if not (isinstance(name, ast.Constant) and isinstance(name.value, str)):
                raise AnalysisError("define_table name is not a literal")
            gt = c.args[2]
            gt_text = (
                gt.value
                if isinstance(gt, ast.Constant)
                else src(gt)
            )
            out[st.targets[0].id] = TableDef(
                st.targets[0].id,
                name.value,
                "".join(str(gt_text).split()),
                _expand_type(mod, c.args[3]),
                c,
            )
    if len(out) < 20:
        raise AnalysisError(f"only {len(out)} define_table calls found in _auxdata.py")
    _CACHE[id(repo)] = out
    return out


def offsetmap_wrappers(repo: Repo) -> Dict[str, str]:
    """var in _auxdata_offsetmap -> var in _auxdata."""
    mod = repo.mod("_auxdata_offsetmap")
    out = {}
    for st in mod.tree.body:
        if (
            isinstance(st, ast.Assign)
            and len(st.targets) == 1
            and isinstance(st.targets[0], ast.Name)
            and isinstance(st.value, ast.Call)
            and isinstance(st.value.func, ast.Name)
            and st.value.func.id == "_make_offsetmap_table"
            and st.value.args
        ):
            p = attr_path(st.value.args[0])
            if p:
                out[st.targets[0].id] = p[-1]
    if not out:
        raise AnalysisError("no _make_offsetmap_table wrappers found")
    return out


def offsetmap_tuple(repo: Repo) -> List[str]:
    """Members of OFFSETMAP_AUX_DATA_TABLES as _auxdata variable names."""
    mod = repo.mod("_auxdata_offsetmap")
    v = mod.toplevel_assign("OFFSETMAP_AUX_DATA_TABLES")
    if v is None:
        raise AnalysisError("OFFSETMAP_AUX_DATA_TABLES vanished")
    tup = None
    for n in ast.walk(v):
        if isinstance(n, ast.Tuple) and all(isinstance(e, ast.Name) for e in n.elts) and n.elts:
            tup = n
    if tup is None:
        raise AnalysisError("OFFSETMAP_AUX_DATA_TABLES is not a tuple of names")
    wr = offsetmap_wrappers(repo)
    out = []
    for e in tup.elts:
        assert isinstance(e, ast.Name)
        if e.id not in wr:
            raise AnalysisError(f"OFFSETMAP member {e.id} is not a wrapper")
        out.append(wr[e.id])
    return out


def table_of_expr(repo: Repo, mod: Mod, e: ast.expr) -> Optional[List[str]]:
    """
    If `e` denotes one or more table definitions return their _auxdata
    variable names: `_auxdata.alignment`, `_auxdata_offsetmap.cfi_directives`,
    `alignment` (from-import), `OFFSETMAP_AUX_DATA_TABLES` (all members).
    """
    p = attr_path(e)
    if p is None:
        return None
    defs = table_defs(repo)
    wr = offsetmap_wrappers(repo)
    r = resolve_attr_chain(repo, mod, p)
    if r is None:
        return None
    if r[0] == "var":
        _, modname, var = r
        if modname == "_auxdata" and var in defs:
            return [var]
        if modname == "_auxdata_offsetmap":
            if var in wr:
                return [wr[var]]
            if var == "OFFSETMAP_AUX_DATA_TABLES":
                return offsetmap_tuple(repo)
    return None


@dataclasses.dataclass
class TableUse:
    tables: List[str]
    method: str  # get / get_or_insert / set / remove / exists
    call: ast.Call
    bound: Optional[str]  # local name bound to the result, if any


_TU_CACHE: Dict[int, List["TableUse"]] = {}


def table_uses(repo: Repo, fi: FuncInfo) -> List[TableUse]:
    k = id(fi.node)
    if k not in _TU_CACHE:
        _TU_CACHE[k] = _table_uses(repo, fi)
    return _TU_CACHE[k]


def _table_uses(repo: Repo, fi: FuncInfo) -> List[TableUse]:
    """
    Every `<table>.get(...)`-style call in the function, including calls on a
    loop variable that iterates a tuple of table definitions.
    """
    mod = fi.mod
    # loop (or comprehension) node -> (target name, tables)
    loops: List[Tuple[ast.AST, str, List[str]]] = []
    for n in walk_no_nested(fi.node):
        if isinstance(n, (ast.For, ast.comprehension)) and isinstance(n.target, ast.Name):
            it = n.iter
            ts: Optional[List[str]] = None
            if isinstance(it, (ast.Tuple, ast.List)):
                acc: List[str] = []
                good = True
                for e in it.elts:
                    t = table_of_expr(repo, mod, e)
                    if t is None:
                        good = False
                        break
                    acc.extend(t)
                ts = acc if good and acc else None
            else:
                ts = table_of_expr(repo, mod, it)
            if ts:
                loops.append((n, n.target.id, list(ts)))
    parents: Dict[int, ast.AST] = {}
    for n in walk_no_nested(fi.node):
        for c in ast.iter_child_nodes(n):
            parents[id(c)] = n

    def enclosing_loop_tables(node: ast.AST, name: str) -> Optional[List[str]]:
        cur: Optional[ast.AST] = node
        while cur is not None:
            for lp, nm, ts in loops:
                if nm == name and (lp is cur):
                    return ts
                # comprehension objects are children of the comp expression
                if nm == name and isinstance(lp, ast.comprehension) and isinstance(
                    cur, (ast.ListComp, ast.SetComp, ast.DictComp, ast.GeneratorExp)
                ) and any(g is lp for g in cur.generators):
                    return ts
            cur = parents.get(id(cur))
        return None

    out: List[TableUse] = []
    for c in calls_in(fi.node):
        f = c.func
        if not isinstance(f, ast.Attribute):
            continue
        if f.attr not in ("get", "get_or_insert", "set", "remove", "exists"):
            continue
        ts = None
        if isinstance(f.value, ast.Name):
            ts = enclosing_loop_tables(c, f.value.id)
        if ts is None:
            ts = table_of_expr(repo, mod, f.value)
        if not ts:
            continue
        bound = None
        par = parents.get(id(c))
        if isinstance(par, ast.Assign) and len(par.targets) == 1 and isinstance(par.targets[0], ast.Name):
            bound = par.targets[0].id
        out.append(TableUse(list(ts), f.attr, c, bound))
    return out


def tables_touched(repo: Repo, fi: FuncInfo) -> Set[str]:
    s: Set[str] = set()
    for u in table_uses(repo, fi):
        s.update(u.tables)
    return s


def gt_name(repo: Repo, var: str) -> str:
    return table_defs(repo)[var].name


def tables_bound_at(repo: Repo, fi: FuncInfo, name: str, g) -> Optional[List[str]]:
    """
    Tables that the local `name` holds at statement `g` (a GStmt): the table
    of the closest preceding `name = <table>.get*(...)`; follows one level of
    `x = name.get(k)` / `x = name[k]` / `x = name.setdefault(k, ...)` nesting.
    """
    from .astx import linear

    lin = linear(fi.node)
    best = None
    for u in table_uses(repo, fi):
        if u.bound != name or u.method not in ("get", "get_or_insert"):
            continue
        try:
            gu = lin.of(u.call)
        except AnalysisError:
            continue
        if gu.index < g.index and (best is None or gu.index > best[0]):
            best = (gu.index, list(u.tables))
    # a later plain re-assignment of the name (not from a table) kills the binding
    last_other = -1
    nested = None
    for x in lin.stmts:
        if x.index >= g.index:
            break
        n = x.node
        if isinstance(n, ast.Assign) and len(n.targets) == 1 and isinstance(n.targets[0], ast.Name) and n.targets[0].id == name:
            is_table = any(u.call is n.value for u in table_uses(repo, fi))
            if not is_table:
                last_other = x.index
                v = n.value
                base = None
                if isinstance(v, ast.Call) and isinstance(v.func, ast.Attribute) and v.func.attr in ("get", "setdefault"):
                    base = v.func.value
                elif isinstance(v, ast.Subscript):
                    base = v.value
                nested = (x, base) if isinstance(base, ast.Name) else None
    if best is not None and best[0] > last_other:
        return best[1]
    if nested is not None and nested[0].index == last_other:
        return tables_bound_at(repo, fi, nested[1].id, nested[0])
    return None
