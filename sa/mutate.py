"""
Scratch-copy helpers for the self-test: copy /repo/src to a temporary
directory, apply a textual or patch edit, run rules against the copy.
Nothing here touches /repo.
"""

from __future__ import annotations

import contextlib
import os
import shutil
import subprocess
import tempfile
from pathlib import Path
from typing import Iterator, List, Optional, Sequence, Tuple

from . import core


@contextlib.contextmanager
def scratch_copy(base: Optional[Path] = None) -> Iterator[Path]:
    base = Path(base) if base else core.repo_root()
    tmp = Path(tempfile.mkdtemp(prefix="verif-sa-"))
    try:
        dst = tmp / "repo"
        (dst / "src").mkdir(parents=True)
        shutil.copytree(
            base / "src" / core.PKG,
            dst / "src" / core.PKG,
            ignore=shutil.ignore_patterns("__pycache__", "*.pyc"),
        )
        yield dst
    finally:
        shutil.rmtree(tmp, ignore_errors=True)


def apply_replace(root: Path, relfile: str, old: str, new: str, count: int = 1) -> None:
    p = root / relfile
    s = p.read_text()
    if s.count(old) != count:
        raise core.AnalysisError(
            f"mutant anchor text occurs {s.count(old)} times (expected {count}) in {relfile}: {old[:60]!r}"
        )
    p.write_text(s.replace(old, new))


def apply_patch(root: Path, patch_file: Path) -> None:
    r = subprocess.run(
        ["git", "apply", "--unsafe-paths", "-p1", "--directory", str(root), str(patch_file)],
        capture_output=True,
        text=True,
        cwd="/",
    )
    if r.returncode != 0:
        # fall back to patch(1)
        r2 = subprocess.run(
            ["patch", "-p1", "-s", "-d", str(root), "-i", str(patch_file)],
            capture_output=True,
            text=True,
        )
        if r2.returncode != 0:
            raise core.AnalysisError(
                f"cannot apply {patch_file}: {r.stderr.strip()} / {r2.stdout.strip()} {r2.stderr.strip()}"
            )


def run_props(root: Path, props: Sequence[str], tier: str = "quick"):
    """Run properties against a scratch root. -> {prop: (code, [violations], [errors])}"""
    from .rules import load_all

    load_all()
    repo = core.Repo(root)
    out = {}
    for p in props:
        code, rep = core.run_property(
            p, tier, repo=repo, write_evidence=False, quiet=True
        )
        out[p] = (
            code,
            [(v.rule, v.key, v.reason) for v in rep.get("violations", [])],
            rep.get("errors", []),
        )
    return out
