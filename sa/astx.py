"""
AST helpers: normalisation, boolean guard formulas with truth-table
implication, and the guarded linearisation of a function body (the
syntax-directed stand-in for CFG dominance that the rules use).
"""

from __future__ import annotations

import ast
import dataclasses
import itertools
from typing import Dict, Iterable, Iterator, List, Optional, Sequence, Set, Tuple

from .core import AnalysisError

# ----------------------------------------------------------------------------
# Normalisation
# ----------------------------------------------------------------------------


def dump(node: ast.AST) -> str:
    """Position-free structural key of a node."""
    return ast.dump(node, annotate_fields=False, include_attributes=False)


def src(node: ast.AST) -> str:
    try:
        return ast.unparse(node)
    except Exception:  # pragma: no cover
        return dump(node)


def attr_path(node: ast.AST) -> Optional[Tuple[str, ...]]:
    """a.b.c -> ('a','b','c'); None if not a pure name/attribute chain."""
    parts: List[str] = []
    while isinstance(node, ast.Attribute):
        parts.append(node.attr)
        node = node.value
    if isinstance(node, ast.Name):
        parts.append(node.id)
        return tuple(reversed(parts))
    return None


def call_path(call: ast.Call) -> Optional[Tuple[str, ...]]:
    return attr_path(call.func)


def call_name(call: ast.Call) -> Optional[str]:
    f = call.func
    if isinstance(f, ast.Attribute):
        return f.attr
    if isinstance(f, ast.Name):
        return f.id
    return None


def names_in(node: ast.AST) -> Set[str]:
    return {n.id for n in ast.walk(node) if isinstance(n, ast.Name)}


def paths_in(node: ast.AST) -> Set[Tuple[str, ...]]:
    """All maximal name/attribute chains read in an expression."""
    out: Set[Tuple[str, ...]] = set()

    def visit(n: ast.AST) -> None:
        p = attr_path(n)
        if p is not None:
            out.add(p)
            return
        for c in ast.iter_child_nodes(n):
            visit(c)

    visit(node)
    return out


def walk_no_nested(node: ast.AST) -> Iterator[ast.AST]:
    """ast.walk that does not descend into nested defs/lambdas/classes."""
    todo = [node]
    first = True
    while todo:
        n = todo.pop()
        if not first and isinstance(
            n, (ast.FunctionDef, ast.AsyncFunctionDef, ast.ClassDef, ast.Lambda)
        ):
            continue
        first = False
        yield n
        todo.extend(reversed(list(ast.iter_child_nodes(n))))


def canon(text: str) -> str:
    """Source text of an expression/statement spec in the loader's canonical form
    (operand order of ==, !=, is, is not): use it for every literal a rule compares with src(...)."""
    from .core import _cmp_rank

    tree = ast.parse(text)
    for node in ast.walk(tree):
        if isinstance(node, ast.Compare) and len(node.ops) == 1 and isinstance(node.ops[0], (ast.Eq, ast.NotEq, ast.Is, ast.IsNot)):
            l, r = node.left, node.comparators[0]
            if _cmp_rank(l) > _cmp_rank(r):
                node.left, node.comparators[0] = r, l
    return ast.unparse(tree)


def calls_in(node: ast.AST, nested: bool = False) -> List[ast.Call]:
    it = ast.walk(node) if nested else walk_no_nested(node)
    return [n for n in it if isinstance(n, ast.Call)]


def const_str(node: ast.AST) -> Optional[str]:
    if isinstance(node, ast.Constant) and isinstance(node.value, str):
        return node.value
    return None


def kwarg(call: ast.Call, name: str) -> Optional[ast.expr]:
    for k in call.keywords:
        if k.arg == name:
            return k.value
    return None


def arg_or_kw(call: ast.Call, index: int, name: str) -> Optional[ast.expr]:
    if len(call.args) > index and not any(
        isinstance(a, ast.Starred) for a in call.args[: index + 1]
    ):
        return call.args[index]
    return kwarg(call, name)


# ----------------------------------------------------------------------------
# Boolean formulas over atoms
# ----------------------------------------------------------------------------

TRUE = ("true",)
FALSE = ("false",)


def f_atom(key) -> tuple:
    return ("atom", key)


def f_not(a: tuple) -> tuple:
    if a == TRUE:
        return FALSE
    if a == FALSE:
        return TRUE
    if a[0] == "not":
        return a[1]
    return ("not", a)


def f_and(*xs: tuple) -> tuple:
    out: List[tuple] = []
    for x in xs:
        if x == FALSE:
            return FALSE
        if x == TRUE:
            continue
        if x[0] == "and":
            for y in x[1:]:
                if y not in out:
                    out.append(y)
        elif x not in out:
            out.append(x)
    for x in out:
        if f_not(x) in out:
            return FALSE
    if not out:
        return TRUE
    if len(out) == 1:
        return out[0]
    return ("and", *out)


def f_or(*xs: tuple) -> tuple:
    out: List[tuple] = []
    for x in xs:
        if x == TRUE:
            return TRUE
        if x == FALSE:
            continue
        if x[0] == "or":
            for y in x[1:]:
                if y not in out:
                    out.append(y)
        elif x not in out:
            out.append(x)
    for x in out:
        if f_not(x) in out:
            return TRUE
    if not out:
        return FALSE
    if len(out) == 1:
        return out[0]
    # (g & c) | (g & ~c) -> g   (the common if/else re-join)
    if len(out) == 2 and all(o[0] == "and" for o in out):
        a, b = set(out[0][1:]), set(out[1][1:])
        da, db = a - b, b - a
        if len(da) == 1 and len(db) == 1:
            (x,), (y,) = da, db
            if f_not(x) == y:
                return f_and(*[t for t in out[0][1:] if t in (a & b)])
    return ("or", *out)


def f_atoms(f: tuple, acc: Optional[Set] = None) -> Set:
    acc = set() if acc is None else acc
    if f[0] == "atom":
        acc.add(f[1])
    elif f[0] in ("not", "and", "or"):
        for x in f[1:]:
            f_atoms(x, acc)
    return acc


def f_eval(f: tuple, env: Dict) -> bool:
    k = f[0]
    if k == "true":
        return True
    if k == "false":
        return False
    if k == "atom":
        return env[f[1]]
    if k == "not":
        return not f_eval(f[1], env)
    if k == "and":
        return all(f_eval(x, env) for x in f[1:])
    if k == "or":
        return any(f_eval(x, env) for x in f[1:])
    raise AssertionError(k)


def f_show(f: tuple) -> str:
    k = f[0]
    if k == "true":
        return "True"
    if k == "false":
        return "False"
    if k == "atom":
        key = f[1]
        return key[0] if isinstance(key, tuple) else str(key)
    if k == "not":
        return "not(" + f_show(f[1]) + ")"
    sep = " and " if k == "and" else " or "
    return "(" + sep.join(f_show(x) for x in f[1:]) + ")"


MAX_ATOMS = 18


def _axioms(atoms: Sequence) -> List[tuple]:
    """
    Relations between atoms that follow from Python semantics:
      (X is None)  excludes truthiness of X
      X == c1 excludes X == c2 for different constants
    Atom keys are (text, version); text is ast.unparse of the condition.
    """
    ax: List[tuple] = []
    parsed = {}
    for a in atoms:
        if not isinstance(a, tuple) or not isinstance(a[0], str):
            continue
        try:
            parsed[a] = ast.parse(a[0], mode="eval").body
        except SyntaxError:
            continue
    items = list(parsed.items())
    for (a, na), (b, nb) in itertools.permutations(items, 2):
        if a[1:] != b[1:] and set(a[1:]) and set(b[1:]):
            # different versions of the underlying names: unrelated
            va = dict(a[1]) if len(a) > 1 and isinstance(a[1], tuple) else {}
            vb = dict(b[1]) if len(b) > 1 and isinstance(b[1], tuple) else {}
            shared = set(va) & set(vb)
            if any(va[s] != vb[s] for s in shared):
                continue
        # a: "X is None", b: "X"
        if (
            isinstance(na, ast.Compare)
            and len(na.ops) == 1
            and isinstance(na.ops[0], ast.Is)
            and isinstance(na.comparators[0], ast.Constant)
            and na.comparators[0].value is None
            and dump(na.left) == dump(nb)
        ):
            ax.append(f_not(f_and(f_atom(a), f_atom(b))))
        # a: X == c1, b: X == c2
        if (
            isinstance(na, ast.Compare)
            and isinstance(nb, ast.Compare)
            and len(na.ops) == 1
            and len(nb.ops) == 1
            and isinstance(na.ops[0], ast.Eq)
            and isinstance(nb.ops[0], ast.Eq)
            and dump(na.left) == dump(nb.left)
            and dump(na.comparators[0]) != dump(nb.comparators[0])
            and isinstance(na.comparators[0], (ast.Constant, ast.Attribute))
            and isinstance(nb.comparators[0], (ast.Constant, ast.Attribute))
        ):
            ax.append(f_not(f_and(f_atom(a), f_atom(b))))
    return ax


def assignments(atoms: Sequence) -> Iterator[Dict]:
    atoms = list(atoms)
    if len(atoms) > MAX_ATOMS:
        raise AnalysisError(f"guard has {len(atoms)} atoms (limit {MAX_ATOMS})")
    ax = _axioms(atoms)
    for bits in itertools.product((False, True), repeat=len(atoms)):
        env = dict(zip(atoms, bits))
        if all(f_eval(x, env) for x in ax):
            yield env


def _subst1(f: tuple, atom, val: bool) -> tuple:
    k = f[0]
    if k == "atom":
        if f[1] == atom:
            return TRUE if val else FALSE
        return f
    if k == "not":
        return f_not(_subst1(f[1], atom, val))
    if k == "and":
        return f_and(*[_subst1(x, atom, val) for x in f[1:]])
    if k == "or":
        return f_or(*[_subst1(x, atom, val) for x in f[1:]])
    return f


def _first_atom(f: tuple):
    k = f[0]
    if k == "atom":
        return f[1]
    if k in ("not", "and", "or"):
        for x in f[1:]:
            a = _first_atom(x)
            if a is not None:
                return a
    return None


def valid(f: tuple, budget: Optional[List[int]] = None) -> bool:
    """Tautology check by Shannon expansion with constant folding."""
    budget = budget if budget is not None else [400000]
    if f == TRUE:
        return True
    if f == FALSE:
        return False
    budget[0] -= 1
    if budget[0] < 0:
        raise AnalysisError("guard formula too large to decide")
    a = _first_atom(f)
    if a is None:
        return f == TRUE
    return valid(_subst1(f, a, True), budget) and valid(_subst1(f, a, False), budget)


def implies(g1: tuple, g2: tuple) -> bool:
    """g1 => g2 for every assignment consistent with the axioms."""
    atoms = sorted(f_atoms(g1) | f_atoms(g2), key=repr)
    ax = _axioms(atoms)
    ante = f_and(g1, *ax) if ax else g1
    return valid(f_or(f_not(ante), g2))


def equivalent(g1: tuple, g2: tuple) -> bool:
    return implies(g1, g2) and implies(g2, g1)


def satisfiable(g: tuple) -> bool:
    atoms = sorted(f_atoms(g), key=repr)
    ax = _axioms(atoms)
    return not valid(f_not(f_and(g, *ax) if ax else g))


def exclusive(g1: tuple, g2: tuple) -> bool:
    return not satisfiable(f_and(g1, g2))


# ----------------------------------------------------------------------------
# Guarded linearisation
# ----------------------------------------------------------------------------


@dataclasses.dataclass
class GStmt:
    node: ast.stmt
    guard: tuple
    index: int
    loops: Tuple[ast.AST, ...]
    in_finally: bool = False
    in_handler: bool = False
    tries: Tuple[ast.Try, ...] = ()
    withs: Tuple[ast.With, ...] = ()
    versions: Dict[Tuple[str, ...], int] = dataclasses.field(default_factory=dict)
    nest: int = 0  # number of enclosing if/loop/except constructs

    @property
    def top(self) -> bool:
        """Not nested under any condition, loop or handler (early exits above it aside)."""
        return self.nest == 0

    @property
    def lineno(self) -> int:
        return getattr(self.node, "lineno", 0)


class Linear:
    """
    Flattens a function body into simple statements, each with the guard
    (formula over branch-condition atoms) under which it is reached from
    function entry. Compound statements also get an entry (their header),
    so rules can ask for "the If whose test is ...".

    Dominance used by the rules:  A precedes-on-all-paths B  iff
      A.index < B.index, A is not inside a loop/handler that B is outside of,
      and guard(B) => guard(A).
    """

    def __init__(self, fn: ast.FunctionDef):
        self.fn = fn
        self.stmts: List[GStmt] = []
        self._versions: Dict[Tuple[str, ...], int] = {}
        self._fresh = itertools.count()
        self.asserts: List[Tuple[int, tuple]] = []
        self._nest = 0
        self.exit_guard = self._block(fn.body, TRUE, (), False, False, (), ())

    # -- atoms -----------------------------------------------------------------
    def _bump(self, target: ast.AST) -> None:
        for n in ast.walk(target):
            p = attr_path(n)
            if p is not None and isinstance(getattr(n, "ctx", None), ast.Store):
                for i in range(1, len(p) + 1):
                    pass
                self._versions[p] = self._versions.get(p, 0) + 1

    def _bump_stmt(self, st: ast.stmt) -> None:
        if isinstance(st, ast.Assign):
            for t in st.targets:
                self._bump(t)
        elif isinstance(st, (ast.AugAssign, ast.AnnAssign)):
            self._bump(st.target)
        elif isinstance(st, (ast.For, ast.AsyncFor)):
            self._bump(st.target)
        elif isinstance(st, ast.With):
            for it in st.items:
                if it.optional_vars is not None:
                    self._bump(it.optional_vars)
        elif isinstance(st, ast.Delete):
            for t in st.targets:
                self._bump(t)
        # walrus
        for n in walk_no_nested(st):
            if isinstance(n, ast.NamedExpr):
                self._bump(n.target)

    def _version_of(self, expr: ast.AST, versions=None) -> Tuple:
        versions = self._versions if versions is None else versions
        vs = []
        for p in sorted(paths_in(expr)):
            # an atom depends on every prefix of every path it reads
            for i in range(1, len(p) + 1):
                v = versions.get(p[:i], 0)
                if v:
                    vs.append((".".join(p[:i]), v))
        return tuple(vs)

    def cond(self, test: ast.expr, versions=None) -> tuple:
        """Formula of a condition expression at the current point."""
        if isinstance(test, ast.BoolOp):
            parts = [self.cond(v, versions) for v in test.values]
            return f_and(*parts) if isinstance(test.op, ast.And) else f_or(*parts)
        if isinstance(test, ast.UnaryOp) and isinstance(test.op, ast.Not):
            return f_not(self.cond(test.operand, versions))
        if isinstance(test, ast.Constant):
            return TRUE if test.value else FALSE
        if isinstance(test, ast.Name):
            # a condition computed into a single-use local (`t = a and b; if t:`) is that condition
            v = self._single_use_condition(test.id)
            if v is not None:
                return self.cond(v, versions)
        if isinstance(test, ast.Compare) and len(test.ops) == 1:
            op = test.ops[0]
            l, r = test.left, test.comparators[0]
            if isinstance(op, (ast.Eq, ast.NotEq, ast.Is, ast.IsNot)):
                # same canonical operand order as the loader (core._normalise), so that
                # conditions written in rule specs meet the code's atoms whatever way round
                from .core import _cmp_rank

                if _cmp_rank(l) > _cmp_rank(r):
                    l, r = r, l
                    test = ast.Compare(l, [op], [r])
            if isinstance(op, ast.IsNot):
                return f_not(self._atom(ast.Compare(l, [ast.Is()], [r]), versions))
            if isinstance(op, ast.NotEq):
                return f_not(self._atom(ast.Compare(l, [ast.Eq()], [r]), versions))
            if isinstance(op, ast.NotIn):
                return f_not(self._atom(ast.Compare(l, [ast.In()], [r]), versions))
        if isinstance(test, ast.Call) and isinstance(test.func, ast.Name):
            # bool(x) is x's truthiness
            if test.func.id == "bool" and len(test.args) == 1 and not test.keywords:
                return self.cond(test.args[0], versions)
        return self._atom(test, versions)

    def _single_use_condition(self, name: str):
        cache = self.__dict__.setdefault("_suc", {})
        if name not in cache:
            stores = [n for n in ast.walk(self.fn) if isinstance(n, ast.Name) and n.id == name and isinstance(n.ctx, ast.Store)]
            loads = [n for n in ast.walk(self.fn) if isinstance(n, ast.Name) and n.id == name and isinstance(n.ctx, ast.Load)]
            val = None
            if len(stores) == 1 and len(loads) == 1 and not any(a.arg == name for a in ast.walk(self.fn) if isinstance(a, ast.arg)):
                for st in ast.walk(self.fn):
                    if isinstance(st, ast.Assign) and len(st.targets) == 1 and st.targets[0] is stores[0] and isinstance(st.value, (ast.BoolOp, ast.Compare, ast.UnaryOp, ast.Call)):
                        # the single load must be the test of an `if` that directly follows the assignment
                        for holder in ast.walk(self.fn):
                            for f in ("body", "orelse", "finalbody"):
                                b = getattr(holder, f, None)
                                if isinstance(b, list) and st in b:
                                    i = b.index(st)
                                    if i + 1 < len(b) and isinstance(b[i + 1], ast.If) and b[i + 1].test is loads[0]:
                                        val = st.value
            cache[name] = val
        return cache[name]

    def _atom(self, expr: ast.AST, versions=None) -> tuple:
        return f_atom((src(expr), self._version_of(expr, versions)))

    def cond_at(self, g: "GStmt", expr: ast.expr) -> tuple:
        """Formula of `expr` evaluated just before statement g."""
        return self.cond(expr, g.versions)

    # -- walking ---------------------------------------------------------------
    def _add(self, st, guard, loops, fin, hand, tries, withs) -> GStmt:
        g = GStmt(
            st, guard, len(self.stmts), loops, fin, hand, tries, withs,
            dict(self._versions), self._nest,
        )
        self.stmts.append(g)
        return g

    def _block(self, body, guard, loops, fin, hand, tries, withs) -> tuple:
        """Walk statements; return the guard under which control falls out."""
        for st in body:
            if guard == FALSE:
                # unreachable remainder: still record it (guard FALSE)
                pass
            guard = self._stmt(st, guard, loops, fin, hand, tries, withs)
        return guard

    def _stmt(self, st, guard, loops, fin, hand, tries, withs) -> tuple:
        if isinstance(st, ast.If):
            self._add(st, guard, loops, fin, hand, tries, withs)
            c = self.cond(st.test)
            in_then = f_and(guard, c)
            in_else = f_and(guard, f_not(c))
            self._nest += 1
            g_then = self._block(st.body, in_then, loops, fin, hand, tries, withs)
            g_else = self._block(st.orelse, in_else, loops, fin, hand, tries, withs)
            self._nest -= 1
            if g_then == in_then and g_else == in_else:
                # neither branch leaves the function: control re-joins
                return guard
            if g_then == FALSE:
                return g_else
            if g_else == FALSE:
                return g_then
            return f_or(g_then, g_else)
        if isinstance(st, (ast.For, ast.AsyncFor, ast.While)):
            self._add(st, guard, loops, fin, hand, tries, withs)
            self._bump_stmt(st)
            it = f_atom(("<iter#%d>" % next(self._fresh), ()))
            g_body = f_and(guard, it)
            if isinstance(st, ast.While):
                g_body = f_and(g_body, self.cond(st.test))
            self._nest += 1
            self._block(st.body, g_body, loops + (st,), fin, hand, tries, withs)
            self._nest -= 1
            # names assigned in the body have new versions afterwards
            self._block(st.orelse, guard, loops, fin, hand, tries, withs)
            return guard
        if isinstance(st, ast.Try):
            self._add(st, guard, loops, fin, hand, tries, withs)
            g_body = self._block(
                st.body, guard, loops, fin, hand, tries + (st,), withs
            )
            g_after = g_body
            for h in st.handlers:
                ex = f_atom(("<exc#%d>" % next(self._fresh), ()))
                self._nest += 1
                g_h = self._block(
                    h.body, f_and(guard, ex), loops, fin, True, tries, withs
                )
                self._nest -= 1
                g_after = f_or(g_after, g_h)
            g_after = self._block(
                st.orelse, g_after, loops, fin, hand, tries + (st,), withs
            ) if st.orelse else g_after
            if st.finalbody:
                # finally runs on every exit of the try that was entered
                self._block(st.finalbody, guard, loops, True, hand, tries, withs)
            return g_after
        if isinstance(st, (ast.With, ast.AsyncWith)):
            self._add(st, guard, loops, fin, hand, tries, withs)
            self._bump_stmt(st)
            return self._block(
                st.body, guard, loops, fin, hand, tries, withs + (st,)
            )
        if isinstance(st, (ast.FunctionDef, ast.AsyncFunctionDef, ast.ClassDef)):
            self._add(st, guard, loops, fin, hand, tries, withs)
            self._versions[(st.name,)] = self._versions.get((st.name,), 0) + 1
            return guard
        if isinstance(st, ast.Match):
            raise AnalysisError("match statement not supported by the linearizer")
        # simple statements
        self._add(st, guard, loops, fin, hand, tries, withs)
        if isinstance(st, (ast.Return, ast.Raise, ast.Continue, ast.Break)):
            return FALSE
        if isinstance(st, ast.Assert):
            # Assertions are sanity checks: a failing one aborts the function,
            # so they are not branch conditions. They are recorded, not added
            # to the guards.
            self.asserts.append((len(self.stmts) - 1, self.cond(st.test)))
            return guard
        self._bump_stmt(st)
        return guard

    # -- queries ---------------------------------------------------------------
    def find(self, pred) -> List[GStmt]:
        return [g for g in self.stmts if pred(g.node)]

    def of(self, node: ast.AST) -> GStmt:
        for g in self.stmts:
            if g.node is node:
                return g
        # node may be an expression inside a statement
        for g in self.stmts:
            if isinstance(g.node, (ast.If, ast.For, ast.While, ast.With, ast.Try)):
                heads: List[ast.AST] = []
                if isinstance(g.node, (ast.If, ast.While)):
                    heads = [g.node.test]
                elif isinstance(g.node, ast.For):
                    heads = [g.node.iter, g.node.target]
                elif isinstance(g.node, ast.With):
                    heads = [i.context_expr for i in g.node.items]
                for h in heads:
                    if any(n is node for n in ast.walk(h)):
                        return g
                continue
            if any(n is node for n in ast.walk(g.node)):
                return g
        raise AnalysisError("node not in linearised function")

    def under(self, g: GStmt, text: str) -> bool:
        """Does the guard of g imply the condition `text` (evaluated at g)?"""
        e = ast.parse(text, mode="eval").body
        return implies(g.guard, self.cond_at(g, e))

    def precedes_on_all_paths(self, a: GStmt, b: GStmt) -> bool:
        if a.index >= b.index:
            return False
        # a inside a loop that b is not inside: may run zero times
        for lp in a.loops:
            if lp not in b.loops:
                return False
        if a.in_handler and not b.in_handler:
            return False
        return implies(b.guard, a.guard)

    def stmt_calls(self, g: GStmt) -> List[ast.Call]:
        n = g.node
        if isinstance(n, ast.If):
            return calls_in(n.test)
        if isinstance(n, (ast.For, ast.AsyncFor)):
            return calls_in(n.iter)
        if isinstance(n, ast.While):
            return calls_in(n.test)
        if isinstance(n, (ast.With, ast.AsyncWith)):
            out = []
            for i in n.items:
                out.extend(calls_in(i.context_expr))
            return out
        if isinstance(n, ast.Try):
            return []
        if isinstance(n, (ast.FunctionDef, ast.AsyncFunctionDef, ast.ClassDef)):
            return []
        return calls_in(n)

    def all_calls(self) -> List[Tuple[GStmt, ast.Call]]:
        out = []
        for g in self.stmts:
            for c in self.stmt_calls(g):
                out.append((g, c))
        return out


_LIN_CACHE: Dict[int, Linear] = {}


def linear(fn: ast.FunctionDef) -> Linear:
    k = id(fn)
    if k not in _LIN_CACHE:
        _LIN_CACHE[k] = Linear(fn)
    return _LIN_CACHE[k]


# ----------------------------------------------------------------------------
# Small pattern helpers used by many rules
# ----------------------------------------------------------------------------


def is_isinstance(node: ast.AST, var: Optional[str] = None) -> Optional[Tuple[str, List[str]]]:
    """isinstance(x, T) / isinstance(x, (A, B)) -> (src(x), [type names])."""
    if (
        isinstance(node, ast.Call)
        and isinstance(node.func, ast.Name)
        and node.func.id == "isinstance"
        and len(node.args) == 2
    ):
        x = src(node.args[0])
        if var is not None and x != var:
            return None
        t = node.args[1]
        ts = t.elts if isinstance(t, ast.Tuple) else [t]
        return x, [src(e) for e in ts]
    return None


def subscript_store_targets(st: ast.stmt) -> List[ast.Subscript]:
    out = []
    if isinstance(st, ast.Assign):
        for t in st.targets:
            if isinstance(t, ast.Subscript):
                out.append(t)
    elif isinstance(st, ast.AugAssign) and isinstance(st.target, ast.Subscript):
        out.append(st.target)
    return out


def assigned_names(st: ast.stmt) -> List[str]:
    out: List[str] = []
    targets: List[ast.AST] = []
    if isinstance(st, ast.Assign):
        targets = list(st.targets)
    elif isinstance(st, (ast.AnnAssign, ast.AugAssign)):
        targets = [st.target]
    for t in targets:
        for n in ast.walk(t):
            if isinstance(n, ast.Name) and isinstance(n.ctx, ast.Store):
                out.append(n.id)
    return out


def find_assign(fn: ast.AST, name: str) -> List[ast.Assign]:
    out = []
    for n in walk_no_nested(fn):
        if isinstance(n, ast.Assign):
            for t in n.targets:
                if isinstance(t, ast.Name) and t.id == name:
                    out.append(n)
        elif isinstance(n, ast.AnnAssign) and n.value is not None:
            if isinstance(n.target, ast.Name) and n.target.id == name:
                out.append(n)  # type: ignore
    return out


def single_assign_value(fn: ast.AST, name: str) -> Optional[ast.expr]:
    a = find_assign(fn, name)
    if len(a) == 1:
        return a[0].value
    return None


def resolve_alias(fn: ast.AST, expr: ast.expr, depth: int = 4) -> ast.expr:
    """Follow single-assignment local names: x = <expr>; ... x ..."""
    while depth and isinstance(expr, ast.Name):
        v = single_assign_value(fn, expr.id)
        if v is None:
            break
        expr = v
        depth -= 1
    return expr
