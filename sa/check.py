#!/venv/bin/python
"""
CLI:  /venv/bin/python sa/check.py <Cxx> [--tier quick|thorough] [--replay file]
      /venv/bin/python sa/check.py --all [--tier ...]
Exit codes: 0 held / 1 violation (VIOLATION line printed) / 2 analysis error.
"""
import argparse
import json
import os
import sys
from pathlib import Path

sys.path.insert(0, str(Path(__file__).resolve().parent.parent))

from sa import core  # noqa: E402
from sa.rules import load_all  # noqa: E402


def main() -> int:
    ap = argparse.ArgumentParser()
    ap.add_argument("prop", nargs="?")
    ap.add_argument("--tier", default=os.environ.get("VERIF_TIER", "quick"))
    ap.add_argument("--all", action="store_true")
    ap.add_argument("--replay")
    ap.add_argument("--list", action="store_true")
    ap.add_argument("--no-evidence", action="store_true")
    args = ap.parse_args()
    if args.tier not in ("quick", "thorough"):
        args.tier = "quick"
    load_all()
    if args.list:
        for r in sorted(core.RULES.values(), key=lambda r: r.rid):
            print(r.rid, ",".join(r.props), r.tier, r.min_instances, r.title)
        return 0
    if args.replay:
        data = json.loads(Path(args.replay).read_text())
        prop = data["property"]
        code, rep = core.run_property(
            prop, args.tier, write_evidence=False, quiet=True
        )
        hits = [
            v
            for v in rep.get("violations", [])
            if v.rule == data["rule"] and v.key == data["key"]
        ]
        if hits:
            for v in hits:
                print(f"VIOLATION property={prop} replay={args.replay}")
                print(f"  {v.where} {v.function} rule={v.rule} [{v.construct}] {v.reason}")
            return 1
        print(f"replay: {data['rule']} {data['key']} no longer violated")
        return 0 if code != 2 else 2
    props = (
        sorted({p for r in core.RULES.values() for p in r.props})
        if args.all
        else [args.prop]
    )
    if not props or props == [None]:
        ap.error("property id required")
    worst = 0
    for p in props:
        try:
            if args.tier == "thorough":
                from sa import thorough

                code = thorough.run(p, write_evidence=not args.no_evidence)
            else:
                code, _ = core.run_property(
                    p, args.tier, write_evidence=not args.no_evidence
                )
        except Exception as exc:  # never let a traceback look like a violation
            import traceback

            traceback.print_exc()
            print(f"ANALYSIS-ERROR property={p} checker crashed: {exc!r}")
            code = 2
        worst = max(worst, code) if code != 1 else 1 if worst != 2 else worst
        if code == 1:
            worst = 1
    return worst


if __name__ == "__main__":
    sys.exit(main())
