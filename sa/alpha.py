"""
Undo pure local renames.

The rules name local variables of the anchored functions (`size_delta`,
`total_insert_len`, ...). A refactor that only renames locals would make them
blind. For every function of the reference tree (the tree the rules were
written against) `reference_names.json` records a digest of the function with
its local names abstracted (alpha-normal form) and the list of its local
names in first-occurrence order. When a function of the tree under analysis
has the same alpha-normal digest but different local names, its locals are
renamed back to the reference names before any rule looks at it. If the
digests differ nothing is renamed. The table is never used to report
anything.
"""

from __future__ import annotations

import ast
import hashlib
import json
from pathlib import Path
from typing import Dict, List, Optional, Set, Tuple

REF = Path(__file__).resolve().parent / "reference_names.json"


def _locals_of(fn: ast.AST) -> List[str]:
    """Names bound inside the function (not parameters, not globals/nonlocals), first-occurrence order.
    Nested function *definitions* are walked too (their locals are renamed with the same map only if unique)."""
    params: Set[str] = set()
    a = fn.args  # type: ignore
    for x in [*a.posonlyargs, *a.args, *a.kwonlyargs]:
        params.add(x.arg)
    if a.vararg:
        params.add(a.vararg.arg)
    if a.kwarg:
        params.add(a.kwarg.arg)
    declared: Set[str] = set()
    bound: List[str] = []

    def visit(n: ast.AST, top: bool):
        if isinstance(n, (ast.Global, ast.Nonlocal)):
            declared.update(n.names)
        if isinstance(n, (ast.FunctionDef, ast.AsyncFunctionDef, ast.Lambda, ast.ClassDef)) and not top:
            return
        if isinstance(n, ast.Name) and isinstance(n.ctx, (ast.Store, ast.Del)):
            if n.id not in bound:
                bound.append(n.id)
        if isinstance(n, ast.ExceptHandler) and n.name and n.name not in bound:
            bound.append(n.name)
        for c in ast.iter_child_nodes(n):
            visit(c, False)

    visit(fn, True)
    return [b for b in bound if b not in params and b not in declared]


class _Renamer(ast.NodeTransformer):
    def __init__(self, mapping: Dict[str, str]):
        self.m = mapping
        self.depth = 0

    def visit_Name(self, node: ast.Name):
        if node.id in self.m:
            node.id = self.m[node.id]
        return node

    def visit_ExceptHandler(self, node: ast.ExceptHandler):
        if node.name in self.m:
            node.name = self.m[node.name]
        self.generic_visit(node)
        return node

    def _nested(self, node):
        # a nested def/lambda that rebinds one of the names as a parameter shadows it
        a = node.args
        shadow = {x.arg for x in [*a.posonlyargs, *a.args, *a.kwonlyargs]}
        if a.vararg:
            shadow.add(a.vararg.arg)
        if a.kwarg:
            shadow.add(a.kwarg.arg)
        saved = self.m
        self.m = {k: v for k, v in self.m.items() if k not in shadow}
        self.generic_visit(node)
        self.m = saved
        return node

    def visit_FunctionDef(self, node):
        self.depth += 1
        try:
            if self.depth > 1:
                return self._nested(node)
            self.generic_visit(node)
            return node
        finally:
            self.depth -= 1

    visit_AsyncFunctionDef = visit_FunctionDef

    def visit_Lambda(self, node):
        return self._nested(node)


def alpha_form(fn: ast.AST) -> Tuple[str, List[str]]:
    import copy

    names = _locals_of(fn)
    mapping = {n: f"α{i}" for i, n in enumerate(names)}
    clone = copy.deepcopy(fn)
    _Renamer(mapping).visit(clone)
    # the function's own name and position are irrelevant
    dump = ast.dump(clone, annotate_fields=False, include_attributes=False)
    return hashlib.sha256(dump.encode()).hexdigest()[:24], names


def build_reference(repo) -> Dict[str, dict]:
    out = {}
    for q, fi in sorted(repo.funcs.items()):
        if fi.parent is not None:
            continue
        h, names = alpha_form(fi.node)
        if names:
            out[q] = {"digest": h, "locals": names}
    return out


_REF_CACHE: Optional[Dict[str, dict]] = None


def reference() -> Dict[str, dict]:
    global _REF_CACHE
    if _REF_CACHE is None:
        _REF_CACHE = json.loads(REF.read_text()) if REF.exists() else {}
    return _REF_CACHE


def undo_renames(repo) -> List[str]:
    """Rename locals back to the reference names where only names differ. -> list of functions touched."""
    ref = reference()
    touched = []
    for q, fi in repo.funcs.items():
        if fi.parent is not None or q not in ref:
            continue
        h, names = alpha_form(fi.node)
        r = ref[q]
        if names == r["locals"] or h != r["digest"] or len(names) != len(r["locals"]):
            continue
        # two-step rename to avoid collisions (a->b, b->a)
        tmp = {n: f"αtmp{i}" for i, n in enumerate(names)}
        _Renamer(tmp).visit(fi.node)
        back = {f"αtmp{i}": r["locals"][i] for i in range(len(names))}
        _Renamer(back).visit(fi.node)
        touched.append(q)
    return touched


def fold_new_condition_temps(repo) -> List[str]:
    """`t = <cond>; if t: ...` with a local `t` that the reference tree does not have and that is used
    nowhere else is folded back into `if <cond>: ...` (a hoisted condition is the same program)."""
    ref = reference()
    touched = []
    for q, fi in repo.funcs.items():
        if fi.parent is not None:
            continue
        known = set(ref.get(q, {}).get("locals", []))
        fn = fi.node
        counts: Dict[str, int] = {}
        for n in ast.walk(fn):
            if isinstance(n, ast.Name):
                counts[n.id] = counts.get(n.id, 0) + 1
        changed = False
        for node in ast.walk(fn):
            for field in ("body", "orelse", "finalbody"):
                b = getattr(node, field, None)
                if not (isinstance(b, list) and len(b) >= 2):
                    continue
                out = []
                i = 0
                while i < len(b):
                    a = b[i]
                    nxt = b[i + 1] if i + 1 < len(b) else None
                    if (isinstance(a, ast.Assign) and len(a.targets) == 1 and isinstance(a.targets[0], ast.Name) and isinstance(nxt, ast.If)
                            and isinstance(nxt.test, ast.Name) and nxt.test.id == a.targets[0].id and counts.get(a.targets[0].id) == 2
                            and a.targets[0].id not in known):
                        nxt.test = a.value
                        changed = True
                        i += 1
                        continue
                    out.append(a)
                    i += 1
                if len(out) != len(b):
                    setattr(node, field, out)
        if changed:
            touched.append(q)
    return touched


# ---------------------------------------------------------------------------
# Statement-level shape of every function on the tree the rules were validated
# on (reference_shapes.json). core.run_property uses it to tell a *small edit*
# of a function (a mechanism rule that no longer matches is then a finding)
# from a *restructuring* (the rule cannot decide: analysis error, re-validate).

SHAPES = Path(__file__).with_name("reference_shapes.json")
_SHAPES_CACHE: Optional[Dict[str, List[str]]] = None


def _stmt_text(st: ast.stmt) -> str:
    if isinstance(st, (ast.If, ast.While)):
        return f"{type(st).__name__} {ast.unparse(st.test)}"
    if isinstance(st, (ast.For, ast.AsyncFor)):
        return f"For {ast.unparse(st.target)} in {ast.unparse(st.iter)}"
    if isinstance(st, (ast.With, ast.AsyncWith)):
        return "With " + ", ".join(ast.unparse(i) for i in st.items)
    if isinstance(st, ast.Try):
        return "Try " + ",".join(ast.unparse(h.type) if h.type is not None else "*" for h in st.handlers) + ("+finally" if st.finalbody else "")
    if isinstance(st, (ast.FunctionDef, ast.AsyncFunctionDef, ast.ClassDef)):
        return f"def {st.name}"
    return ast.unparse(st)


def stmt_hashes(fn: ast.AST) -> List[str]:
    out = []
    if isinstance(fn, (ast.FunctionDef, ast.AsyncFunctionDef)):
        a = fn.args
        sig = ",".join(x.arg for x in a.posonlyargs + a.args + a.kwonlyargs) + ("*" if a.vararg else "") + ("**" if a.kwarg else "")
        out.append("S" + hashlib.sha256(sig.encode()).hexdigest()[:9])   # the parameter list (an interface change is a restructuring)
    stack = list(getattr(fn, "body", []))
    while stack:
        st = stack.pop()
        if isinstance(st, ast.Expr) and isinstance(st.value, ast.Constant) and isinstance(st.value.value, str):
            continue
        out.append(hashlib.sha256(_stmt_text(st).encode()).hexdigest()[:10])
        if isinstance(st, (ast.FunctionDef, ast.AsyncFunctionDef, ast.ClassDef)):
            continue
        for field in ("body", "orelse", "finalbody"):
            stack.extend(getattr(st, field, []) or [])
        for h in getattr(st, "handlers", []) or []:
            stack.extend(h.body)
    return sorted(out)


def build_shapes(repo) -> Dict[str, List[str]]:
    return {q: stmt_hashes(fi.node) for q, fi in sorted(repo.funcs.items())}


def shapes() -> Dict[str, List[str]]:
    global _SHAPES_CACHE
    if _SHAPES_CACHE is None:
        _SHAPES_CACHE = json.loads(SHAPES.read_text()) if SHAPES.exists() else {}
    return _SHAPES_CACHE


def edit_size(repo, qual: str) -> Optional[int]:
    """Number of statements of `qual` that differ from the validated tree (added + removed); None if the function is new."""
    import collections

    ref = shapes().get(qual)
    fi = repo.funcs.get(qual)
    if ref is None or fi is None:
        return None
    a, b = collections.Counter(ref), collections.Counter(stmt_hashes(fi.node))
    d = (a - b) + (b - a)
    if any(k.startswith("S") for k in d):
        return 1000   # parameter list changed
    return sum(d.values())
