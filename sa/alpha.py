"""
Undo pure local renames.

The rules name local variables of the anchored functions (`size_delta`,
`total_insert_len`, ...). A refactor that only renames locals would make them
blind. For every function of the reference tree (the tree the rules were
written against) `reference_names.json` records a digest of the function with
its local names abstracted (alpha-normal form) and the list of its local
names in first-occurrence order. When a function of the tree under analysis
has the same alpha-normal digest but different local names, its locals are
renamed back to the reference names before any rule looks at it. If the
digests differ nothing is renamed. The table is never used to report
anything.
"""

from __future__ import annotations

import ast
import copy
import hashlib
import json
from pathlib import Path
from typing import Dict, List, Optional, Set, Tuple

REF = Path(__file__).resolve().parent / "reference_names.json"


def _locals_of(fn: ast.AST) -> List[str]:
    """Names bound inside the function (not parameters, not globals/nonlocals), first-occurrence order.
    Nested function *definitions* are walked too (their locals are renamed with the same map only if unique)."""
    params: Set[str] = set()
    a = fn.args  # type: ignore
    for x in [*a.posonlyargs, *a.args, *a.kwonlyargs]:
        params.add(x.arg)
    if a.vararg:
        params.add(a.vararg.arg)
    if a.kwarg:
        params.add(a.kwarg.arg)
    declared: Set[str] = set()
    bound: List[str] = []

    def visit(n: ast.AST, top: bool):
        if isinstance(n, (ast.Global, ast.Nonlocal)):
            declared.update(n.names)
        if isinstance(n, (ast.FunctionDef, ast.AsyncFunctionDef, ast.Lambda, ast.ClassDef)) and not top:
            return
        if isinstance(n, ast.Name) and isinstance(n.ctx, (ast.Store, ast.Del)):
            if n.id not in bound:
                bound.append(n.id)
        if isinstance(n, ast.ExceptHandler) and n.name and n.name not in bound:
            bound.append(n.name)
        for c in ast.iter_child_nodes(n):
            visit(c, False)

    visit(fn, True)
    return [b for b in bound if b not in params and b not in declared]


class _Renamer(ast.NodeTransformer):
    def __init__(self, mapping: Dict[str, str]):
        self.m = mapping
        self.depth = 0

    def visit_Name(self, node: ast.Name):
        if node.id in self.m:
            node.id = self.m[node.id]
        return node

    def visit_ExceptHandler(self, node: ast.ExceptHandler):
        if node.name in self.m:
            node.name = self.m[node.name]
        self.generic_visit(node)
        return node

    def _nested(self, node):
        # a nested def/lambda that rebinds one of the names as a parameter shadows it
        a = node.args
        shadow = {x.arg for x in [*a.posonlyargs, *a.args, *a.kwonlyargs]}
        if a.vararg:
            shadow.add(a.vararg.arg)
        if a.kwarg:
            shadow.add(a.kwarg.arg)
        saved = self.m
        self.m = {k: v for k, v in self.m.items() if k not in shadow}
        self.generic_visit(node)
        self.m = saved
        return node

    def visit_FunctionDef(self, node):
        self.depth += 1
        try:
            if self.depth > 1:
                return self._nested(node)
            self.generic_visit(node)
            return node
        finally:
            self.depth -= 1

    visit_AsyncFunctionDef = visit_FunctionDef

    def visit_Lambda(self, node):
        return self._nested(node)


def alpha_form(fn: ast.AST) -> Tuple[str, List[str]]:
    import copy

    names = _locals_of(fn)
    mapping = {n: f"α{i}" for i, n in enumerate(names)}
    clone = copy.deepcopy(fn)
    _Renamer(mapping).visit(clone)
    # the function's own name and position are irrelevant
    dump = ast.dump(clone, annotate_fields=False, include_attributes=False)
    return hashlib.sha256(dump.encode()).hexdigest()[:24], names


def build_reference(repo) -> Dict[str, dict]:
    out = {}
    for q, fi in sorted(repo.funcs.items()):
        if fi.parent is not None:
            continue
        h, names = alpha_form(fi.node)
        if names:
            out[q] = {"digest": h, "locals": names}
    return out


_REF_CACHE: Optional[Dict[str, dict]] = None


def reference() -> Dict[str, dict]:
    global _REF_CACHE
    if _REF_CACHE is None:
        _REF_CACHE = json.loads(REF.read_text()) if REF.exists() else {}
    return _REF_CACHE


def undo_renames(repo) -> List[str]:
    """Rename locals back to the reference names where only names differ. -> list of functions touched."""
    ref = reference()
    touched = []
    for q, fi in repo.funcs.items():
        if fi.parent is not None or q not in ref:
            continue
        h, names = alpha_form(fi.node)
        r = ref[q]
        if names == r["locals"] or h != r["digest"] or len(names) != len(r["locals"]):
            continue
        # two-step rename to avoid collisions (a->b, b->a)
        tmp = {n: f"αtmp{i}" for i, n in enumerate(names)}
        _Renamer(tmp).visit(fi.node)
        back = {f"αtmp{i}": r["locals"][i] for i in range(len(names))}
        _Renamer(back).visit(fi.node)
        touched.append(q)
    return touched


def fold_new_condition_temps(repo) -> List[str]:
    """`t = <cond>; if t: ...` with a local `t` that the reference tree does not have and that is used
    nowhere else is folded back into `if <cond>: ...` (a hoisted condition is the same program)."""
    ref = reference()
    touched = []
    for q, fi in repo.funcs.items():
        if fi.parent is not None:
            continue
        known = set(ref.get(q, {}).get("locals", []))
        fn = fi.node
        counts: Dict[str, int] = {}
        for n in ast.walk(fn):
            if isinstance(n, ast.Name):
                counts[n.id] = counts.get(n.id, 0) + 1
        changed = False
        for node in ast.walk(fn):
            for field in ("body", "orelse", "finalbody"):
                b = getattr(node, field, None)
                if not (isinstance(b, list) and len(b) >= 2):
                    continue
                out = []
                i = 0
                while i < len(b):
                    a = b[i]
                    nxt = b[i + 1] if i + 1 < len(b) else None
                    if (isinstance(a, ast.Assign) and len(a.targets) == 1 and isinstance(a.targets[0], ast.Name) and isinstance(nxt, ast.If)
                            and isinstance(nxt.test, ast.Name) and nxt.test.id == a.targets[0].id and counts.get(a.targets[0].id) == 2
                            and a.targets[0].id not in known):
                        nxt.test = a.value
                        changed = True
                        i += 1
                        continue
                    out.append(a)
                    i += 1
                if len(out) != len(b):
                    setattr(node, field, out)
        if changed:
            touched.append(q)
    return touched


# ---------------------------------------------------------------------------
# Statement-level shape of every function on the tree the rules were validated
# on (reference_shapes.json). core.run_property uses it to tell a *small edit*
# of a function (a mechanism rule that no longer matches is then a finding)
# from a *restructuring* (the rule cannot decide: analysis error, re-validate).

SHAPES = Path(__file__).with_name("reference_shapes.json")
_SHAPES_CACHE: Optional[Dict[str, List[str]]] = None


def _stmt_text(st: ast.stmt) -> str:
    if isinstance(st, (ast.If, ast.While)):
        return f"{type(st).__name__} {ast.unparse(st.test)}"
    if isinstance(st, (ast.For, ast.AsyncFor)):
        return f"For {ast.unparse(st.target)} in {ast.unparse(st.iter)}"
    if isinstance(st, (ast.With, ast.AsyncWith)):
        return "With " + ", ".join(ast.unparse(i) for i in st.items)
    if isinstance(st, ast.Try):
        return "Try " + ",".join(ast.unparse(h.type) if h.type is not None else "*" for h in st.handlers) + ("+finally" if st.finalbody else "")
    if isinstance(st, (ast.FunctionDef, ast.AsyncFunctionDef, ast.ClassDef)):
        return f"def {st.name}"
    return ast.unparse(st)


def stmt_hashes(fn: ast.AST) -> List[str]:
    out = []
    if isinstance(fn, (ast.FunctionDef, ast.AsyncFunctionDef)):
        a = fn.args
        sig = ",".join(x.arg for x in a.posonlyargs + a.args + a.kwonlyargs) + ("*" if a.vararg else "") + ("**" if a.kwarg else "")
        out.append("S" + hashlib.sha256(sig.encode()).hexdigest()[:9])   # the parameter list (an interface change is a restructuring)
    stack = list(getattr(fn, "body", []))
    while stack:
        st = stack.pop()
        if isinstance(st, ast.Expr) and isinstance(st.value, ast.Constant) and isinstance(st.value.value, str):
            continue
        out.append(hashlib.sha256(_stmt_text(st).encode()).hexdigest()[:10])
        if isinstance(st, (ast.FunctionDef, ast.AsyncFunctionDef, ast.ClassDef)):
            continue
        for field in ("body", "orelse", "finalbody"):
            stack.extend(getattr(st, field, []) or [])
        for h in getattr(st, "handlers", []) or []:
            stack.extend(h.body)
    return sorted(out)


def build_shapes(repo) -> Dict[str, List[str]]:
    return {q: stmt_hashes(fi.node) for q, fi in sorted(repo.funcs.items())}


def shapes() -> Dict[str, List[str]]:
    global _SHAPES_CACHE
    if _SHAPES_CACHE is None:
        _SHAPES_CACHE = json.loads(SHAPES.read_text()) if SHAPES.exists() else {}
    return _SHAPES_CACHE


def edit_size(repo, qual: str) -> Optional[int]:
    """Number of statements of `qual` that differ from the validated tree (added + removed); None if the function is new."""
    import collections

    ref = shapes().get(qual)
    fi = repo.funcs.get(qual)
    if ref is None or fi is None:
        return None
    a, b = collections.Counter(ref), collections.Counter(stmt_hashes(fi.node))
    d = (a - b) + (b - a)
    if any(k.startswith("S") for k in d):
        return 1000   # parameter list changed
    return sum(d.values())


# ---------------------------------------------------------------------------
# Extract-helper refactorings: a function that the validated tree does not have, that is called from exactly one place
# in a function the validated tree does have, and whose body is straight-line enough, is inlined at that call before
# any rule runs.  The program analysed is then the one the rules were validated on (plus/minus the real edit), the gate
# measures the real edit, and a defect inside the extracted code is judged by the rules of the function it came from.

_SIMPLE_ARG = (ast.Name, ast.Attribute, ast.Constant)


def _is_simple_arg(e: ast.AST) -> bool:
    return isinstance(e, _SIMPLE_ARG) and not any(isinstance(x, ast.Call) for x in ast.walk(e))


class _Subst(ast.NodeTransformer):
    def __init__(self, mapping: Dict[str, ast.AST]):
        self.mapping = mapping

    def visit_Name(self, node: ast.Name):
        if isinstance(node.ctx, ast.Load) and node.id in self.mapping:
            return ast.copy_location(copy.deepcopy(self.mapping[node.id]), node)
        return node


def _helper_shape(fn: ast.FunctionDef) -> Optional[str]:
    """'expr' (body is a single `return E`), 'block' (statements, at most one return, as the last top-level statement), or None."""
    if fn.decorator_list and not all(ast.unparse(d) in ("staticmethod",) for d in fn.decorator_list):
        return None
    if fn.args.vararg or fn.args.kwarg or fn.args.posonlyargs:
        return None
    body = [st for st in fn.body if not (isinstance(st, ast.Expr) and isinstance(st.value, ast.Constant) and isinstance(st.value.value, str))]
    if not body:
        return None
    for x in ast.walk(fn):
        if isinstance(x, (ast.Yield, ast.YieldFrom, ast.Await, ast.Global, ast.Nonlocal, ast.Lambda)) or (isinstance(x, (ast.FunctionDef, ast.AsyncFunctionDef, ast.ClassDef)) and x is not fn):
            return None
    rets = [x for x in ast.walk(fn) if isinstance(x, ast.Return)]
    if len(body) == 1 and isinstance(body[0], ast.Return) and body[0].value is not None:
        return "expr"
    if len(rets) == 0 or (len(rets) == 1 and rets[0] is body[-1]):
        return "block"
    return None


def inline_new_helpers(repo) -> List[str]:
    ref = shapes()
    if not ref:
        return []
    done: List[str] = []
    for _round in range(3):
        progress = False
        for hq, hfi in sorted(repo.funcs.items()):
            if hq in ref or hfi.parent is not None or hfi.node.name.startswith("__"):
                continue
            kind = _helper_shape(hfi.node)
            if kind is None:
                continue
            hname = hfi.node.name
            if sum(1 for q in repo.funcs if q.split(".")[-1] == hname) != 1:
                continue
            # every mention of the name in the package
            sites = []
            for fq, ffi in repo.funcs.items():
                if ffi is hfi or ffi.parent is not None:
                    continue
                for x in ast.walk(ffi.node):
                    if isinstance(x, ast.Call) and ((isinstance(x.func, ast.Name) and x.func.id == hname) or (isinstance(x.func, ast.Attribute) and x.func.attr == hname)):
                        sites.append((fq, ffi, x))
            mentions = sum(1 for m in repo.mods.values() for x in ast.walk(m.tree) if (isinstance(x, ast.Name) and x.id == hname) or (isinstance(x, ast.Attribute) and x.attr == hname))
            if len(sites) != 1 or mentions != 1:
                continue
            fq, ffi, call = sites[0]
            if fq not in ref:
                continue
            params = [a.arg for a in hfi.node.args.args]
            defaults = dict(zip(params[len(params) - len(hfi.node.args.defaults):], hfi.node.args.defaults)) if hfi.node.args.defaults else {}
            kwparams = [a.arg for a in hfi.node.args.kwonlyargs]
            for a, d in zip(hfi.node.args.kwonlyargs, hfi.node.args.kw_defaults):
                if d is not None:
                    defaults[a.arg] = d
            actual: Dict[str, ast.AST] = {}
            pos = list(call.args)
            is_method = hfi.cls is not None and not any(ast.unparse(d) == "staticmethod" for d in hfi.node.decorator_list)
            if is_method:
                if not (isinstance(call.func, ast.Attribute)) or not params:
                    continue
                actual[params[0]] = call.func.value
                plist = params[1:]
            else:
                plist = params
            if any(isinstance(a, ast.Starred) for a in pos) or any(k.arg is None for k in call.keywords) or len(pos) > len(plist):
                continue
            for p, a in zip(plist, pos):
                actual[p] = a
            for k in call.keywords:
                actual[k.arg] = k.value
            for p in plist + kwparams:
                if p not in actual:
                    if p in defaults:
                        actual[p] = defaults[p]
            if set(actual) != set(params + kwparams):
                continue
            stored = {t.id for x in ast.walk(hfi.node) for t in ast.walk(x) if isinstance(t, ast.Name) and isinstance(t.ctx, ast.Store)}
            uses = {p: sum(1 for x in ast.walk(hfi.node) if isinstance(x, ast.Name) and x.id == p and isinstance(x.ctx, ast.Load)) for p in actual}
            pre: List[ast.stmt] = []
            mapping: Dict[str, ast.AST] = {}
            for p, a in actual.items():
                if p in stored or (not _is_simple_arg(a) and uses.get(p, 0) > 1):
                    pre.append(ast.copy_location(ast.Assign(targets=[ast.Name(id=p, ctx=ast.Store())], value=copy.deepcopy(a), lineno=call.lineno), call))
                else:
                    mapping[p] = a
            body = [copy.deepcopy(st) for st in hfi.node.body if not (isinstance(st, ast.Expr) and isinstance(st.value, ast.Constant) and isinstance(st.value.value, str))]
            body = [_Subst(mapping).visit(st) for st in body]
            # inlined code lives at the call: rules that order things by line number must see it there, and reports point at the call site
            for st in body + pre:
                for x in ast.walk(st):
                    if hasattr(x, "lineno"):
                        x.lineno = call.lineno
                        x.end_lineno = getattr(call, "end_lineno", call.lineno)
                        x.col_offset = getattr(call, "col_offset", 0)
                        x.end_col_offset = getattr(call, "end_col_offset", 0)
            ok = False
            if kind == "expr":
                expr = body[0].value
                # replace the call node inside its statement
                class _Rep(ast.NodeTransformer):
                    def visit_Call(self, node):
                        self.generic_visit(node)
                        return ast.copy_location(expr, node) if node is call else node
                if pre:
                    continue   # an expression helper whose arguments need temporaries: leave it alone
                _Rep().visit(ffi.node)
                ok = True
            else:
                # the call must be the whole value of a statement of F
                for owner in ast.walk(ffi.node):
                    for fld in ("body", "orelse", "finalbody"):
                        blk = getattr(owner, fld, None)
                        if not isinstance(blk, list):
                            continue
                        for i, st in enumerate(blk):
                            tail = None
                            if isinstance(st, ast.Expr) and st.value is call:
                                tail = []
                            elif isinstance(st, (ast.Assign, ast.AnnAssign, ast.Return)) and getattr(st, "value", None) is call:
                                tail = st
                            else:
                                continue
                            new = pre + body
                            if new and isinstance(new[-1], ast.Return):
                                ret = new.pop()
                                if tail == []:
                                    if ret.value is not None and not _is_simple_arg(ret.value):
                                        new.append(ast.copy_location(ast.Expr(value=ret.value), st))
                                else:
                                    st2 = copy.copy(tail)
                                    st2.value = ret.value if ret.value is not None else ast.Constant(value=None)
                                    new.append(st2)
                            elif tail != []:
                                st2 = copy.copy(tail)
                                st2.value = ast.Constant(value=None)
                                new.append(st2)
                            blk[i:i + 1] = new
                            ok = True
                            break
                        if ok:
                            break
                    if ok:
                        break
            if not ok:
                continue
            ast.fix_missing_locations(ffi.node)
            # the helper is gone from the analysed program
            del repo.funcs[hq]
            if hfi.cls is not None:
                hfi.cls.methods.pop(hname, None)
            else:
                hfi.mod.functions.pop(hname, None)
            done.append(f"{hq} -> {fq}")
            progress = True
            break
        if not progress:
            break
    return done
