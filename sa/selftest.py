"""
Self-test of the checker, both ways, on scratch copies of the *current* tree:

 * mutants  - every seeded change under /verif/seeded (sub-agent made, confirmed
              to break the property while the test-suite stays green), the
              reverts of the 'fix:' commits (/verif/selftest/fix_reverts) and
              the hand-written mutants in selftest/mutants.json must make the
              property's check report a VIOLATION (for fix reverts: exactly
              the rule+key recorded in known_findings.json);
 * neutral  - behaviour-preserving rewrites of the whole package (ast.unparse
              round trip: layout, comments, line numbers destroyed; `pass`
              statements inserted after every simple statement) must leave
              every rule silent.

Scratch copies live under $TMPDIR and are removed afterwards; /repo is never
touched. A mutant whose anchor text no longer exists in the tree is reported
as `stale`, not as a failure.
"""

from __future__ import annotations

import ast
import json
import os
import sys
from concurrent.futures import ProcessPoolExecutor
from pathlib import Path
from typing import Dict, List, Optional, Tuple

from . import core, mutate

ROOT = core.VERIF_ROOT


# ----------------------------------------------------------------------------
# corpus
# ----------------------------------------------------------------------------


def corpus() -> List[dict]:
    out: List[dict] = []
    for d in sorted((ROOT / "seeded").glob("*")):
        if (d / "patch.diff").exists() and (d / "meta.json").exists():
            meta = json.loads((d / "meta.json").read_text())
            # round 6 (refactoring-sized commits with a correct twin): judged against all properties - most of them reshape the
            # code so much that the mechanism rules of their own property can only answer "undecided"
            r6 = "-r6-" in d.name
            out.append({"id": f"seeded/{d.name}", "kind": "patch", "path": str(d / "patch.diff"), "props": list(core.ALL_PROPS) if r6 else [meta["property"]], "expect": None,
                        "own": meta["property"], "r6": r6})
            if r6 and (d / "refactor_ok.diff").exists():
                out.append({"id": f"twin/{d.name}", "kind": "twin", "path": str(d / "refactor_ok.diff"), "props": list(core.ALL_PROPS), "expect": None, "own": meta["property"], "r6": True})
    # round 10: commits that sub-agents were asked to make *correct* (with a check script that passes before and after): any VIOLATION is a false alarm
    for d in sorted((ROOT / "selftest" / "correct").glob("*")):
        if (d / "patch.diff").exists() and (d / "meta.json").exists():
            meta = json.loads((d / "meta.json").read_text())
            out.append({"id": f"correct/{d.name}", "kind": "twin", "path": str(d / "patch.diff"), "props": list(core.ALL_PROPS), "expect": None, "own": meta["property"], "r6": True})
    kf = {k["id"]: k for k in core.load_known_findings() if k.get("status") == "fixed"}
    for f in sorted((ROOT / "selftest" / "fix_reverts").glob("*.diff")):
        k = kf.get(f.stem)
        if k is None:
            continue
        out.append({"id": f"fix-revert/{f.stem}", "kind": "patch", "path": str(f), "props": [k["property"]], "expect": (k["rule"], k["key"])})
    mj = ROOT / "selftest" / "mutants.json"
    if mj.exists():
        for m in json.loads(mj.read_text()):
            out.append({"id": f"hand/{m['id']}", "kind": "replace", "file": m["file"], "old": m["old"], "new": m["new"],
                        "props": m["props"], "expect_rule": m.get("rule")})
    return out


# ----------------------------------------------------------------------------
# neutral variants
# ----------------------------------------------------------------------------


class _InsertPass(ast.NodeTransformer):
    def _pad(self, body):
        out = []
        for st in body:
            out.append(st)
            if isinstance(st, (ast.Expr, ast.Assign, ast.AugAssign, ast.AnnAssign)) and not (
                isinstance(st, ast.Expr) and isinstance(st.value, ast.Constant)
            ):
                out.append(ast.Pass())
        return out

    def generic_visit(self, node):
        super().generic_visit(node)
        for field in ("body", "orelse", "finalbody"):
            b = getattr(node, field, None)
            if isinstance(b, list) and b and isinstance(b[0], ast.stmt) and not isinstance(node, (ast.Module, ast.ClassDef)):
                setattr(node, field, self._pad(b))
        return node


def _simple(e: ast.AST) -> bool:
    return isinstance(e, (ast.Name, ast.Attribute, ast.Constant, ast.Subscript)) and not any(isinstance(x, ast.Call) for x in ast.walk(e))


class _SwapEq(ast.NodeTransformer):
    """a == b  ->  b == a   (also !=, is, is not) for call-free operands."""

    def visit_Compare(self, node):
        self.generic_visit(node)
        if len(node.ops) == 1 and isinstance(node.ops[0], (ast.Eq, ast.NotEq, ast.Is, ast.IsNot)) and _simple(node.left) and _simple(node.comparators[0]) \
                and not isinstance(node.comparators[0], ast.Constant):
            node.left, node.comparators[0] = node.comparators[0], node.left
        return node


class _NestAnd(ast.NodeTransformer):
    """if a and b: body   ->   if a:  if b: body     (no else branch)."""

    def visit_If(self, node):
        self.generic_visit(node)
        if not node.orelse and isinstance(node.test, ast.BoolOp) and isinstance(node.test.op, ast.And) and len(node.test.values) == 2:
            a, b = node.test.values
            inner = ast.If(test=b, body=node.body, orelse=[])
            return ast.If(test=a, body=[inner], orelse=[])
        return node


class _TmpReturn(ast.NodeTransformer):
    """return <call/binop/compare>   ->   result_tmp = <expr>; return result_tmp"""

    def _fix(self, body):
        out = []
        for st in body:
            if isinstance(st, ast.Return) and isinstance(st.value, (ast.Call, ast.BinOp, ast.Compare, ast.BoolOp)):
                out.append(ast.Assign(targets=[ast.Name(id="result_tmp", ctx=ast.Store())], value=st.value))
                out.append(ast.Return(value=ast.Name(id="result_tmp", ctx=ast.Load())))
            else:
                out.append(st)
        return out

    def generic_visit(self, node):
        super().generic_visit(node)
        for field in ("body", "orelse", "finalbody"):
            b = getattr(node, field, None)
            if isinstance(b, list) and b and isinstance(b[0], ast.stmt):
                setattr(node, field, self._fix(b))
        return node


class _InsertLog(ast.NodeTransformer):
    """A logging call after every simple statement of a function body (the commonest harmless edit)."""

    def _pad(self, body):
        out = []
        for st in body:
            out.append(st)
            if isinstance(st, (ast.Assign, ast.AugAssign, ast.AnnAssign)) or (isinstance(st, ast.Expr) and isinstance(st.value, ast.Call)):
                out.append(ast.Expr(ast.Call(func=ast.Attribute(value=ast.Call(func=ast.Attribute(value=ast.Name(id="logging", ctx=ast.Load()), attr="getLogger", ctx=ast.Load()),
                                                                              args=[ast.Constant("gtirb_rewriting.trace")], keywords=[]), attr="debug", ctx=ast.Load()),
                                             args=[ast.Constant("step")], keywords=[])))
        return out

    def visit_FunctionDef(self, node):
        self.generic_visit(node)
        # not in generators' first statement position issues: plain padding of all statement lists inside functions
        for sub in ast.walk(node):
            for field in ("body", "orelse", "finalbody"):
                b = getattr(sub, field, None)
                if isinstance(b, list) and b and isinstance(b[0], ast.stmt) and not isinstance(sub, ast.ClassDef):
                    if not getattr(sub, "_logged_" + field, False):
                        setattr(sub, field, self._pad(b))
                        setattr(sub, "_logged_" + field, True)
        return node


class _InvertIf(ast.NodeTransformer):
    """if a: X else: Y   ->   if not a: Y else: X   (only when there is an else branch that is not an elif)."""

    def visit_If(self, node):
        self.generic_visit(node)
        if node.orelse and not (len(node.orelse) == 1 and isinstance(node.orelse[0], ast.If)):
            return ast.If(test=ast.UnaryOp(op=ast.Not(), operand=node.test), body=node.orelse, orelse=node.body)
        return node


class _ElseDedent(ast.NodeTransformer):
    """if a: ...return/raise/continue/break   else: Y   ->   if a: ...;  Y   (else after a terminating branch)."""

    def _fix(self, body):
        out = []
        for st in body:
            if isinstance(st, ast.If) and st.orelse and st.body and isinstance(st.body[-1], (ast.Return, ast.Raise, ast.Continue, ast.Break)):
                out.append(ast.If(test=st.test, body=st.body, orelse=[]))
                out.extend(st.orelse)
            else:
                out.append(st)
        return out

    def generic_visit(self, node):
        super().generic_visit(node)
        for field in ("body", "orelse", "finalbody"):
            b = getattr(node, field, None)
            if isinstance(b, list) and b and isinstance(b[0], ast.stmt):
                setattr(node, field, self._fix(b))
        return node


class _HoistCond(ast.NodeTransformer):
    """if <compound test>: ...   ->   cond_tmp_N = <test>; if cond_tmp_N: ...   (plain ifs in statement lists)."""

    def __init__(self):
        self.n = 0

    def _fix(self, body):
        out = []
        for st in body:
            if isinstance(st, ast.If) and isinstance(st.test, (ast.BoolOp, ast.Compare, ast.Call, ast.UnaryOp)) and not any(isinstance(x, (ast.NamedExpr, ast.Await, ast.Yield)) for x in ast.walk(st.test)):
                self.n += 1
                name = f"cond_tmp_{self.n}"
                out.append(ast.Assign(targets=[ast.Name(id=name, ctx=ast.Store())], value=st.test))
                st.test = ast.Name(id=name, ctx=ast.Load())
            out.append(st)
        return out

    def visit_FunctionDef(self, node):
        self.generic_visit(node)
        for sub in ast.walk(node):
            for field in ("body", "orelse", "finalbody"):
                b = getattr(sub, field, None)
                if isinstance(b, list) and b and isinstance(b[0], ast.stmt) and not isinstance(sub, ast.ClassDef) and not getattr(sub, "_hoisted_" + field, False):
                    # an elif (orelse == [If]) must stay an elif: hoisting there would move evaluation before the first test
                    if field == "orelse" and isinstance(sub, ast.If) and len(b) == 1 and isinstance(b[0], ast.If):
                        continue
                    setattr(sub, field, self._fix(b))
                    setattr(sub, "_hoisted_" + field, True)
        return node


def make_neutral(root: Path, kind: str) -> None:
    src_dir = root / "src" / core.PKG
    for p in sorted(src_dir.rglob("*.py")):
        text = p.read_text()
        tree = ast.parse(text)
        if kind == "unparse":
            new = ast.unparse(tree)
        elif kind == "insert-pass":
            tree = _InsertPass().visit(tree)
            ast.fix_missing_locations(tree)
            new = ast.unparse(tree)
        elif kind == "rename-locals":
            from . import alpha

            for fn in [n for n in ast.walk(tree) if isinstance(n, (ast.FunctionDef, ast.AsyncFunctionDef))]:
                # only outermost functions/methods (nested defs are renamed with their parent)
                pass
            def rename_in(body_owner):
                for st in body_owner.body:
                    if isinstance(st, (ast.FunctionDef, ast.AsyncFunctionDef)):
                        names = alpha._locals_of(st)
                        alpha._Renamer({n: n + "_rn" for n in names}).visit(st)
                    elif isinstance(st, ast.ClassDef):
                        rename_in(st)
            rename_in(tree)
            new = ast.unparse(tree)
        elif kind in ("swap-eq", "nest-and", "tmp-return", "insert-log", "invert-if", "else-dedent", "hoist-cond"):
            tree = {"swap-eq": _SwapEq, "nest-and": _NestAnd, "tmp-return": _TmpReturn, "insert-log": _InsertLog, "invert-if": _InvertIf, "else-dedent": _ElseDedent, "hoist-cond": _HoistCond}[kind]().visit(tree)
            if kind == "insert-log" and not any(isinstance(n, ast.Import) and any(a.name == "logging" for a in n.names) for n in tree.body):
                tree.body.insert(1 if tree.body and isinstance(tree.body[0], ast.Expr) else 0, ast.Import(names=[ast.alias(name="logging")]))
            ast.fix_missing_locations(tree)
            new = ast.unparse(tree)
        else:
            raise ValueError(kind)
        # keep a trailing newline and shift everything down (line numbers differ)
        p.write_text("# neutral variant: " + kind + "\n\n\n" + new + "\n")


NEUTRAL_KINDS = ("unparse", "insert-pass", "rename-locals", "swap-eq", "nest-and", "tmp-return", "invert-if", "else-dedent", "insert-log", "hoist-cond")


# ----------------------------------------------------------------------------
# workers
# ----------------------------------------------------------------------------


def _run_mutant(m: dict) -> dict:
    from .rules import load_all

    load_all()
    res = {"id": m["id"], "props": m["props"], "status": "?", "fired": [], "errors": []}
    try:
        with mutate.scratch_copy() as root:
            try:
                if m["kind"] in ("patch", "twin"):
                    mutate.apply_patch(root, Path(m["path"]))
                else:
                    mutate.apply_replace(root, m["file"], m["old"], m["new"])
            except core.AnalysisError as exc:
                res["status"] = "stale"
                res["errors"] = [str(exc)[:200]]
                return res
            out = mutate.run_props(root, m["props"])
    except Exception as exc:  # pragma: no cover
        res["status"] = "error"
        res["errors"] = [repr(exc)[:300]]
        return res
    fired = []
    for p, (code, viol, errs) in out.items():
        for v in viol:
            fired.append((p, v[0], v[1]))
        res["errors"] += [e[:200] for e in errs]
    res["fired"] = fired[:8]
    exp = m.get("expect")
    if exp:
        ok = any(r == exp[0] and k == exp[1] for _, r, k in fired)
    elif m.get("expect_rule"):
        ok = any(r == m["expect_rule"] for _, r, _ in fired)
    else:
        ok = bool(fired)
    # a change that restructures the code it breaks is answered with "this rule no longer knows the
    # function, re-validate" (analysis error, exit 2): the check fails, but it does not claim a violation
    undecided = bool(res["errors"])   # some rule stopped with an analysis error: the check exits 2 without a verdict
    if m["kind"] == "twin":
        # the correct version of a round-6 commit: a violation here is a false alarm
        res["status"] = "twin-violation" if fired else ("twin-undecided" if res["errors"] else "twin-silent")
        return res
    res["status"] = "killed" if ok else ("undecided" if undecided else "survived")
    return res


def _run_neutral(args) -> dict:
    kind, props = args
    from .rules import load_all

    load_all()
    res = {"id": f"neutral/{kind}", "status": "?", "fired": [], "errors": []}
    try:
        with mutate.scratch_copy() as root:
            make_neutral(root, kind)
            out = mutate.run_props(root, props)
    except Exception as exc:
        res["status"] = "error"
        res["errors"] = [repr(exc)[:300]]
        return res
    for p, (code, viol, errs) in out.items():
        for v in viol:
            res["fired"].append((p, v[0], v[1]))
        res["errors"] += [f"{p}: {e[:200]}" for e in errs]
    res["status"] = "silent" if not res["fired"] and not res["errors"] else "alarm"
    return res


# ----------------------------------------------------------------------------
# entry points
# ----------------------------------------------------------------------------


def run(props: Optional[List[str]] = None, jobs: int = 16, verbose: bool = True) -> Tuple[int, dict]:
    ms = corpus()
    if props:
        # round-6 commits belong to the run of the property they were written against, but stay judged against all properties
        ms = [m for m in ms if (m.get("own") in props if m.get("r6") else set(m["props"]) & set(props))]
        for m in ms:
            if not m.get("r6"):
                m["props"] = [p for p in m["props"] if p in props] if not m.get("expect") else m["props"]
    from .rules import load_all

    load_all()
    all_props = sorted({p for r in core.RULES.values() for p in r.props})
    nprops = props or all_props
    with ProcessPoolExecutor(jobs) as ex:
        mres = list(ex.map(_run_mutant, ms))
        nres = list(ex.map(_run_neutral, [(k, nprops) for k in NEUTRAL_KINDS]))
    killed = [r for r in mres if r["status"] == "killed"]
    survived = [r for r in mres if r["status"] == "survived"]
    undecided = [r for r in mres if r["status"] == "undecided"]
    stale = [r for r in mres if r["status"] == "stale"]
    errors = [r for r in mres if r["status"] == "error"]
    alarms = [r for r in nres if r["status"] != "silent"]
    twins = [r for r in mres if r["status"].startswith("twin-")]
    mres = [r for r in mres if not r["status"].startswith("twin-")]
    tw_v = [r for r in twins if r["status"] == "twin-violation"]
    tw_u = [r for r in twins if r["status"] == "twin-undecided"]
    if verbose:
        for r in survived:
            print(f"SELFTEST mutant survived: {r['id']} (props {r['props']}) errors={r['errors'][:1]}")
        for r in errors:
            print(f"SELFTEST mutant error: {r['id']} {r['errors'][:1]}")
        for r in stale:
            print(f"SELFTEST mutant stale (anchor gone): {r['id']}")
        for r in alarms:
            print(f"SELFTEST neutral variant raised an alarm: {r['id']} fired={r['fired'][:3]} errors={r['errors'][:2]}")
        for r in tw_v:
            print(f"SELFTEST correct twin accused of a violation (known limitation, see DESIGN 10.8): {r['id']} {sorted({f[1] for f in r['fired']})}")
        if twins:
            print(f"SELFTEST correct refactoring twins: {len(twins) - len(tw_v) - len(tw_u)} silent, {len(tw_u)} undecided (exit 2), {len(tw_v)} accused of a violation")
        for r in undecided:
            print(f"SELFTEST mutant undecided (analysis error, exit 2): {r['id']} {r['errors'][0][:150] if r['errors'] else ''}")
        print(f"SELFTEST mutants: {len(killed)} killed, {len(undecided)} undecided (exit 2, no verdict), {len(survived)} survived, {len(stale)} stale, {len(errors)} errors; "
              f"neutral variants: {len(nres) - len(alarms)}/{len(nres)} silent")
    code = 0 if not survived and not errors and not alarms else 2
    extra = {
        "selftest": {
            "mutants_total": len(mres),
            "mutants_killed": len(killed),
            "mutants_survived": [r["id"] for r in survived],
            "mutants_undecided": [r["id"] for r in undecided],
            "correct_twins": {"silent": len(twins) - len(tw_v) - len(tw_u), "undecided": len(tw_u), "accused": [r["id"] for r in tw_v]},
            "mutants_stale": [r["id"] for r in stale],
            "neutral_variants": {r["id"]: r["status"] for r in nres},
            "samples": [{"mutant": r["id"], "fired": r["fired"][:2]} for r in killed[:6]],
        }
    }
    return code, extra


# ----------------------------------------------------------------------------
# automatic first-order mutants of the functions a property's rules look at
# ----------------------------------------------------------------------------


def _auto_worker(args) -> dict:
    relfile, desc, new_text, prop = args
    from .rules import load_all

    load_all()
    try:
        with mutate.scratch_copy() as root:
            (root / relfile).write_text(new_text)
            out = mutate.run_props(root, [prop])
    except Exception as exc:  # pragma: no cover
        return {"desc": desc, "file": relfile, "status": "error", "err": repr(exc)[:120]}
    code, viol, errs = out[prop]
    return {"desc": desc, "file": relfile, "status": "killed" if viol else ("analysis-error" if errs else "survived"),
            "rules": sorted({v[0] for v in viol})[:4]}


def auto_mutants(prop: str, seed: int, limit: int = 160, jobs: int = 16) -> dict:
    """
    Mutation score of the property's check on the functions its rules
    examined: first-order mutants (sa/mutops.py) of exactly those functions,
    a seeded sample of `limit`, each run against the check. Not a pass/fail
    criterion (many mutants do not touch the property or are equivalent); it
    measures how much of the anchored code the rules are sensitive to.
    """
    import random

    from . import mutops
    from .rules import load_all

    load_all()
    repo = core.Repo()
    code, rep = core.run_property(prop, "quick", repo=repo, write_evidence=False, quiet=True)
    funcs = {i.function for i in rep.get("instances", [])}
    by_file: Dict[str, List[Tuple[int, int]]] = {}
    for q in funcs:
        fi = repo.funcs.get(q)
        if fi is None:
            continue
        by_file.setdefault(fi.mod.relpath, []).append((fi.node.lineno, fi.node.end_lineno or fi.node.lineno))
    tasks = []
    for rel, ranges in sorted(by_file.items()):
        text = (repo.root / rel).read_text()
        tree = ast.parse(text)
        base = ast.unparse(tree)
        seen = set()
        for desc, t in mutops.mutants_of(tree):
            try:
                line = int(desc.split()[0][1:])
            except ValueError:
                continue
            if not any(a <= line <= b for a, b in ranges):
                continue
            try:
                ast.fix_missing_locations(t)
                new = ast.unparse(t)
            except Exception:
                continue
            if new == base or new in seen:
                continue
            seen.add(new)
            tasks.append((rel, desc, new, prop))
    total = len(tasks)
    random.Random(seed).shuffle(tasks)
    tasks = tasks[:limit]
    with ProcessPoolExecutor(jobs) as ex:
        res = list(ex.map(_auto_worker, tasks, chunksize=2))
    killed = [r for r in res if r["status"] == "killed"]
    surv = [r for r in res if r["status"] == "survived"]
    return {
        "functions_mutated": len(funcs),
        "mutants_generated": total,
        "mutants_sampled": len(res),
        "killed": len(killed),
        "analysis_error_only": sum(1 for r in res if r["status"] == "analysis-error"),
        "survived": len(surv),
        "survivor_samples": [f"{r['file'].split('/')[-1]} {r['desc']}" for r in surv[:12]],
        "killed_samples": [f"{r['file'].split('/')[-1]} {r['desc']} -> {r['rules']}" for r in killed[:6]],
        "note": "survivors include mutants that do not affect this property and equivalent mutants; no threshold is applied",
    }


def run_for_property(prop: str) -> Tuple[int, dict]:
    code, extra = run([prop])
    seed = int(os.environ.get("VERIF_SEED", "0") or 0)
    try:
        extra["auto_mutation"] = auto_mutants(prop, seed)
        am = extra["auto_mutation"]
        print(f"SELFTEST auto-mutants ({prop}): {am['killed']}/{am['mutants_sampled']} sampled mutants of {am['functions_mutated']} anchored functions reported "
              f"({am['mutants_generated']} generated, seed {seed})")
    except Exception as exc:  # never fail the check because of the score
        extra["auto_mutation"] = {"error": repr(exc)[:200]}
    return code, extra


if __name__ == "__main__":
    sys.path.insert(0, str(ROOT))
    ps = [a for a in sys.argv[1:] if not a.startswith("-")] or None
    c, extra = run(ps)
    sys.exit(c)
