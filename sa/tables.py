"""
Spec tables written from outside the code under test (the trusted base of
C14): DWARF v4 section 7.7.1 (expression operations), 7.23 (call frame
instructions) plus the GNU / AArch64 vendor extensions, and the LSB pointer
encodings (DW_EH_PE_*).
"""

# name -> value for every member the repository's enums may define
DW_OP = {
    "addr": 0x03, "deref": 0x06, "const1u": 0x08, "const1s": 0x09, "const2u": 0x0A, "const2s": 0x0B,
    "const4u": 0x0C, "const4s": 0x0D, "const8u": 0x0E, "const8s": 0x0F, "constu": 0x10, "consts": 0x11,
    "dup": 0x12, "drop": 0x13, "over": 0x14, "pick": 0x15, "swap": 0x16, "rot": 0x17, "xderef": 0x18,
    "abs": 0x19, "and_": 0x1A, "div": 0x1B, "minus": 0x1C, "mod": 0x1D, "mul": 0x1E, "neg": 0x1F,
    "not_": 0x20, "or_": 0x21, "plus": 0x22, "plus_uconst": 0x23, "shl": 0x24, "shr": 0x25, "shra": 0x26,
    "xor": 0x27, "bra": 0x28, "eq": 0x29, "ge": 0x2A, "gt": 0x2B, "le": 0x2C, "lt": 0x2D, "ne": 0x2E,
    "skip": 0x2F, "regx": 0x90, "fbreg": 0x91, "bregx": 0x92, "piece": 0x93, "deref_size": 0x94,
    "xderef_size": 0x95, "nop": 0x96, "push_object_address": 0x97, "call2": 0x98, "call4": 0x99,
    "call_ref": 0x9A, "form_tls_address": 0x9B, "call_frame_cfa": 0x9C, "bit_piece": 0x9D,
    "implicit_value": 0x9E, "stack_value": 0x9F,
}
for _i in range(32):
    DW_OP[f"lit{_i}"] = 0x30 + _i
    DW_OP[f"reg{_i}"] = 0x50 + _i
    DW_OP[f"breg{_i}"] = 0x70 + _i

DW_CFA = {
    "nop": 0x00, "set_loc": 0x01, "advance_loc1": 0x02, "advance_loc2": 0x03, "advance_loc4": 0x04,
    "offset_extended": 0x05, "restore_extended": 0x06, "undefined": 0x07, "same_value": 0x08,
    "register": 0x09, "remember_state": 0x0A, "restore_state": 0x0B, "def_cfa": 0x0C,
    "def_cfa_register": 0x0D, "def_cfa_offset": 0x0E, "def_cfa_expression": 0x0F, "expression": 0x10,
    "offset_extended_sf": 0x11, "def_cfa_sf": 0x12, "def_cfa_offset_sf": 0x13, "val_offset": 0x14,
    "val_offset_sf": 0x15, "val_expression": 0x16, "advance_loc": 0x40, "offset": 0x80, "restore": 0xC0,
    "gnu_window_save": 0x2D, "gnu_args_size": 0x2E, "gnu_negative_offset_extended": 0x2F,
    "aarch64_negate_ra_state": 0x2D,
}

DW_EH_PE = {
    "omit": 0xFF, "absptr": 0x00, "uleb128": 0x01, "udata2": 0x02, "udata4": 0x03, "udata8": 0x04,
    "sleb128": 0x09, "sdata2": 0x0A, "sdata4": 0x0B, "sdata8": 0x0C, "pcrel": 0x10, "textrel": 0x20,
    "datarel": 0x30, "funcrel": 0x40, "aligned": 0x50, "indirect": 0x80,
}

# operand encodings: "uleb", "sleb", "u1".."u8", "s1".."s8", "addr", "expr", ("fused", N)
U, S, ADDR, EXPR = "uleb", "sleb", "addr", "expr"
OP_OPERANDS = {
    "addr": [ADDR], "deref": [], "const1u": ["u1"], "const1s": ["s1"], "const2u": ["u2"], "const2s": ["s2"],
    "const4u": ["u4"], "const4s": ["s4"], "const8u": ["u8"], "const8s": ["s8"], "constu": [U], "consts": [S],
    "dup": [], "drop": [], "over": [], "pick": ["u1"], "swap": [], "rot": [], "xderef": [], "abs": [],
    "and_": [], "div": [], "minus": [], "mod": [], "mul": [], "neg": [], "not_": [], "or_": [], "plus": [],
    "plus_uconst": [U], "shl": [], "shr": [], "shra": [], "xor": [], "skip": ["s2"], "bra": ["s2"],
    "eq": [], "ge": [], "gt": [], "le": [], "lt": [], "ne": [],
    "lit0": [("fused", 32)], "reg0": [("fused", 32)], "breg0": [("fused", 32), S],
    "regx": [U], "fbreg": [S], "bregx": [U, S], "piece": [U], "deref_size": ["u1"], "xderef_size": ["u1"],
    "nop": [], "push_object_address": [], "call2": ["u2"], "call4": ["u4"],
}
CFA_OPERANDS = {
    "nop": [], "offset_extended": [U, U], "restore_extended": [U], "undefined": [U], "same_value": [U],
    "register": [U, U], "remember_state": [], "restore_state": [], "def_cfa": [U, U],
    "def_cfa_register": [U], "def_cfa_offset": [U], "def_cfa_expression": [EXPR], "expression": [U, EXPR],
    "offset_extended_sf": [U, S], "def_cfa_sf": [U, S], "def_cfa_offset_sf": [S], "val_offset": [U, U],
    "val_offset_sf": [U, S], "val_expression": [U, EXPR], "offset": [("fused", 64), U], "restore": [("fused", 64)],
    "advance_loc": [("fused", 64)], "advance_loc1": ["u1"], "advance_loc2": ["u2"], "advance_loc4": ["u4"],
    "set_loc": [ADDR], "gnu_args_size": [U], "gnu_negative_offset_extended": [U, U],
}
# instructions whose assembler directive takes exactly the raw operands; every
# other modelled instruction must be expressed as .cfi_escape
CFA_DIRECTIVES = {
    "def_cfa": ".cfi_def_cfa", "def_cfa_register": ".cfi_def_cfa_register", "undefined": ".cfi_undefined",
    "same_value": ".cfi_same_value", "register": ".cfi_register", "restore": ".cfi_restore",
    "remember_state": ".cfi_remember_state", "restore_state": ".cfi_restore_state",
    "def_cfa_offset": ".cfi_def_cfa_offset",
}

# Platform ABIs (C15.5 / C16.5 / C17.7)
TRIPLE_ENDIAN = {"x86_64": "little", "i386": "little", "arm64": "little", "arm": "little", "mips": "big", "mipsel": "little", "aarch64": "little"}
PLATFORM_CC = {
    # class name -> (registers, stack alignment, caller cleanup, shadow space)
    "_X86_64_ELF": (("RDI", "RSI", "RDX", "RCX", "R8", "R9"), 16, True, 0),
    "_X86_64_PE": (("RCX", "RDX", "R8", "R9"), 16, True, 32),
    "_IA32_PE": ((), 4, True, 0),
    "_ARM64_ELF": (("x0", "x1", "x2", "x3", "x4", "x5", "x6", "x7"), 16, True, 0),
    "_MIPS32_ELF": (("a0", "a1", "a2", "a3"), 8, True, 0),
}
CALLER_SAVED = {
    "_X86_64_ELF": {"RAX", "RCX", "RDX", "RSI", "RDI", "R8", "R9", "R10", "R11"},
    "_X86_64_PE": {"RAX", "RCX", "RDX", "R8", "R9", "R10", "R11"},
    "_IA32_PE": {"EAX", "ECX", "EDX"},
}
POINTER_SIZE = {"_X86_64_ELF": 8, "_X86_64_PE": 8, "_IA32_PE": 4, "_ARM64_ELF": 8, "_MIPS32_ELF": 4}
RED_ZONE = {"_X86_64_ELF": 128, "_X86_64_PE": 0, "_IA32_PE": 0, "_ARM64_ELF": 0, "_MIPS32_ELF": 0}
NOP = {"_X86_64_ELF": b"\x90", "_X86_64_PE": b"\x90", "_IA32_PE": b"\x90", "_ARM64_ELF": b"\x1f\x20\x03\xd5", "_MIPS32_ELF": b"\x00\x00\x00\x00"}
RESERVED_REGS = {
    "_ARM64_ELF": {"x16", "x17", "x18", "x29", "x30", "sp", "fp", "lr"},
    "_MIPS32_ELF": {"t8", "t9", "sp", "gp", "fp", "ra", "k0", "k1", "at", "zero"},
    "_X86_64_ELF": {"rsp", "rbp"}, "_X86_64_PE": {"rsp", "rbp"}, "_IA32_PE": {"esp", "ebp"},
}

# LLVM MC opcode names of the indirect forms of the native near call, per ISA
# (register operand / memory operand). A table without them classifies such a
# call as direct. Reference: LLVM X86InstrControl.td, AArch64InstrInfo.td, MipsInstrInfo.td.
INDIRECT_CALL_REQUIRED = {
    "IA32": {"CALL32r", "CALL32m"},
    "X64": {"CALL64r", "CALL64m"},
    "ARM64": {"BLR"},
    "MIPS32": {"JALR"},
}
