"""First-order AST mutation operators (shared by tools/mutgen.py and the thorough self-test)."""
import ast, copy

CMP = {ast.Lt: ast.LtE, ast.LtE: ast.Lt, ast.Gt: ast.GtE, ast.GtE: ast.Gt, ast.Eq: ast.NotEq, ast.NotEq: ast.Eq,
       ast.Is: ast.IsNot, ast.IsNot: ast.Is, ast.In: ast.NotIn, ast.NotIn: ast.In}


def mutants_of(tree: ast.Module):
    """yield (description, mutated tree)"""
    nodes = list(ast.walk(tree))
    index = {id(n): i for i, n in enumerate(nodes)}

    def clone_with(fn):
        t = copy.deepcopy(tree)
        ns = list(ast.walk(t))
        return t, ns

    for i, n in enumerate(nodes):
        line = getattr(n, "lineno", 0)
        if isinstance(n, ast.Compare):
            for j, op in enumerate(n.ops):
                if type(op) in CMP:
                    t, ns = clone_with(None)
                    ns[i].ops[j] = CMP[type(op)]()
                    yield f"L{line} cmp {type(op).__name__}->{CMP[type(op)].__name__}", t
        if isinstance(n, ast.BoolOp):
            for j in range(len(n.values)):
                if len(n.values) >= 2:
                    t, ns = clone_with(None)
                    del ns[i].values[j]
                    if len(ns[i].values) == 1:
                        # replace BoolOp by its remaining operand
                        rem = ns[i].values[0]
                        for p in ast.walk(t):
                            for f, v in ast.iter_fields(p):
                                if v is ns[i]:
                                    setattr(p, f, rem)
                                elif isinstance(v, list):
                                    for k, x in enumerate(v):
                                        if x is ns[i]:
                                            v[k] = rem
                    yield f"L{line} boolop drop operand {j}", t
            t, ns = clone_with(None)
            ns[i].op = ast.Or() if isinstance(n.op, ast.And) else ast.And()
            yield f"L{line} boolop and<->or", t
        if isinstance(n, ast.UnaryOp) and isinstance(n.op, ast.Not):
            t, ns = clone_with(None)
            tgt = ns[i]
            for p in ast.walk(t):
                for f, v in ast.iter_fields(p):
                    if v is tgt:
                        setattr(p, f, tgt.operand)
                    elif isinstance(v, list):
                        for k, x in enumerate(v):
                            if x is tgt:
                                v[k] = tgt.operand
            yield f"L{line} drop not", t
        if isinstance(n, ast.Constant) and isinstance(n.value, bool):
            t, ns = clone_with(None)
            ns[i].value = not n.value
            yield f"L{line} bool flip", t
        elif isinstance(n, ast.Constant) and isinstance(n.value, int) and not isinstance(n.value, bool) and abs(n.value) <= 64:
            t, ns = clone_with(None)
            ns[i].value = n.value + 1
            yield f"L{line} int {n.value}->{n.value + 1}", t
        if isinstance(n, ast.AugAssign) and isinstance(n.op, (ast.Add, ast.Sub)):
            t, ns = clone_with(None)
            ns[i].op = ast.Sub() if isinstance(n.op, ast.Add) else ast.Add()
            yield f"L{line} augassign +=<->-=", t
        if isinstance(n, ast.BinOp) and isinstance(n.op, (ast.Add, ast.Sub)) and not isinstance(n.left, ast.Constant):
            t, ns = clone_with(None)
            ns[i].op = ast.Sub() if isinstance(n.op, ast.Add) else ast.Add()
            yield f"L{line} binop +<->-", t
        if isinstance(n, (ast.Continue, ast.Break)):
            t, ns = clone_with(None)
            rep = ast.Break() if isinstance(n, ast.Continue) else ast.Continue()
            for p in ast.walk(t):
                for f, v in ast.iter_fields(p):
                    if isinstance(v, list):
                        for k, x in enumerate(v):
                            if x is ns[i]:
                                v[k] = ast.copy_location(rep, x)
            yield f"L{line} continue<->break", t
        if isinstance(n, ast.Subscript) and isinstance(n.slice, ast.Constant) and n.slice.value in (0, -1) and isinstance(n.ctx, ast.Load):
            t, ns = clone_with(None)
            ns[i].slice = ast.Constant(-1 if n.slice.value == 0 else 0)
            yield f"L{line} index {n.slice.value}<->{-1 if n.slice.value == 0 else 0}", t
        # statement deletion
        for field in ("body", "orelse", "finalbody"):
            b = getattr(n, field, None)
            if isinstance(b, list) and b and isinstance(b[0], ast.stmt) and not isinstance(n, (ast.Module, ast.ClassDef)):
                for j, st in enumerate(b):
                    if isinstance(st, (ast.Expr, ast.Assign, ast.AugAssign, ast.Delete, ast.Raise, ast.Return)) and not (
                        isinstance(st, ast.Expr) and isinstance(st.value, ast.Constant)):
                        if isinstance(st, ast.Return) and st.value is None:
                            continue
                        t, ns = clone_with(None)
                        bb = getattr(ns[i], field)
                        bb[j] = ast.copy_location(ast.Pass(), bb[j])
                        yield f"L{st.lineno} delete {type(st).__name__}: {ast.unparse(st)[:50]}", t
        # wrong variable: swap a Name argument of a call with another parameter/local of the same function
        if isinstance(n, (ast.FunctionDef, ast.AsyncFunctionDef)):
            params = [a.arg for a in n.args.args if a.arg not in ("self", "cls")]
            if len(params) >= 2:
                for c in ast.walk(n):
                    if isinstance(c, ast.Call):
                        for ai, a in enumerate(c.args):
                            if isinstance(a, ast.Name) and a.id in params:
                                others = [p for p in params if p != a.id and p.split("_")[-1] == a.id.split("_")[-1]]
                                for o in others[:1]:
                                    t, ns = clone_with(None)
                                    ns[index[id(a)]].id = o
                                    yield f"L{a.lineno} arg {a.id}->{o}", t


