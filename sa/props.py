"""Per-property text used in evidence files (what is and is not decided)."""

_COMMON = (
    "Static analysis of /repo's working tree (ast only; nothing is imported "
    "or run). The property is behavioural and is NOT proved; what is decided "
    "is a set of structural necessary conditions of it - each rule instance "
    "is a call site / table row / re-keying site / path obligation extracted "
    "from the source and compared with a spec kept in the checker."
)

PROPS = {
    "C01": dict(
        decided="splice primitive segment algebra, block-shift predicate, "
        "agreement of the four uses of the insertion point, delete() "
        "arguments and order, net-growth accounting and actual-offset formula "
        "in _apply_modifications, sort key / overlap assertion / id "
        "provenance, split-before-yield / join-after-yield pairing.",
        not_decided="that these verification conditions compose to "
        "listing-edit equality for every module and edit set; the block "
        "returned by _cleanup_modified_blocks; padding bytes (C10).",
        trusted_base=["spec tables in sa/rules/c01.py written from the property text"],
    ),
    "C02": dict(
        decided="retirement protocol (symbols retargeted through the "
        "reference cache on every path to a block leaving its interval), "
        "target choice decision table, split_block end-label loop, keep-the-"
        "block clause, patch symbols added and rebased.",
        not_decided="positions after particular split/empty/re-join orders.",
        trusted_base=["decision table from the property statement / doc/Deletion.md"],
    ),
    "C03": dict(
        decided="incoming/outgoing edges of a retiring block are all moved or "
        "discarded (exhaustive filters), split_block edge table, update_edge "
        "shape, stitching in insert(), continuation block rule, assembler "
        "edge-kind table.",
        not_decided="per-instruction CFG equality, return-edge sets, "
        "fallthrough-iff-can-fall-through for arbitrary code.",
        trusted_base=["edge tables in sa/rules/c03.py, c12.py"],
    ),
    "C04": dict(
        decided="boundary behaviour (order-type tables) of every re-keying "
        "comprehension/loop, sibling agreement inside edit_byte_interval, "
        "Offset-keyed table coverage, patch expression rebasing, re-keyed "
        "entries reaching aux storage (no lost update into a local).",
        not_decided="composition across several edits; attribute "
        "correctness of assembler output.",
        trusted_base=["region tables (DESIGN appendix A.1)"],
    ),
    "C05": dict(
        decided="exhaustive aux-table cleanup for removed/joined blocks, "
        "guard/updater agreement for module entry tables, restoration in "
        "finally and unconditional ReferenceCache.apply, created nodes are "
        "registered, patch callbacks run before mutation, CFI tuples carry "
        "NULL_UUID or a symbol.",
        not_decided="whole-IR validity, non-overlap of new blocks, the "
        "protobuf round trip, aux values.",
        trusted_base=["table classification derived from _auxdata.py static types"],
    ),
    "C06": dict(
        decided="functionBlocks writes mirrored in functions_by_block, "
        "promotion guard, join refusals, inserted code blocks (and only code "
        "blocks) join the function, last-block-out pops exactly the three "
        "tables, new function stub writes all three tables + mirrors.",
        not_decided="partition correctness after arbitrary edit sequences.",
        trusted_base=["spec from the property statement"],
    ),
    "C07": dict(
        decided="one store per modification and both stores read, "
        "_needs_disassembly agrees with the arms that use disassembly, "
        "position table (ENTRY/EXIT/ANYWHERE), assert_never witness, "
        "InsertionContext built from the original block/offset, pass "
        "protocol order in PassManager.run.",
        not_decided="scope predicates for every module (gtirb_functions), "
        "terminator detection from edges.",
        trusted_base=["spec from the property statement"],
    ),
    "C08": dict(
        decided="directive vocabulary closure, structural directives kept "
        "and re-homed, CFI split rule at the boundary, emitter subset of "
        "evaluator, patches outside procedures lose their CFI, tracker "
        "membership agrees with the split rule at both ends.",
        not_decided="equality of evaluated unwind state per instruction.",
        trusted_base=["region table for the CFI split, IntervalTree half-open summary"],
    ),
    "C09": dict(
        decided="no raw Symbol.referent/at_end access on module symbols "
        "under the active reference cache (taint-style, with the sanitising "
        "lookup wrapper), interval-membership changes paired with "
        "block_ordering calls, functionBlocks mirror, retarget/delete of "
        "symbols after the cache context, adjacency only through the cache.",
        not_decided="batch == sequential equivalence itself.",
        trusted_base=["source/sanitiser/sink lists in sa/rules/c09.py"],
    ),
    "C10": dict(
        decided="split/join re-keying boundaries, pairing around the yield, "
        "padding discipline (whole nops after code, zeros otherwise, "
        "remainder check before append, padding covered by a block), address/"
        "size/contents advanced together, live alignment table used at join.",
        not_decided="identity of the empty rewrite, align_address "
        "arithmetic, final layout.",
        trusted_base=["region tables; linear normaliser"],
    ),
    "C11": dict(
        decided="every iteration over an unordered source in the rewrite "
        "code is classified (commutative body / explicitly sorted / frozen "
        "exception), sort keys over node sets, counters, banned sources.",
        not_decided="effect summaries of third-party containers; "
        "nondeterminism inside gtirb_layout/LLVM/capstone.",
        trusted_base=["unordered-source typing table, commutative-effect table"],
    ),
    "C12": dict(
        decided="edge-kind decision table of emit_instruction, single writer "
        "of section.data, fixup key taken before the append, finalize "
        "pipeline order and conversion conditions, registry agreement, "
        "emit_label block start.",
        not_decided="encoded bytes versus an independent disassembler.",
        trusted_base=["edge-kind table (DESIGN appendix A.2)"],
    ),
    "C13": dict(
        decided="created name is among the checked names, lookup order and "
        "identity, undefined symbol cached once, suffix only for temporaries, "
        "patch id incremented before the suffix is formed, assembler state "
        "persistence across assemble() calls.",
        not_decided="chunked == whole for arbitrary chunk boundaries inside "
        "LLVM's parser.",
        trusted_base=["spec from the property statement"],
    ),
    "C14": dict(
        decided="every opcode number, operand count/order/encoding and fused "
        "range against a DWARF v4 table kept in the checker; registry "
        "injectivity; encoder/decoder duality; validate-before-encode; "
        "driver symmetry; make_const_op candidate table.",
        not_decided="minimality of make_const_op for every integer, "
        "behaviour on truncated input.",
        trusted_base=["DWARF v4 7.7.1 / 7.23 tables in sa/tables.py"],
    ),
    "C15": dict(
        decided="may-raise discipline of the evaluator, per-directive "
        "transfer table against the DWARF rules, no aliasing between current/"
        "saved/initial states, reset and visiting order, ABI byte order and "
        "pointer size agree with the assembler's triple.",
        not_decided="states for directive sequences (composition).",
        trusted_base=["CFI transfer table (DESIGN appendix A.3)"],
    ),
    "C16": dict(
        decided="prologue/epilogue pairing and LIFO order, stack_adjustment "
        "accounting, red-zone skip before the first store, MIPS frame, "
        "scratch allocation (prefix, total sort key, no reserved registers), "
        "ABI interface completeness.",
        not_decided="semantics inside the opaque align-stack snippet pair; "
        "that patch bodies respect their declared constraints.",
        trusted_base=["snippet effect / inverse-pair tables (DESIGN A.4)"],
    ),
    "C17": dict(
        decided="argument placement order, stack neutrality of the emitted "
        "lines, alignment accounting contains every SP decrement, symbol "
        "arguments use address-forming templates, hex-formatted immediates "
        "are non-negative, default conventions vs platform ABI table.",
        not_decided="encodability of 64-bit immediates on x86; alignment for "
        "arbitrary unknown prologue displacement.",
        trusted_base=["platform ABI table, snippet effect table"],
    ),
    "C18": dict(
        decided="use-tables rewritten and identity tables untouched, "
        "refusals present before storing, only Branch/Call edges to the old "
        "referent are moved and only for control-flow expressions, attribute "
        "rule selection, addend preserved, retarget runs after the cache "
        "context.",
        not_decided="return-edge consequences, chains A->B->C.",
        trusted_base=["spec from the property statement"],
    ),
    "C19": dict(
        decided="every Symbol-typed aux table has a deletion helper reachable "
        "from _delete_auxdata_entries that removes by key and by value, CFI "
        "rewritten with NULL_UUID/omit, raise-before-delete in the non-force "
        "arm, version GC guards, module detach last.",
        not_decided="equality of untouched entries.",
        trusted_base=["table classification derived from _auxdata.py static types"],
    ),
    "C20": dict(
        decided="every storage-writing method of the installed gtirb.CFG is "
        "overridden in ReturnEdgeCache with symmetric index updates, "
        "make_return_cache restoration, ReferenceCache mirror pairs, linked "
        "list pointer pairs, IdentitySet/OffsetMapping key discipline and ABC "
        "completeness, BlockOrdering rejects already-ordered blocks.",
        not_decided="equivalence with the abstract models over all "
        "operation histories (path compression, lazy materialisation).",
        trusted_base=["installed gtirb/cfg.py source (read as text)"],
    ),
}

for _p in PROPS.values():
    _p.setdefault("explanation", _COMMON)
    _p.setdefault(
        "assumptions",
        [
            "identical condition text with no intervening reassignment of the "
            "names it reads denotes the same truth value (guard algebra)",
            "third-party calls have the effect summaries written in the rules",
        ],
    )
