"""
Small exact deciders.

* minieval: interpreter for *extracted* pure integer/boolean expression trees
  (names, attribute paths, + - comparisons, and/or/not, conditional
  expressions, max/min/len of known values). It is the checker's own
  evaluator, used to tabulate a re-keying function on one sample per order
  type of its inputs; repository code is never executed.
* linear normal form for sums/differences.
"""

from __future__ import annotations

import ast
import itertools
from typing import Callable, Dict, Iterable, List, Optional, Tuple

from .astx import src
from .core import AnalysisError


class Unknown(Exception):
    pass


def minieval(node: ast.AST, env: Dict[str, object]):
    """Evaluate an extracted expression tree in `env` (keys are source text)."""
    key = src(node)
    if key in env:
        return env[key]
    if isinstance(node, ast.Constant):
        if isinstance(node.value, (int, bool)) or node.value is None:
            return node.value
        raise Unknown(key)
    if isinstance(node, ast.Name):
        raise Unknown(f"free name {node.id}")
    if isinstance(node, ast.Attribute) or isinstance(node, ast.Subscript):
        raise Unknown(f"free path {key}")
    if isinstance(node, ast.BinOp):
        l, r = minieval(node.left, env), minieval(node.right, env)
        if isinstance(node.op, ast.Add):
            return l + r
        if isinstance(node.op, ast.Sub):
            return l - r
        if isinstance(node.op, ast.Mult):
            return l * r
        if isinstance(node.op, ast.FloorDiv):
            return l // r
        if isinstance(node.op, ast.BitAnd):
            return l & r
        if isinstance(node.op, ast.Pow) and isinstance(r, int) and 0 <= r <= 128:
            return l ** r
        raise Unknown(key)
    if isinstance(node, ast.UnaryOp):
        v = minieval(node.operand, env)
        if isinstance(node.op, ast.Not):
            return not v
        if isinstance(node.op, ast.USub):
            return -v
        raise Unknown(key)
    if isinstance(node, ast.BoolOp):
        if isinstance(node.op, ast.And):
            v = True
            for x in node.values:
                v = minieval(x, env)
                if not v:
                    return v
            return v
        v = False
        for x in node.values:
            v = minieval(x, env)
            if v:
                return v
        return v
    if isinstance(node, ast.Compare):
        left = minieval(node.left, env)
        for op, c in zip(node.ops, node.comparators):
            right = minieval(c, env)
            if isinstance(op, ast.Lt):
                ok = left < right
            elif isinstance(op, ast.LtE):
                ok = left <= right
            elif isinstance(op, ast.Gt):
                ok = left > right
            elif isinstance(op, ast.GtE):
                ok = left >= right
            elif isinstance(op, ast.Eq):
                ok = left == right
            elif isinstance(op, ast.NotEq):
                ok = left != right
            elif isinstance(op, ast.Is):
                ok = left is right
            elif isinstance(op, ast.IsNot):
                ok = left is not right
            elif isinstance(op, ast.In):
                ok = left in right
            elif isinstance(op, ast.NotIn):
                ok = left not in right
            else:
                raise Unknown(key)
            if not ok:
                return False
            left = right
        return True
    if isinstance(node, ast.IfExp):
        return (
            minieval(node.body, env)
            if minieval(node.test, env)
            else minieval(node.orelse, env)
        )
    if isinstance(node, ast.Call) and isinstance(node.func, ast.Name):
        if node.func.id in ("max", "min") and not node.keywords:
            vals = [minieval(a, env) for a in node.args]
            return max(vals) if node.func.id == "max" else min(vals)
        if node.func.id == "bool" and len(node.args) == 1:
            return bool(minieval(node.args[0], env))
    if isinstance(node, ast.Tuple):
        return tuple(minieval(e, env) for e in node.elts)
    raise Unknown(key)


def tabulate(
    filt: Optional[ast.AST],
    keyfn: ast.AST,
    envs: Iterable[Dict[str, object]],
) -> List[Tuple[Dict[str, object], Optional[object]]]:
    """For each env: None if filtered out, else the new key."""
    out = []
    for env in envs:
        try:
            keep = True if filt is None else bool(minieval(filt, env))
            out.append((env, minieval(keyfn, env) if keep else None))
        except Unknown as exc:
            raise AnalysisError(f"re-keying expression not interpretable: {exc}")
    return out


# ----------------------------------------------------------------------------
# Linear normal form
# ----------------------------------------------------------------------------


def linform(node: ast.AST, subst: Optional[Dict[str, ast.AST]] = None, depth: int = 0) -> Dict[str, int]:
    """
    expr -> {term text: coeff}; integer literals under the key "1".
    `subst` maps a term's source text to another expression (post-conditions).
    """
    subst = subst or {}
    out: Dict[str, int] = {}

    def add(d: Dict[str, int], k: str, c: int):
        d[k] = d.get(k, 0) + c
        if d[k] == 0:
            del d[k]

    def go(n: ast.AST, sign: int, lvl: int):
        key = src(n)
        if key in subst and lvl < 6:
            go(subst[key], sign, lvl + 1)
            return
        if isinstance(n, ast.BinOp) and isinstance(n.op, ast.Add):
            go(n.left, sign, lvl)
            go(n.right, sign, lvl)
        elif isinstance(n, ast.BinOp) and isinstance(n.op, ast.Sub):
            go(n.left, sign, lvl)
            go(n.right, -sign, lvl)
        elif isinstance(n, ast.UnaryOp) and isinstance(n.op, ast.USub):
            go(n.operand, -sign, lvl)
        elif isinstance(n, ast.Constant) and isinstance(n.value, int) and not isinstance(n.value, bool):
            add(out, "1", sign * n.value)
        elif isinstance(n, ast.BinOp) and isinstance(n.op, ast.Mult) and isinstance(n.right, ast.Constant) and isinstance(n.right.value, int):
            sub = linform(n.left, subst, lvl + 1)
            for k, c in sub.items():
                add(out, k, sign * c * n.right.value)
        elif isinstance(n, ast.BinOp) and isinstance(n.op, ast.Mult) and isinstance(n.left, ast.Constant) and isinstance(n.left.value, int):
            sub = linform(n.right, subst, lvl + 1)
            for k, c in sub.items():
                add(out, k, sign * c * n.left.value)
        else:
            add(out, key, sign)

    go(node, 1, depth)
    return out


def lin_equal(a: ast.AST, b: ast.AST, subst=None) -> bool:
    return linform(a, subst) == linform(b, subst)


def lin_show(d: Dict[str, int]) -> str:
    if not d:
        return "0"
    parts = []
    for k, c in sorted(d.items()):
        if k == "1":
            parts.append(str(c))
        elif c == 1:
            parts.append(k)
        else:
            parts.append(f"{c}*{k}")
    return " + ".join(parts)
