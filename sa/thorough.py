"""Thorough tier: quick rules + thorough-only rules + self-test (mutants and neutral variants)."""
from . import core


def run(prop: str, write_evidence: bool = True) -> int:
    try:
        from . import selftest
    except ImportError:
        selftest = None
    extra = {}
    st_code = 0
    if selftest is not None:
        st_code, extra = selftest.run_for_property(prop)
    code, rep = core.run_property(prop, "thorough", write_evidence=write_evidence, extra=extra)
    if code == 0 and st_code != 0:
        print(f"ANALYSIS-ERROR property={prop} self-test failed (checker did not kill its own mutants or fired on a neutral variant)")
        return 2
    return code
