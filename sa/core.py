"""
Core of the static checker: repository loader, rule registry, findings,
known-findings matching, evidence files and exit codes.

Nothing in here (or in any rule) imports or runs gtirb_rewriting; every fact
comes from ast.parse over the working tree.
"""

from __future__ import annotations

import ast
import dataclasses
import hashlib
import json
import os
import sys
import time
import traceback
from pathlib import Path
from typing import Callable, Dict, Iterable, List, Optional, Tuple

VERIF_ROOT = Path(__file__).resolve().parent.parent
PKG = "gtirb_rewriting"


def repo_root() -> Path:
    return Path(os.environ.get("VERIF_REPO", "/repo"))


class AnalysisError(Exception):
    """The checker cannot interpret the code exactly (exit 2, never a pass)."""


# ----------------------------------------------------------------------------
# Loader
# ----------------------------------------------------------------------------


@dataclasses.dataclass
class FuncInfo:
    qual: str  # module-relative: "_modify.edit.insert", "abi._X86_64.nop"
    name: str
    node: ast.FunctionDef
    mod: "Mod"
    cls: Optional["ClassInfo"] = None
    parent: Optional["FuncInfo"] = None  # for nested defs

    @property
    def file(self) -> str:
        return self.mod.relpath

    def where(self, node: Optional[ast.AST] = None) -> str:
        n = node if node is not None else self.node
        return f"{self.mod.relpath}:{getattr(n, 'lineno', 0)}"

    @property
    def params(self) -> List[ast.arg]:
        a = self.node.args
        return [*a.posonlyargs, *a.args, *a.kwonlyargs]

    def decorators(self) -> List[str]:
        return [ast.unparse(d) for d in self.node.decorator_list]


@dataclasses.dataclass
class ClassInfo:
    qual: str
    name: str
    node: ast.ClassDef
    mod: "Mod"
    bases: List[str]
    methods: Dict[str, FuncInfo] = dataclasses.field(default_factory=dict)
    outer: Optional["ClassInfo"] = None

    def keywords(self) -> Dict[str, ast.expr]:
        return {k.arg: k.value for k in self.node.keywords if k.arg}


@dataclasses.dataclass
class Mod:
    name: str  # "" for package __init__, "_modify.edit", ...
    path: Path
    relpath: str
    source: str
    tree: ast.Module
    sha256: str
    imports: Dict[str, str] = dataclasses.field(default_factory=dict)
    functions: Dict[str, FuncInfo] = dataclasses.field(default_factory=dict)
    classes: Dict[str, ClassInfo] = dataclasses.field(default_factory=dict)

    def toplevel_assign(self, name: str) -> Optional[ast.expr]:
        for st in self.tree.body:
            if isinstance(st, ast.Assign):
                for t in st.targets:
                    if isinstance(t, ast.Name) and t.id == name:
                        return st.value
            elif isinstance(st, ast.AnnAssign) and st.value is not None:
                if isinstance(st.target, ast.Name) and st.target.id == name:
                    return st.value
        return None


def _cmp_rank(e: ast.AST):
    """Canonical operand order of ==, !=, is, is not (symmetric for the operand kinds ranked here):
    expressions containing a call go left, then plain names/paths ordered by text, then enum-like
    dotted constants, then literals (rank ties keep source order)."""
    if any(isinstance(x, (ast.Call, ast.Await, ast.Yield, ast.NamedExpr)) for x in ast.walk(e)):
        return (0, "")
    if isinstance(e, ast.Constant) or (isinstance(e, (ast.List, ast.Tuple, ast.Set, ast.Dict)) and all(isinstance(x, (ast.Constant, ast.List, ast.Tuple, ast.Set, ast.Dict, ast.Load)) for x in ast.walk(e) if x is not e)):
        return (3, ast.unparse(e))
    t = ast.unparse(e)
    last = t.rsplit(".", 1)[-1]
    if isinstance(e, ast.Attribute) and (last.isupper() or (last[:1].isupper() and "." in t)):
        return (2, t)
    return (1, t)


def _normalise(tree: ast.AST) -> None:
    """Canonicalise two behaviour-neutral shapes so that rules see one form:
    `pass` next to real statements is dropped, and `tmp = <expr>; return tmp`
    (a fresh name bound immediately before the return that uses it) is folded
    into `return <expr>`."""
    for node in ast.walk(tree):
        for field in ("body", "orelse", "finalbody"):
            b = getattr(node, field, None)
            if isinstance(b, list) and len(b) > 1 and all(isinstance(x, ast.stmt) for x in b):
                kept = [x for x in b if not isinstance(x, ast.Pass)]
                if kept and len(kept) != len(b):
                    setattr(node, field, kept)
    # logging calls have no effect on the IR: drop them (an emptied body keeps a `pass`)
    def _is_log(st) -> bool:
        if not (isinstance(st, ast.Expr) and isinstance(st.value, ast.Call) and isinstance(st.value.func, ast.Attribute)):
            return False
        f = st.value.func
        if f.attr not in ("debug", "info", "warning", "error", "exception", "critical", "log"):
            return False
        recv = ast.unparse(f.value)
        return recv in ("logger", "self._logger", "log", "_logger", "logging") or recv.startswith(("logging.getLogger(", "self._logger.", "logger."))

    for node in ast.walk(tree):
        for field in ("body", "orelse", "finalbody"):
            b = getattr(node, field, None)
            if isinstance(b, list) and b and all(isinstance(x, ast.stmt) for x in b) and any(_is_log(x) for x in b):
                kept = [x for x in b if not _is_log(x)]
                if not kept and field == "body":
                    kept = [ast.copy_location(ast.Pass(), b[0])]
                setattr(node, field, kept)
    # `if not a: X else: Y` -> `if a: Y else: X` (else present and not an elif); double negations removed
    for node in ast.walk(tree):
        if isinstance(node, ast.If):
            while isinstance(node.test, ast.UnaryOp) and isinstance(node.test.op, ast.Not) and isinstance(node.test.operand, ast.UnaryOp) and isinstance(node.test.operand.op, ast.Not):
                node.test = node.test.operand.operand
            if node.orelse and not (len(node.orelse) == 1 and isinstance(node.orelse[0], ast.If)) and isinstance(node.test, ast.UnaryOp) and isinstance(node.test.op, ast.Not):
                node.test, node.body, node.orelse = node.test.operand, node.orelse, node.body
    # `if a: ...; return/raise/continue/break  else: Y` -> `if a: ...; return`  followed by Y
    changed = True
    while changed:
        changed = False
        for node in ast.walk(tree):
            for field in ("body", "orelse", "finalbody"):
                b = getattr(node, field, None)
                if not (isinstance(b, list) and b and all(isinstance(x, ast.stmt) for x in b)):
                    continue
                out = []
                for st in b:
                    if isinstance(st, ast.If) and st.orelse and st.body and isinstance(st.body[-1], (ast.Return, ast.Raise, ast.Continue, ast.Break)):
                        tail = st.orelse
                        st.orelse = []
                        out.append(st)
                        out.extend(tail)
                        changed = True
                    else:
                        out.append(st)
                if changed:
                    setattr(node, field, out)
    if os.environ.get("VERIF_CANON_CMP", "1") == "1":
        for node in ast.walk(tree):
            if isinstance(node, ast.Compare) and len(node.ops) == 1 and isinstance(node.ops[0], (ast.Eq, ast.NotEq, ast.Is, ast.IsNot)):
                l, r = node.left, node.comparators[0]
                if _cmp_rank(l) > _cmp_rank(r):
                    node.left, node.comparators[0] = r, l
    for fn in [n for n in ast.walk(tree) if isinstance(n, (ast.FunctionDef, ast.AsyncFunctionDef))]:
        # a local that is dead after the return: not global/nonlocal, not captured by a nested function
        escaping = {nm for n in ast.walk(fn) if isinstance(n, (ast.Global, ast.Nonlocal)) for nm in n.names}
        for inner in [n for n in ast.walk(fn) if isinstance(n, (ast.FunctionDef, ast.AsyncFunctionDef, ast.Lambda)) and n is not fn]:
            escaping |= {n.id for n in ast.walk(inner) if isinstance(n, ast.Name)}
        for node in ast.walk(fn):
            for field in ("body", "orelse", "finalbody"):
                b = getattr(node, field, None)
                if not (isinstance(b, list) and len(b) >= 2):
                    continue
                a, r = b[-2], b[-1]
                if (isinstance(a, ast.Assign) and len(a.targets) == 1 and isinstance(a.targets[0], ast.Name)
                        and isinstance(r, ast.Return) and isinstance(r.value, ast.Name) and r.value.id == a.targets[0].id
                        and a.targets[0].id not in escaping):
                    folded = ast.Return(value=a.value)
                    ast.copy_location(folded, a)
                    folded.end_lineno = getattr(r, "end_lineno", None)
                    b[-2:] = [folded]


class Repo:
    """Parsed view of src/gtirb_rewriting in the working tree."""

    def __init__(self, root: Optional[Path] = None):
        self.root = Path(root) if root else repo_root()
        self.src = self.root / "src" / PKG
        if not self.src.is_dir():
            raise AnalysisError(f"source directory not found: {self.src}")
        self.mods: Dict[str, Mod] = {}
        self.funcs: Dict[str, FuncInfo] = {}
        self.classes: Dict[str, ClassInfo] = {}
        self._load()
        global CURRENT_REPO
        CURRENT_REPO = self   # for helpers that only receive a FuncInfo (callee return annotations)

    # -- loading -------------------------------------------------------------
    def _load(self) -> None:
        for path in sorted(self.src.rglob("*.py")):
            rel = path.relative_to(self.src)
            parts = list(rel.with_suffix("").parts)
            if parts[-1] == "__init__":
                parts = parts[:-1]
            name = ".".join(parts)
            source = path.read_text()
            try:
                tree = ast.parse(source, filename=str(path))
            except SyntaxError as exc:
                raise AnalysisError(f"cannot parse {path}: {exc}") from exc
            _normalise(tree)
            mod = Mod(
                name=name,
                path=path,
                relpath=str(path.relative_to(self.root)),
                source=source,
                tree=tree,
                sha256=hashlib.sha256(source.encode()).hexdigest(),
            )
            self.mods[name] = mod
        for mod in self.mods.values():
            self._index_imports(mod)
            self._index_defs(mod, mod.tree.body, prefix=mod.name, cls=None)
        from . import alpha

        # extract-helper refactorings are undone first (a helper the validated tree does not have, called once, is inlined)
        self.inlined = [] if os.environ.get("VERIF_BUILDING_REFERENCE") or os.environ.get("VERIF_NO_INLINE") else alpha.inline_new_helpers(self)
        self.renamed_back = alpha.undo_renames(self)
        # (not while the reference table itself is being regenerated: it must record the tree as written)
        self.folded = [] if os.environ.get("VERIF_BUILDING_REFERENCE") else alpha.fold_new_condition_temps(self)

    def _abs_module(self, mod: Mod, level: int, target: Optional[str]) -> str:
        """Resolve a relative import to a package-relative module name."""
        if level == 0:
            t = target or ""
            if t == PKG:
                return ""
            if t.startswith(PKG + "."):
                return t[len(PKG) + 1 :]
            return "!" + t  # external
        is_pkg = mod.path.name == "__init__.py"
        parts = mod.name.split(".") if mod.name else []
        if not is_pkg:
            parts = parts[:-1]
        up = level - 1
        if up:
            parts = parts[: len(parts) - up]
        if target:
            parts = parts + target.split(".")
        return ".".join(parts)

    def _index_imports(self, mod: Mod) -> None:
        for node in ast.walk(mod.tree):
            if isinstance(node, ast.Import):
                for a in node.names:
                    full = a.name
                    local = a.asname or full.split(".")[0]
                    if full == PKG or full.startswith(PKG + "."):
                        if a.asname:
                            mod.imports[local] = "mod:" + full[len(PKG) + 1 :]
                        else:
                            mod.imports[local] = "mod:"
                    else:
                        mod.imports[local] = "ext:" + (
                            full if a.asname else full.split(".")[0]
                        )
            elif isinstance(node, ast.ImportFrom):
                base = self._abs_module(mod, node.level, node.module)
                for a in node.names:
                    local = a.asname or a.name
                    if base.startswith("!"):
                        mod.imports[local] = f"ext:{base[1:]}.{a.name}"
                    else:
                        sub = f"{base}.{a.name}" if base else a.name
                        mod.imports[local] = f"from:{base}:{a.name}:{sub}"

    def _index_defs(self, mod, body, prefix, cls, parent=None, outer=None):
        for st in body:
            if isinstance(st, (ast.FunctionDef, ast.AsyncFunctionDef)):
                qual = f"{prefix}.{st.name}" if prefix else st.name
                fi = FuncInfo(qual, st.name, st, mod, cls, parent)
                # overloads: keep the last (implementation) definition
                self.funcs[qual] = fi
                if cls is not None and parent is None:
                    cls.methods[st.name] = fi
                elif cls is None and parent is None:
                    mod.functions[st.name] = fi
                self._index_defs(mod, st.body, qual, cls, parent=fi)
            elif isinstance(st, ast.ClassDef):
                qual = f"{prefix}.{st.name}" if prefix else st.name
                ci = ClassInfo(
                    qual,
                    st.name,
                    st,
                    mod,
                    [ast.unparse(b) for b in st.bases],
                    outer=cls,
                )
                self.classes[qual] = ci
                if cls is None and parent is None:
                    mod.classes[st.name] = ci
                self._index_defs(mod, st.body, qual, ci, parent=None)
            elif isinstance(st, (ast.If, ast.Try, ast.With)):
                # definitions under "if TYPE_CHECKING" / version switches
                for sub in ast.iter_child_nodes(st):
                    pass
                blocks = []
                if isinstance(st, ast.If):
                    blocks = [st.body, st.orelse]
                elif isinstance(st, ast.Try):
                    blocks = [st.body, st.orelse, st.finalbody] + [
                        h.body for h in st.handlers
                    ]
                else:
                    blocks = [st.body]
                for b in blocks:
                    self._index_defs(mod, b, prefix, cls, parent)

    # -- lookup --------------------------------------------------------------
    def mod(self, name: str) -> Mod:
        if name not in self.mods:
            raise AnalysisError(f"anchor module vanished: {name}")
        return self.mods[name]

    def func(self, qual: str) -> FuncInfo:
        if qual not in self.funcs:
            raise AnalysisError(f"anchor function vanished: {qual}")
        return self.funcs[qual]

    def cls(self, qual: str) -> ClassInfo:
        if qual not in self.classes:
            raise AnalysisError(f"anchor class vanished: {qual}")
        return self.classes[qual]

    def has_func(self, qual: str) -> bool:
        return qual in self.funcs

    def find_class(self, name: str) -> Optional[ClassInfo]:
        """Class by bare name (unique) or dotted suffix."""
        hits = [
            c
            for q, c in self.classes.items()
            if q == name or q.endswith("." + name) or c.name == name
        ]
        if len(hits) == 1:
            return hits[0]
        exact = [c for c in hits if c.name == name and c.outer is None]
        if len(exact) == 1:
            return exact[0]
        return None

    def mro(self, ci: ClassInfo) -> List[ClassInfo]:
        out = [ci]
        seen = {ci.qual}
        work = list(ci.bases)
        while work:
            b = work.pop(0)
            b = b.split("[")[0]
            c = self.resolve_class_name(ci.mod, b)
            if c and c.qual not in seen:
                seen.add(c.qual)
                out.append(c)
                work.extend(c.bases)
        return out

    def resolve_class_name(self, mod: Mod, name: str) -> Optional[ClassInfo]:
        name = name.strip("\"'")
        head = name.split(".")[0]
        if head in mod.classes and "." not in name:
            return mod.classes[head]
        # dotted within module (Outer.Inner)
        q = f"{mod.name}.{name}" if mod.name else name
        if q in self.classes:
            return self.classes[q]
        imp = mod.imports.get(head)
        if imp and imp.startswith("from:"):
            _, base, attr, sub = imp.split(":")
            rest = name.split(".")[1:]
            cand = ".".join([p for p in [base, attr, *rest] if p])
            if cand in self.classes:
                return self.classes[cand]
            # re-exported through a package __init__
            pk = self.mods.get(base)
            if pk is not None:
                imp2 = pk.imports.get(attr)
                if imp2 and imp2.startswith("from:"):
                    _, b2, a2, _ = imp2.split(":")
                    cand = ".".join([p for p in [b2, a2, *rest] if p])
                    if cand in self.classes:
                        return self.classes[cand]
        if imp and imp.startswith("mod:"):
            base = imp[4:]
            cand = ".".join([p for p in [base, *name.split(".")[1:]] if p])
            if cand in self.classes:
                return self.classes[cand]
        return None

    def subclasses(self, ci: ClassInfo) -> List[ClassInfo]:
        return [
            c
            for c in self.classes.values()
            if c is not ci and ci in self.mro(c)
        ]

    def method(self, ci: ClassInfo, name: str) -> Optional[FuncInfo]:
        for c in self.mro(ci):
            if name in c.methods:
                return c.methods[name]
        return None

    def digests(self, only: Optional[Iterable[str]] = None) -> Dict[str, str]:
        return {
            m.relpath: m.sha256[:16]
            for m in self.mods.values()
            if only is None or m.name in only
        }


# ----------------------------------------------------------------------------
# Rules, instances, findings
# ----------------------------------------------------------------------------


@dataclasses.dataclass
class Instance:
    rule: str
    key: str  # stable: no line numbers
    where: str  # file:line for humans
    function: str
    construct: str
    verdict: str  # "ok" | "violation"
    reason: str = ""
    nontrivial: bool = True

    def as_sample(self) -> dict:
        d = dataclasses.asdict(self)
        d.pop("nontrivial")
        return d


@dataclasses.dataclass
class RuleDef:
    rid: str
    props: Tuple[str, ...]
    title: str
    fn: Callable[["Ctx"], None]
    min_instances: int
    tier: str = "quick"
    scoped: bool = False  # instances are reported only in the property's anchor files


RULES: Dict[str, RuleDef] = {}

ALL_PROPS = tuple(f"C{i:02d}" for i in range(1, 21))
_ANCHORS: Dict[str, Tuple[str, ...]] = {}


# files a property's behaviour flows through although properties.jsonl does not list them (one reason each)
_EXTRA_ANCHOR_FILES = {
    "C01": ("src/gtirb_rewriting/scopes.py", "src/gtirb_rewriting/utils.py"),   # register_insert requests: the scope decides in which blocks and at which offset a patch's bytes appear
    "C06": ("src/gtirb_rewriting/passes.py",),            # the Function list every RewritingContext (functions_by_block) is built from comes out of PassManager.run
    "C18": ("src/gtirb_rewriting/prepare.py",),           # integral symbols get the referent the edge retargeting matches on in prepare_for_rewriting
    "C15": ("src/gtirb_rewriting/dwarf/_encoders.py", "src/gtirb_rewriting/dwarf/_encodable.py"),   # .cfi_escape operands are decoded there; what leaks from there leaks from the evaluator
}


def anchor_files(prop: str) -> Tuple[str, ...]:
    """The source files a property is anchored in (properties.jsonl, anchors.files)."""
    if not _ANCHORS:
        for line in (VERIF_ROOT / "properties.jsonl").read_text().splitlines():
            if not line.strip():
                continue
            p = json.loads(line)
            a = p.get("anchors")
            if isinstance(a, str):
                a = ast.literal_eval(a)
            _ANCHORS[p["id"]] = tuple((a or {}).get("files", ())) + _EXTRA_ANCHOR_FILES.get(p["id"], ())
    if prop not in _ANCHORS:
        raise AnalysisError(f"no anchors for {prop}")
    return _ANCHORS[prop]


def rule(rid: str, props, title: str, min_instances: int = 1, tier="quick", scoped=False):
    def deco(fn):
        if rid in RULES:
            raise RuntimeError(f"duplicate rule {rid}")
        RULES[rid] = RuleDef(rid, tuple(props), title, fn, min_instances, tier, scoped)
        return fn

    return deco


class Ctx:
    """Handed to a rule; collects its instances."""

    def __init__(self, repo: Repo, rdef: RuleDef, tier: str):
        self.repo = repo
        self.rdef = rdef
        self.tier = tier
        self.instances: List[Instance] = []
        self.notes: List[str] = []
        self.assumptions: List[str] = []

    def _mk(self, fi, node, construct, verdict, reason, key, nontrivial):
        if isinstance(fi, FuncInfo):
            where = fi.where(node)
            fn = fi.qual
        elif isinstance(fi, Mod):
            where = f"{fi.relpath}:{getattr(node, 'lineno', 0)}"
            fn = fi.name or "__init__"
        else:
            where = str(fi)
            fn = str(fi)
        k = key or f"{fn}::{construct}"
        self.instances.append(
            Instance(
                self.rdef.rid,
                k,
                where,
                fn,
                construct,
                verdict,
                reason,
                nontrivial,
            )
        )

    def ok(self, fi, node, construct, reason="", key=None, nontrivial=True):
        self._mk(fi, node, construct, "ok", reason, key, nontrivial)

    def fail(self, fi, node, construct, reason, key=None):
        self._mk(fi, node, construct, "violation", reason, key, True)

    def check(self, cond, fi, node, construct, reason_fail, reason_ok="", key=None):
        if cond:
            self.ok(fi, node, construct, reason_ok, key)
        else:
            self.fail(fi, node, construct, reason_fail, key)
        return bool(cond)

    def note(self, text: str) -> None:
        self.notes.append(text)

    def assume(self, text: str) -> None:
        if text not in self.assumptions:
            self.assumptions.append(text)


# ----------------------------------------------------------------------------
# Known findings
# ----------------------------------------------------------------------------


def load_known_findings() -> List[dict]:
    path = VERIF_ROOT / "known_findings.json"
    if not path.exists():
        return []
    data = json.loads(path.read_text())
    return data.get("findings", [])


# ----------------------------------------------------------------------------
# Running a property
# ----------------------------------------------------------------------------


def rules_for(prop: str, tier: str) -> List[RuleDef]:
    out = []
    for r in RULES.values():
        if prop in r.props and (tier == "thorough" or r.tier == "quick"):
            out.append(r)
    return sorted(out, key=lambda r: r.rid)


CURRENT_REPO = None
RESTRUCTURED_STMTS = 6
UNGATED_RULES = {"C11.1", "C10.11", "C14.7", "C20.13", "C18.10", "C16.16", "C08.11", "C05.14", "C12.18", "C13.9", "C06.11", "C07.13", "C10.12", "C05.15", "C10.13", "C10.14", "C16.17", "C10.15", "C02.8", "C17.13", "C13.10", "C20.15", "C01.10", "C01.11"}  # rules that interpret whatever code is there (per-site lints, tabulations over the constructs they find): a report from them is a verdict on the code as it is now


def _restructured(repo: "Repo", qual: str, _alpha) -> Optional[str]:
    """Why `qual` counts as restructured relative to the validated tree (None: a small edit or untouched)."""
    memo = repo.__dict__.setdefault("_restructured_memo", {})
    if qual in memo:
        return memo[qual]
    why = None
    fi = repo.funcs.get(qual)
    if fi is not None:
        n = _alpha.edit_size(repo, qual)
        ref = _alpha.shapes()
        if n is None:
            why = f"`{qual}` does not exist on the validated tree" if ref else None
        elif n >= 1000:
            why = f"the parameter list of `{qual}` changed (its callers and the rule's reading of its arguments are no longer valid)"
        elif n > RESTRUCTURED_STMTS:
            why = f"`{qual}` was restructured ({n} statements differ from the validated tree)"
        elif n >= 1:
            # a small edit that hands part of the mechanism to a function that is new or was itself restructured
            by_last: Dict[str, List[str]] = {}
            for q in repo.funcs:
                by_last.setdefault(q.split(".")[-1], []).append(q)
            called = {
                (c.func.id if isinstance(c.func, ast.Name) else c.func.attr)
                for c in ast.walk(fi.node)
                if isinstance(c, ast.Call) and isinstance(c.func, (ast.Name, ast.Attribute))
            }
            for name in sorted(called):
                for q in by_last.get(name, []):
                    if q == qual:
                        continue
                    m = _alpha.edit_size(repo, q)
                    if m is None:
                        why = f"`{qual}` now delegates to `{name}`, a function the validated tree did not have"
                    elif m > RESTRUCTURED_STMTS:
                        why = f"`{qual}` was edited and relies on `{name}`, which was restructured ({'signature' if m >= 1000 else str(m) + ' statements'} changed)"
                    if why:
                        break
                if why:
                    break
    memo[qual] = why
    return why


def _tree_restructured(repo: "Repo", _alpha) -> Optional[str]:
    """Why the tree as a whole is in 're-validate the mechanism rules' state: a mechanism spread over several
    functions was reshaped even though no single function changed much (new helper, interface change,
    edits in three or more functions, more than 8 statements in total)."""
    if "_tree_restructured_memo" in repo.__dict__:
        return repo.__dict__["_tree_restructured_memo"]
    why = None
    if _alpha.shapes():
        new, big, edited, total = [], [], [], 0
        for q in repo.funcs:
            n = _alpha.edit_size(repo, q)
            if n is None:
                new.append(q)
            elif n > RESTRUCTURED_STMTS:
                big.append(q)
            elif n:
                edited.append(q)
                total += n
        def owner(q: str) -> str:
            # a nested function is part of the function it is defined in
            while "." in q and q.rsplit(".", 1)[0] in repo.funcs:
                q = q.rsplit(".", 1)[0]
            return q

        edited = sorted({owner(q) for q in edited})
        if new:
            why = f"the tree has a function the validated tree did not have (`{new[0]}`)"
        elif big:
            why = f"`{big[0]}` was restructured"
        elif len(edited) >= 3:
            why = f"{len(edited)} functions were edited together ({', '.join('`' + e.split('.')[-1] + '`' for e in edited[:4])})"
        elif total > 8:
            why = f"{total} statements were changed in {len(edited)} functions"
        if why:
            why += ": a mechanism that spans functions may have been reshaped"
    repo.__dict__["_tree_restructured_memo"] = why
    return why


def run_property(
    prop: str,
    tier: str,
    repo: Optional[Repo] = None,
    write_evidence: bool = True,
    extra: Optional[dict] = None,
    quiet: bool = False,
) -> Tuple[int, dict]:
    """Run all rules of a property. Returns (exit code, report dict)."""
    t0 = time.time()
    seed = int(os.environ.get("VERIF_SEED", "0") or 0)
    out_lines: List[str] = []

    def emit(s: str) -> None:
        out_lines.append(s)
        if not quiet:
            print(s)

    try:
        repo = repo or Repo()
    except AnalysisError as exc:
        emit(f"ANALYSIS-ERROR property={prop} {exc}")
        return 2, {"error": str(exc), "lines": out_lines}

    rdefs = rules_for(prop, tier)
    if not rdefs:
        emit(f"ANALYSIS-ERROR property={prop} no rules registered")
        return 2, {"error": "no rules", "lines": out_lines}

    known = [k for k in load_known_findings() if k.get("property") == prop]
    known_open = [k for k in known if k.get("status") == "known"]

    all_inst: List[Instance] = []
    per_rule: Dict[str, dict] = {}
    errors: List[str] = []
    assumptions: List[str] = []
    notes: List[str] = []
    for rdef in rdefs:
        ctx = Ctx(repo, rdef, tier)
        # a scoped lint scans the whole package whatever the property is: when one
        # Repo object serves several properties (self-test, mutant scans) scan once
        memo = repo.__dict__.setdefault("_scoped_memo", {}) if rdef.scoped else None
        if memo is not None and (rdef.rid, tier) in memo:
            insts, notes_, assum_, err_ = memo[(rdef.rid, tier)]
            ctx.instances, ctx.notes, ctx.assumptions = list(insts), list(notes_), list(assum_)
            if err_:
                errors.append(err_)
        else:
            err_ = None
            try:
                rdef.fn(ctx)
            except AnalysisError as exc:
                err_ = f"{rdef.rid}: {exc}"
            except Exception as exc:  # checker bug: never a silent pass
                tb = traceback.format_exc(limit=6)
                err_ = f"{rdef.rid}: checker crashed: {exc!r}\n{tb}"
            if err_:
                errors.append(err_)
            if memo is not None:
                memo[(rdef.rid, tier)] = (list(ctx.instances), list(ctx.notes), list(ctx.assumptions), err_)
        n = len(ctx.instances)
        if rdef.scoped:
            # a generic lint runs over the whole package (so that the instance
            # floor is meaningful) but reports, under this property, only what
            # lies in the files the property is anchored in
            files = anchor_files(prop)
            ctx.instances = [
                i for i in ctx.instances
                if i.where.split(":")[0] in files or not i.nontrivial
            ]
        if n < rdef.min_instances and not any(
            e.startswith(rdef.rid + ":") for e in errors
        ):
            errors.append(
                f"{rdef.rid}: found {n} instances, expected at least "
                f"{rdef.min_instances} (anchor moved or extractor blind)"
            )
        per_rule[rdef.rid] = {
            "title": rdef.title,
            "instances": n,
            "min_expected": rdef.min_instances,
            "discharged": sum(1 for i in ctx.instances if i.verdict == "ok"),
            "violations": sum(
                1 for i in ctx.instances if i.verdict == "violation"
            ),
            "notes": ctx.notes,
        }
        all_inst.extend(ctx.instances)
        for a in ctx.assumptions:
            if a not in assumptions:
                assumptions.append(a)
        notes.extend(ctx.notes)

    violations = [i for i in all_inst if i.verdict == "violation"]
    new_violations: List[Instance] = []
    matched_known: List[dict] = []
    for v in violations:
        hit = None
        for k in known_open:
            if k.get("rule") == v.rule and k.get("key") == v.key:
                hit = k
                break
        if hit is not None:
            matched_known.append({"finding": hit, "where": v.where})
        else:
            new_violations.append(v)

    # Restructuring gate. A *mechanism* rule (everything except the generic lints) was validated
    # against the shape a function had on the reference tree. When that function has since been
    # restructured (more than RESTRUCTURED_STMTS statements differ, or it now delegates to a helper the
    # reference tree did not have) a mismatch says "the rule no longer knows this code", not "the
    # property is broken": it is reported as an analysis error (exit 2, re-validate the rule), never as
    # a violation. Small edits - the size of every realistic slip - keep their VIOLATION.
    from . import alpha as _alpha

    undecided: Dict[Tuple[str, str], List[Instance]] = {}
    kept: List[Instance] = []
    for v in new_violations:
        why = None if v.rule.startswith("GEN.") or v.rule in UNGATED_RULES else (_restructured(repo, v.function, _alpha) or _tree_restructured(repo, _alpha))
        if why:
            undecided.setdefault((v.rule, why), []).append(v)
        else:
            kept.append(v)
    new_violations = kept
    for (rid, why), vs in sorted(undecided.items()):
        errors.append(
            f"{rid}: {why}; {len(vs)} obligation(s) of this rule could not be matched "
            f"(first: [{vs[0].construct[:80]}] at {vs[0].where}) - the rule must be re-validated against the new shape"
        )

    for mk in matched_known:
        k = mk["finding"]
        emit(
            f"KNOWN-FINDING: property={prop} {k['rule']} {k['key']} "
            f"({mk['where']}) {k.get('what', '')}"
        )

    replay_dir = VERIF_ROOT / "evidence" / "replay"
    code = 0
    if errors:
        code = 2
        for e in errors:
            emit(f"ANALYSIS-ERROR property={prop} {e}")
    if new_violations:
        code = 1
        if write_evidence:
            replay_dir.mkdir(parents=True, exist_ok=True)
        for n, v in enumerate(new_violations):
            rp = replay_dir / f"{prop}-{n}.json"
            if write_evidence:
                rp.write_text(
                    json.dumps(
                        {
                            "property": prop,
                            "rule": v.rule,
                            "key": v.key,
                            "where": v.where,
                            "function": v.function,
                            "construct": v.construct,
                            "reason": v.reason,
                            "rule_title": RULES[v.rule].title,
                        },
                        indent=1,
                    )
                )
            emit(f"VIOLATION property={prop} replay={rp}")
            emit(
                f"  {v.where} {v.function} rule={v.rule} "
                f"[{v.construct}] {v.reason}"
            )

    wall = time.time() - t0
    distinct = len({(i.rule, i.key) for i in all_inst if i.nontrivial})
    samples = []
    seen_rules = set()
    for i in all_inst:
        if i.rule not in seen_rules or i.verdict == "violation":
            seen_rules.add(i.rule)
            samples.append(i.as_sample())
    samples = samples[:60]
    consulted = sorted({i.where.split(":")[0] for i in all_inst})
    digests = {
        m.relpath: m.sha256[:16]
        for m in repo.mods.values()
        if m.relpath in consulted
    }
    from . import props as _props

    pinfo = _props.PROPS.get(prop, {})
    evidence = {
        "property_id": prop,
        "tier": tier,
        "seed": seed,
        "level": "other",
        "coverage": {
            "explanation": pinfo.get("explanation", "")
            + " Decided: "
            + pinfo.get("decided", "")
            + " NOT decided: "
            + pinfo.get("not_decided", ""),
            "evaluations": len(all_inst),
            "distinct_nontrivial": distinct,
            "rule": "one evaluation = one rule instance (a call site, table "
            "row, re-keying site, path or sibling pair extracted from the "
            "working tree and compared with its obligation); distinct = "
            "distinct (rule, construct key); non-trivial = the obligation "
            "was non-empty (an actual comparison was made)",
            "obligations": len(all_inst),
            "discharged": sum(1 for i in all_inst if i.verdict == "ok")
            + len(matched_known),
            "samples": samples,
            "rules": per_rule,
            "files_analysed": digests,
            "repo_root": str(repo.root),
            "modules_parsed": len(repo.mods),
            "functions_indexed": len(repo.funcs),
            "known_findings_matched": [
                {"rule": m["finding"]["rule"], "key": m["finding"]["key"]}
                for m in matched_known
            ],
            "analysis_errors": errors,
            "trusted_base": pinfo.get("trusted_base", []),
            "exhaustive": False,
            "checker_cmd": f"/venv/bin/python sa/check.py {prop} --tier {tier}",
        },
        "assumptions": assumptions + pinfo.get("assumptions", []),
        "wall_s": round(wall, 3),
        "violations": len(new_violations),
    }
    if extra:
        evidence["coverage"].update(extra)
    if write_evidence:
        ev_dir = VERIF_ROOT / "evidence"
        ev_dir.mkdir(exist_ok=True)
        (ev_dir / f"{prop}.json").write_text(json.dumps(evidence, indent=1))
    if not quiet:
        print(
            f"[{prop}] tier={tier} rules={len(rdefs)} instances={len(all_inst)} "
            f"violations={len(new_violations)} known={len(matched_known)} "
            f"errors={len(errors)} wall={wall:.2f}s exit={code}"
        )
    return code, {
        "evidence": evidence,
        "lines": out_lines,
        "violations": new_violations,
        "errors": errors,
        "instances": all_inst,
    }
