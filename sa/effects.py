"""
"Must happen on every path" reasoning across helper calls.

An *effect matcher* recognises a statement that performs an obligation for a
variable X (e.g. "retarget X's references through the cache"). must_effect()
computes the guard under which the effect has happened in a function, looking
through calls to repository helpers that receive X, and evaluates that guard
under the *interesting-case assumption*: X has the block kind the obligation
is about, the tables looked up exist and contain X. What remains are the real
conditions, which the caller compares with the guard of the retirement site.
"""

from __future__ import annotations

import ast
from typing import Callable, Dict, List, Optional, Sequence, Set, Tuple

from . import aux
from .astx import (
    FALSE,
    TRUE,
    GStmt,
    Linear,
    attr_path,
    calls_in,
    f_and,
    f_atoms,
    f_not,
    f_or,
    implies,
    linear,
    single_assign_value,
    src,
    walk_no_nested,
)
from .core import AnalysisError, FuncInfo, Repo
from .resolve import TypeEnv, resolve_call

Matcher = Callable[[FuncInfo, GStmt, str], bool]

CODE_KINDS = {"gtirb.CodeBlock", "gtirb.CfgNode", "CodeBlock", "CfgNode"}
DATA_KINDS = {"gtirb.DataBlock", "DataBlock"}


def substitute(f: tuple, env: Dict) -> tuple:
    k = f[0]
    if k == "atom":
        if f[1] in env:
            return TRUE if env[f[1]] else FALSE
        return f
    if k == "not":
        return f_not(substitute(f[1], env))
    if k == "and":
        return f_and(*[substitute(x, env) for x in f[1:]])
    if k == "or":
        return f_or(*[substitute(x, env) for x in f[1:]])
    return f


def _is_lookup_value(fi: FuncInfo, v: ast.expr, xname: str, repo: Repo, depth: int = 0) -> bool:
    # set(X.incoming_edges) / tuple(X.references): "nothing to do" when empty
    for n in ast.walk(v):
        p = attr_path(n)
        if p and len(p) == 2 and p[0] == xname and p[1] in (
            "incoming_edges",
            "outgoing_edges",
            "references",
        ):
            return True
    if isinstance(v, ast.Call) and isinstance(v.func, ast.Attribute):
        if v.func.attr in ("get", "get_or_insert", "pop"):
            # table_def.get(module) / table.get(X) / cache.functions_by_block.get(X)
            base = v.func.value
            if aux.table_of_expr(repo, fi.mod, base) is not None:
                return True
            if isinstance(base, ast.Name):
                # loop variable over table definitions, or a table var itself
                for u in aux.table_uses(repo, fi):
                    if u.call is v:
                        return True
                if depth < 3 and _lookup_bound(fi, base.id, xname, repo, depth + 1):
                    return True
            for a in v.args:
                p = attr_path(a)
                if p and p[0] == xname:
                    return True
    return False


def _lookup_bound(fi: FuncInfo, name: str, xname: str, repo: Repo, depth: int = 0) -> bool:
    """Is every assignment to `name` the result of a table/dict lookup about X?"""
    from .astx import find_assign

    assigns = find_assign(fi.node, name)
    if not assigns:
        return False
    return all(
        a.value is not None and _is_lookup_value(fi, a.value, xname, repo, depth)
        for a in assigns
    )


def interesting_env(
    repo: Repo, fi: FuncInfo, f: tuple, xname: str, kinds: Set[str]
) -> Dict:
    """Truth values for the benign atoms of `f` (see module docstring)."""
    env: Dict = {}
    const_loops = _constant_loops(repo, fi)
    for a in f_atoms(f):
        text = a[0] if isinstance(a, tuple) else str(a)
        if text.startswith("<iter#"):
            if a in const_loops:
                env[a] = True
            continue
        if text.startswith("<"):
            continue
        try:
            node = ast.parse(text, mode="eval").body
        except SyntaxError:
            continue
        # isinstance(X, Kind)
        if (
            isinstance(node, ast.Call)
            and isinstance(node.func, ast.Name)
            and node.func.id == "isinstance"
            and len(node.args) == 2
            and src(node.args[0]) == xname
        ):
            t = node.args[1]
            ts = {src(e) for e in (t.elts if isinstance(t, ast.Tuple) else [t])}
            if ts & kinds:
                env[a] = True
            elif kinds and not (ts & kinds):
                # a different kind than the obligation is about
                env[a] = False
            continue
        # lookup result truthiness / is None
        if isinstance(node, ast.Name) and _lookup_bound(fi, node.id, xname, repo):
            env[a] = True
            continue
        # name bound once to a condition that is itself decided by the
        # interesting case:  safe = X in table
        if isinstance(node, ast.Name) and _depth[0] < 3:
            v = single_assign_value(fi.node, node.id)
            if isinstance(v, (ast.Compare, ast.BoolOp, ast.UnaryOp)):
                _depth[0] += 1
                try:
                    sub = linear(fi.node).cond(v, {})
                    sub = substitute(sub, interesting_env(repo, fi, sub, xname, kinds))
                finally:
                    _depth[0] -= 1
                if sub == TRUE:
                    env[a] = True
                    continue
                if sub == FALSE:
                    env[a] = False
                    continue
        if (
            isinstance(node, ast.Compare)
            and len(node.ops) == 1
            and isinstance(node.ops[0], ast.Is)
            and isinstance(node.left, ast.Name)
            and isinstance(node.comparators[0], ast.Constant)
            and node.comparators[0].value is None
            and _lookup_bound(fi, node.left.id, xname, repo)
        ):
            env[a] = False
            continue
        # <table>.get(module) is X : X is the block the scalar table names
        if (
            isinstance(node, ast.Compare)
            and len(node.ops) == 1
            and isinstance(node.ops[0], ast.Is)
            and src(node.comparators[0]) == xname
            and isinstance(node.left, ast.Call)
            and isinstance(node.left.func, ast.Attribute)
            and node.left.func.attr == "get"
            and aux.table_of_expr(repo, fi.mod, node.left.func.value) is not None
        ):
            env[a] = True
            continue
        # X in table
        if (
            isinstance(node, ast.Compare)
            and len(node.ops) == 1
            and isinstance(node.ops[0], ast.In)
            and src(node.left) == xname
            and isinstance(node.comparators[0], ast.Name)
            and _lookup_bound(fi, node.comparators[0].id, xname, repo)
        ):
            env[a] = True
            continue
    return env


_depth = [0]
_LOOP_ATOMS: Dict[int, Set] = {}


def _constant_loops(repo: Repo, fi: FuncInfo) -> Set:
    """
    Atoms of loops that certainly iterate (over a literal tuple/list or a
    table-definition tuple).  The linearizer numbers loop atoms in walk order,
    so recover them by re-walking in the same order.
    """
    key = id(fi.node)
    if key in _LOOP_ATOMS:
        return _LOOP_ATOMS[key]
    lin = linear(fi.node)
    out: Set = set()
    for g in lin.stmts:
        if isinstance(g.node, (ast.For, ast.AsyncFor)):
            it = g.node.iter
            const = False
            if isinstance(it, (ast.Tuple, ast.List)) and it.elts:
                const = True
            elif aux.table_of_expr(repo, fi.mod, it):
                const = True
            if const:
                # find the iteration atom: first body stmt's guard minus loop guard
                if g.node.body:
                    b = lin.of(g.node.body[0])
                    extra = f_atoms(b.guard) - f_atoms(g.guard)
                    for a in extra:
                        if isinstance(a, tuple) and str(a[0]).startswith("<iter#"):
                            out.add(a)
    _LOOP_ATOMS[key] = out
    return out


def arg_binding(callee: FuncInfo, call: ast.Call, xname: str) -> Optional[str]:
    """Name of the callee parameter that receives the expression `xname`."""
    params = [a.arg for a in callee.params]
    if callee.cls is not None and params and params[0] in ("self", "cls"):
        params = params[1:]
    for i, a in enumerate(call.args):
        if isinstance(a, ast.Starred):
            return None
        if src(a) == xname and i < len(params):
            return params[i]
    for k in call.keywords:
        if k.arg and src(k.value) == xname:
            return k.arg
    return None


class _Rename(ast.NodeTransformer):
    def __init__(self, mapping: Dict[str, ast.expr]):
        self.mapping = mapping

    def visit_Name(self, node: ast.Name):
        if node.id in self.mapping:
            return ast.copy_location(
                ast.parse(src(self.mapping[node.id]), mode="eval").body, node
            )
        return node


def param_mapping(callee: FuncInfo, call: ast.Call) -> Dict[str, ast.expr]:
    params = [a.arg for a in callee.params]
    if callee.cls is not None and params and params[0] in ("self", "cls"):
        params = params[1:]
    m: Dict[str, ast.expr] = {}
    for i, a in enumerate(call.args):
        if isinstance(a, ast.Starred):
            break
        if i < len(params):
            m[params[i]] = a
    for k in call.keywords:
        if k.arg:
            m[k.arg] = k.value
    # defaults
    a = callee.node.args
    pos = [*a.posonlyargs, *a.args]
    for arg, d in zip(pos[len(pos) - len(a.defaults):], a.defaults):
        m.setdefault(arg.arg, d)
    for arg, d in zip(a.kwonlyargs, a.kw_defaults):
        if d is not None:
            m.setdefault(arg.arg, d)
    return m


_FRESH = [0]


def translate(
    repo: Repo,
    caller: FuncInfo,
    g_call: GStmt,
    call: ast.Call,
    callee: FuncInfo,
    f: tuple,
) -> tuple:
    """Rewrite a formula over the callee's atoms into the caller's terms."""
    lin = linear(caller.node)
    mapping = param_mapping(callee, call)
    params = {a.arg for a in callee.params}

    def tr(x: tuple) -> tuple:
        k = x[0]
        if k in ("true", "false"):
            return x
        if k == "not":
            return f_not(tr(x[1]))
        if k == "and":
            return f_and(*[tr(y) for y in x[1:]])
        if k == "or":
            return f_or(*[tr(y) for y in x[1:]])
        key = x[1]
        text = key[0] if isinstance(key, tuple) else str(key)
        if text.startswith("<"):
            _FRESH[0] += 1
            return ("atom", (f"<{callee.qual}:{text[1:-1]}:{_FRESH[0]}>", ()))
        try:
            node = ast.parse(text, mode="eval").body
        except SyntaxError:
            return ("atom", (f"<{callee.qual}:{text}>", ()))
        # inline single-assignment locals of the callee
        for _ in range(3):
            changed = False
            for n in list(ast.walk(node)):
                if isinstance(n, ast.Name) and n.id not in params:
                    v = single_assign_value(callee.node, n.id)
                    if v is not None and not isinstance(v, ast.Call):
                        node = _Rename({n.id: v}).visit(node)
                        changed = True
            if not changed:
                break
        opaque = [
            n.id
            for n in ast.walk(node)
            if isinstance(n, ast.Name)
            and n.id not in params
            and n.id not in ("isinstance", "gtirb", "any", "all", "len", "bool", "set", "tuple", "None", "True", "False")
            and single_assign_value(callee.node, n.id) is not None
        ]
        node = _Rename(mapping).visit(node)
        ast.fix_missing_locations(node)
        if opaque:
            return ("atom", (f"<{callee.qual}:{src(node)}>", ()))
        return lin.cond_at(g_call, node)

    return tr(f)


def predicate_formula(repo: Repo, callee: FuncInfo) -> Optional[tuple]:
    """
    For a function that returns booleans (or a NamedTuple whose truth value is
    its first field): the guard, over the callee's atoms, under which it
    returns a true value. None if the shape is not recognised.
    """
    lin = linear(callee.node)
    total = FALSE
    n_ret = 0
    for g in lin.stmts:
        if not isinstance(g.node, ast.Return):
            continue
        n_ret += 1
        v = g.node.value
        if v is None:
            return None
        c: Optional[tuple] = None
        if isinstance(v, ast.Constant) and isinstance(v.value, bool):
            c = TRUE if v.value else FALSE
        elif (
            isinstance(v, ast.Call)
            and v.args
            and isinstance(v.args[0], ast.Constant)
            and isinstance(v.args[0].value, bool)
        ):
            c = TRUE if v.args[0].value else FALSE
        elif isinstance(v, (ast.BoolOp, ast.UnaryOp, ast.Compare, ast.Name)):
            c = lin.cond_at(g, v)
        else:
            return None
        total = f_or(total, f_and(g.guard, c))
    if n_ret == 0:
        return None
    return total


def expand_definitions(repo: Repo, fi: FuncInfo, f: tuple) -> tuple:
    """
    Replace atoms that are names bound once to the result of a repository
    predicate function by that predicate's formula in fi's terms.
    """
    lin = linear(fi.node)
    env_t = TypeEnv(repo, fi)
    repl: Dict = {}
    for a in f_atoms(f):
        text = a[0] if isinstance(a, tuple) else str(a)
        if not text.isidentifier():
            continue
        v = single_assign_value(fi.node, text)
        if not isinstance(v, ast.Call):
            continue
        ts = [t for t in resolve_call(repo, fi, v, env_t) if isinstance(t, FuncInfo)]
        if len(ts) != 1:
            continue
        pf = predicate_formula(repo, ts[0])
        if pf is None:
            continue
        g_call = lin.of(v)
        repl[a] = translate(repo, fi, g_call, v, ts[0], pf)
    if not repl:
        return f

    def sub(x: tuple) -> tuple:
        k = x[0]
        if k == "atom":
            return repl.get(x[1], x)
        if k == "not":
            return f_not(sub(x[1]))
        if k == "and":
            return f_and(*[sub(y) for y in x[1:]])
        if k == "or":
            return f_or(*[sub(y) for y in x[1:]])
        return x

    return sub(f)


_TE_CACHE: Dict[int, TypeEnv] = {}


def _type_env(repo: Repo, fi: FuncInfo) -> TypeEnv:
    k = id(fi.node)
    if k not in _TE_CACHE:
        _TE_CACHE[k] = TypeEnv(repo, fi)
    return _TE_CACHE[k]


def must_effect(
    repo: Repo,
    fi: FuncInfo,
    xname: str,
    matcher: Matcher,
    kinds: Set[str],
    before: Optional[GStmt] = None,
    depth: int = 3,
    trace: Optional[List[str]] = None,
) -> tuple:
    """
    Guard (over fi's atoms, benign atoms resolved) under which the effect has
    happened for X - before statement `before` if given, else by function exit.
    """
    lin = linear(fi.node)
    env_t = _type_env(repo, fi)
    total = FALSE
    for g in lin.stmts:
        if before is not None and g.index >= before.index:
            continue
        if g.in_handler and not (before is not None and before.in_handler):
            continue
        if matcher(fi, g, xname):
            total = f_or(total, g.guard)
            if trace is not None:
                trace.append(f"{fi.qual}:{g.lineno} direct")
            continue
        if depth <= 0:
            continue
        for c in lin.stmt_calls(g):
            for t in resolve_call(repo, fi, c, env_t):
                if not isinstance(t, FuncInfo) or t is fi:
                    continue
                p = arg_binding(t, c, xname)
                if p is None:
                    continue
                sub = must_effect(repo, t, p, matcher, kinds, None, depth - 1, trace)
                if sub == FALSE:
                    continue
                if trace is not None:
                    trace.append(f"{fi.qual}:{g.lineno} via {t.qual}")
                total = f_or(total, f_and(g.guard, translate(repo, fi, g, c, t, sub)))
    env = interesting_env(repo, fi, total, xname, kinds)
    return substitute(total, env)


def site_guard(repo: Repo, fi: FuncInfo, site: GStmt, xname: str, kinds: Set[str]) -> tuple:
    env = interesting_env(repo, fi, site.guard, xname, kinds)
    return substitute(site.guard, env)


# ----------------------------------------------------------------------------
# Common matchers
# ----------------------------------------------------------------------------


def call_matcher(method: str, arg_index: int = 0, receiver_contains: Optional[str] = None) -> Matcher:
    """A call `....<method>(..., X at arg_index, ...)`."""

    def m(fi: FuncInfo, g: GStmt, xname: str) -> bool:
        for c in linear(fi.node).stmt_calls(g):
            f = c.func
            name = f.attr if isinstance(f, ast.Attribute) else getattr(f, "id", None)
            if name != method:
                continue
            if receiver_contains is not None:
                if receiver_contains not in src(f):
                    continue
            if len(c.args) > arg_index and src(c.args[arg_index]) == xname:
                return True
        return False

    return m
