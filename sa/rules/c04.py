"""C04 - symbolic expressions and offset-keyed aux data travel with bytes."""

from __future__ import annotations

import ast
from typing import Dict, List, Optional, Tuple

from .. import aux
from ..astx import (
    attr_path,
    calls_in,
    dump,
    linear,
    names_in,
    single_assign_value,
    src,
    walk_no_nested,
)
from ..core import AnalysisError, Ctx, FuncInfo, Repo, rule
from ..region import Unknown, lin_equal, linform, lin_show, minieval, tabulate

# ----------------------------------------------------------------------------
# extraction of (filter, new-key) pairs from comprehensions
# ----------------------------------------------------------------------------


class Rekey:
    def __init__(self, node, kvar, filt, keyfn, source, fi, target_text):
        self.node = node
        self.kvar = kvar
        self.filt = filt
        self.keyfn = keyfn
        self.source = source  # text of the iterated mapping
        self.fi = fi
        self.target = target_text  # what the result is stored into


def comp_rekeys(fi: FuncInfo) -> List[Rekey]:
    """Dict comprehensions / generator expressions of (key, value) over X.items()."""
    out: List[Rekey] = []
    parents: Dict[int, ast.AST] = {}
    for n in ast.walk(fi.node):
        for c in ast.iter_child_nodes(n):
            parents[id(c)] = n
    for n in walk_no_nested(fi.node):
        if isinstance(n, (ast.DictComp, ast.GeneratorExp)) and len(n.generators) == 1:
            gen = n.generators[0]
            it = gen.iter
            if not (
                isinstance(it, ast.Call)
                and isinstance(it.func, ast.Attribute)
                and it.func.attr == "items"
            ):
                continue
            tgt = gen.target
            if not (isinstance(tgt, ast.Tuple) and len(tgt.elts) == 2 and isinstance(tgt.elts[0], ast.Name)):
                continue
            kvar = tgt.elts[0].id
            if isinstance(n, ast.DictComp):
                keyfn = n.key
            else:
                if not (isinstance(n.elt, ast.Tuple) and len(n.elt.elts) == 2):
                    continue
                keyfn = n.elt.elts[0]
            filt: Optional[ast.expr] = None
            if gen.ifs:
                filt = gen.ifs[0] if len(gen.ifs) == 1 else ast.BoolOp(ast.And(), list(gen.ifs))
            # where does it go?
            p = parents.get(id(n))
            target = ""
            while p is not None and not isinstance(p, ast.stmt):
                p = parents.get(id(p))
            if isinstance(p, ast.Assign):
                target = src(p.targets[0])
            elif isinstance(p, ast.Expr):
                target = src(p.value)[:60]
            out.append(Rekey(n, kvar, filt, keyfn, src(it.func.value), fi, target))
    return out


def _envs(names: Dict[str, List[int]]):
    keys = list(names)
    import itertools

    for vals in itertools.product(*[names[k] for k in keys]):
        yield dict(zip(keys, vals))


def _check_table(ctx: Ctx, fi, node, what: str, rk_filter, rk_key, envs, spec, label):
    """Compare the extracted re-keying function with `spec(env)` on all envs."""
    bad = []
    try:
        table = tabulate(rk_filter, rk_key, envs)
    except AnalysisError as exc:
        raise AnalysisError(f"{fi.qual}: {exc}")
    for env, got in table:
        want = spec(env)
        if got != want:
            bad.append((env, got, want))
    if bad:
        env, got, want = bad[0]
        ctx.fail(
            fi,
            node,
            what,
            f"{label}: for {env} the code gives "
            f"{'drop' if got is None else got}, the spec "
            f"{'drop' if want is None else want} ({len(bad)} of {len(table)} order types differ)",
        )
    else:
        ctx.ok(fi, node, what, f"{len(table)} sample points (all order types) agree with the spec")


# ----------------------------------------------------------------------------


def spec_edit(env):
    k, o, L, d = env["k"], env["offset"], env["length"], env["size_delta"]
    if o <= k < o + L:
        return None
    return k + d if k >= o + L else k


EDIT_ENVS = list(
    _envs({"k": list(range(0, 9)), "offset": [3], "length": [0, 1, 3], "size_delta": [10, -1]})
)


@rule("C04.1a", ["C04", "C01"], "edit_byte_interval re-keys symbolic expressions and interval-keyed aux data correctly at every boundary", 2)
def c04_1a(ctx: Ctx):
    fi = ctx.repo.func("_modify.edit.edit_byte_interval")
    rks = comp_rekeys(fi)
    if len(rks) < 2:
        raise AnalysisError(f"edit_byte_interval: expected 2 re-keying comprehensions, found {len(rks)}")
    for i, rk in enumerate(rks):
        envs = [dict(e, **{rk.kvar: e["k"]}) for e in EDIT_ENVS]
        _check_table(
            ctx, fi, rk.node,
            f"re-key of {rk.source} -> {rk.target}",
            rk.filt, rk.keyfn, envs, spec_edit,
            "keys before the edit stay, keys inside the removed range are dropped, keys at/after its end shift by the size delta",
        )
    # size_delta definition
    sd = single_assign_value(fi.node, "size_delta")
    ok = sd is not None and linform(sd) == {"len(content)": 1, "length": -1}
    ctx.check(ok, fi, sd or fi.node, "size_delta == len(content) - length",
              f"size_delta is `{src(sd) if sd else '?'}`")


@rule("C04.2", ["C04"], "the symbolic-expression map and the aux-table map in edit_byte_interval are the same function", 1)
def c04_2(ctx: Ctx):
    fi = ctx.repo.func("_modify.edit.edit_byte_interval")
    rks = comp_rekeys(fi)
    if len(rks) < 2:
        raise AnalysisError("edit_byte_interval: re-keying comprehensions not found")
    first = rks[0]

    def norm(rk):
        class R(ast.NodeTransformer):
            def visit_Name(self, n):
                if n.id == rk.kvar:
                    return ast.Name("K", n.ctx)
                return n

        import copy

        f = dump(R().visit(copy.deepcopy(rk.filt))) if rk.filt else ""
        k = dump(R().visit(copy.deepcopy(rk.keyfn)))
        return f, k

    for rk in rks[1:]:
        ctx.check(
            norm(rk) == norm(first),
            fi,
            rk.node,
            f"re-key of {rk.source} == re-key of {first.source}",
            f"`{src(rk.node)}` differs from `{src(first.node)}`: an expression and its recorded size would part ways at a boundary",
        )


def spec_split_head(env):
    k, o = env["k"], env["offset"]
    return k if k < o else None


def spec_split_tail(env):
    k, o = env["k"], env["offset"]
    return k - o if k >= o else None


def spec_split_tail_cfi(env):
    k, o = env["k"], env["offset"]
    return k - o if k > o else None


SPLIT_ENVS = list(_envs({"k": list(range(0, 8)), "offset": [0, 3, 7]}))


@rule("C04.1b", ["C04", "C08"], "split_block partitions block-keyed offset maps (and CFI) at the split offset", 4)
def c04_1b(ctx: Ctx):
    fi = ctx.repo.func("_modify.split.split_block")
    rks = comp_rekeys(fi)
    heads = [r for r in rks if r.target.endswith("[block]")]
    tails = [r for r in rks if r.target.endswith("[new_block]")]
    if len(heads) < 2 or len(tails) < 2:
        raise AnalysisError(f"split_block: expected 2 head and 2 tail comprehensions, found {len(heads)}/{len(tails)}")
    for rk in heads:
        envs = [dict(e, **{rk.kvar: e["k"]}) for e in SPLIT_ENVS]
        _check_table(ctx, fi, rk.node, f"head part {rk.target} from {rk.source}", rk.filt, rk.keyfn, envs,
                     spec_split_head, "entries strictly before the split offset stay on the head with the same key")
    for rk in tails:
        is_cfi = "cfi" in rk.target
        envs = [dict(e, **{rk.kvar: e["k"]}) for e in SPLIT_ENVS]
        _check_table(
            ctx, fi, rk.node, f"tail part {rk.target} from {rk.source}", rk.filt, rk.keyfn, envs,
            spec_split_tail_cfi if is_cfi else spec_split_tail,
            "entries after the split offset move to the tail re-based by the offset"
            + (" (CFI: the entry *at* the offset is split around .cfi_endproc separately)" if is_cfi else " (the entry at the offset belongs to the tail)"),
        )
    # CFI at the boundary: keep/move split around the first .cfi_endproc
    text = src(fi.node)
    lin = linear(fi.node)
    baa = [c for c in calls_in(fi.node) if isinstance(c.func, ast.Name) and c.func.id == "before_and_after"]
    ok = False
    detail = "before_and_after(...) not found"
    if len(baa) == 1 and baa[0].args and isinstance(baa[0].args[0], ast.Lambda):
        lam = baa[0].args[0]
        b = lam.body
        # predicate must be: directive[0] != ".cfi_endproc"
        ok = (
            isinstance(b, ast.Compare)
            and len(b.ops) == 1
            and isinstance(b.ops[0], ast.NotEq)
            and isinstance(b.comparators[0], ast.Constant)
            and b.comparators[0].value == ".cfi_endproc"
            and src(b.left).endswith("[0]")
        )
        detail = f"predicate is `{src(b)}`"
    ctx.check(ok, fi, baa[0] if baa else fi.node, "directives at the split offset: those before the first .cfi_endproc stay",
              f"{detail}; code inserted at the end of a procedure must stay inside it")
    # keep -> cfi_data[block][offset], move -> cfi_data[new_block][0]
    stores = {}
    for n in walk_no_nested(fi.node):
        if isinstance(n, ast.Assign) and isinstance(n.targets[0], ast.Subscript) and isinstance(n.value, ast.Name):
            stores[n.value.id] = src(n.targets[0])
    ctx.check(
        stores.get("keep", "").endswith("[block][offset]") and stores.get("move", "").endswith("[new_block][0]"),
        fi, fi.node, "kept directives stay at head[offset], moved ones go to tail[0]",
        f"stores are {stores}",
    )
    items = single_assign_value(fi.node, "items_at_offset")
    ctx.check(
        items is not None and "get(offset" in src(items),
        fi, items or fi.node, "boundary directives are those at exactly `offset`",
        f"items_at_offset = {src(items) if items else '?'}",
    )


def spec_join(env):
    return env["block1.size"] + env["k"]


JOIN_ENVS = list(_envs({"k": [0, 1, 5], "block1.size": [0, 4]}))


@rule("C04.1c", ["C04", "C08"], "join_blocks re-bases block2's offset maps and CFI by block1's size (before it grows)", 3)
def c04_1c(ctx: Ctx):
    fi = ctx.repo.func("_modify.join.join_blocks")
    rks = comp_rekeys(fi)
    if not rks:
        raise AnalysisError("join_blocks: offset-map comprehension not found")
    for rk in rks:
        envs = [dict(e, **{rk.kvar: e["k"]}) for e in JOIN_ENVS]
        _check_table(ctx, fi, rk.node, f"offset maps of block2 -> block1 ({rk.source})", rk.filt, rk.keyfn, envs,
                     spec_join, "every key k of block2 becomes block1.size + k")
    # CFI loop: new_k = block1.size + k
    nk = single_assign_value(fi.node, "new_k")
    ok = nk is not None and linform(nk) == {"block1.size": 1, "k": 1}
    ctx.check(ok, fi, nk or fi.node, "CFI of block2 re-based: new_k == block1.size + k", f"new_k = {src(nk) if nk else '?'}")
    # lists appended in order (extend), not replaced
    ext = [c for c in calls_in(fi.node) if isinstance(c.func, ast.Attribute) and c.func.attr == "extend"
           and isinstance(c.func.value, ast.Call) and "setdefault(new_k" in src(c.func.value)]
    ctx.check(len(ext) == 1, fi, fi.node, "CFI lists at equal offsets are appended (setdefault(new_k, []).extend(v))",
              "directives of block2 no longer extend the list already at that offset of block1")
    # the size update comes after both uses
    lin = linear(fi.node)
    size_upd = [g for g in lin.stmts if isinstance(g.node, ast.Assign) and src(g.node.targets[0]) == "block1.size"]
    uses = [lin.of(rk.node) for rk in rks]
    if nk is not None:
        uses.append(lin.of(nk))
    ctx.check(
        len(size_upd) == 1 and all(u.index < size_upd[0].index for u in uses),
        fi, size_upd[0].node if size_upd else fi.node,
        "block1.size is increased only after the re-basing",
        "block1.size grows before block2's entries are re-based: they would land past the end",
    )
    if size_upd:
        v = size_upd[0].node.value  # type: ignore
        ctx.check(linform(v) == {"block1.size": 1, "block2.size": 1}, fi, v,
                  "block1.size := block1.size + block2.size", f"block1.size = {src(v)}")


def spec_bi_split(env):
    k, b = env["k"], env["group.begin"]
    return k - b if k >= b else None


@rule("C04.1d", ["C04", "C10", "C02"], "split_byte_interval / join_byte_intervals move interval-keyed entries with the right boundary", 2)
def c04_1d(ctx: Ctx):
    repo = ctx.repo
    fi = repo.func("intervalutils.split_byte_interval")
    # while items != [] and items[-1][0] >= group.begin: off, value = items.pop(); ... {off - group.begin: value}
    whiles = [n for n in walk_no_nested(fi.node) if isinstance(n, ast.While)]
    target = None
    for w in whiles:
        if "items[-1][0]" in src(w.test):
            target = w
    if target is None:
        raise AnalysisError("split_byte_interval: transfer loop not found")
    cmp_ = None
    for n in ast.walk(target.test):
        if isinstance(n, ast.Compare) and src(n.left) == "items[-1][0]":
            cmp_ = n
    keynode = None
    for n in ast.walk(target):
        if isinstance(n, ast.Dict) and len(n.keys) == 1 and n.keys[0] is not None:
            keynode = n.keys[0]
    if cmp_ is None or keynode is None:
        raise AnalysisError("split_byte_interval: transfer loop shape not recognised")
    envs = []
    for k in range(0, 8):
        for b in (0, 3, 7):
            envs.append({"items[-1][0]": k, "off": k, "group.begin": b, "k": k})
    _check_table(ctx, fi, target, "entries >= group.begin move to the new interval re-based by group.begin",
                 cmp_, keynode, envs, spec_bi_split,
                 "an entry at exactly group.begin annotates the first byte of the group and must move with it")
    # items sorted ascending and popped from the end; groups processed from the end
    items = single_assign_value(fi.node, "items")
    ctx.check(items is not None and src(items).startswith("sorted("), fi, items or fi.node,
              "items are sorted so that popping from the end yields the largest offsets first",
              f"items = {src(items) if items else '?'}")
    # entries are deleted from the source interval
    dels = [n for n in ast.walk(target) if isinstance(n, ast.Delete) and "table[interval]" in src(n)]
    ctx.check(bool(dels), fi, target, "moved entries are deleted from the original interval",
              "entries are copied, not moved: they stay on the original interval beyond its new size")

    fj = repo.func("intervalutils.join_byte_intervals")
    rks = comp_rekeys(fj)
    if len(rks) != 1:
        raise AnalysisError(f"join_byte_intervals: expected one re-keying generator, found {len(rks)}")
    rk = rks[0]
    envs = [{rk.kvar: k, "deltas[interval]": d, "k": k, "d": d} for k in (0, 2, 5) for d in (0, 8)]
    _check_table(ctx, fj, rk.node, "entries of an appended interval are re-based by its delta",
                 rk.filt, rk.keyfn, envs, lambda e: e["k"] + e["d"], "k -> k + deltas[interval]")
    # delta is the destination's length measured after padding and before the append
    lin = linear(fj.node)
    dset = [g for g in lin.stmts if isinstance(g.node, ast.Assign) and src(g.node.targets[0]) == "deltas[interval]"]
    app = [g for g in lin.stmts if isinstance(g.node, ast.AugAssign) and src(g.node.target) == "destination.contents"
           and src(g.node.value) == "interval.contents"]
    pads = [g for g, c in lin.all_calls() if src(c.func) == "insert_padding" and g.loops]
    ok = (
        len(dset) == 1
        and len(app) == 1
        and src(dset[0].node.value) == "len(destination.contents)"  # type: ignore
        and dset[0].index < app[0].index
        and all(p.index < dset[0].index for p in pads)
        and dset[0].loops == app[0].loops
    )
    ctx.check(ok, fj, dset[0].node if dset else fj.node,
              "deltas[interval] = len(destination.contents) after all padding and before the append",
              "the delta is not taken between padding and append: entries of the appended interval are mis-placed by the padding")
    # blocks use the same delta
    blk = [n for n in walk_no_nested(fj.node) if isinstance(n, ast.AugAssign) and src(n.target) == "block.offset"]
    ctx.check(len(blk) == 1 and src(blk[0].value) == "deltas[interval]", fj, blk[0] if blk else fj.node,
              "blocks of the appended interval shift by the same delta", "block.offset += something else than deltas[interval]")


@rule("C04.3", ["C04"], "every Offset-keyed aux table is one the re-keying code maintains", 4)
def c04_3(ctx: Ctx):
    repo = ctx.repo
    defs = aux.table_defs(repo)
    maintained = set(aux.offsetmap_tuple(repo)) | {"cfi_directives"}
    exceptions = {"pe_resource": "Offsets inside list values; not maintained by the library (documented exception)"}
    mod = repo.mod("_auxdata")
    for var, t in sorted(defs.items()):
        if "gtirb.Offset" not in t.py_type:
            continue
        if var in exceptions:
            ctx.ok(mod, t.node, f"{t.name}: exception", exceptions[var], nontrivial=False)
            continue
        ctx.check(
            var in maintained,
            mod,
            t.node,
            f"Offset-keyed table {t.name} is in OFFSETMAP_AUX_DATA_TABLES (or is cfiDirectives)",
            f"{t.name} is keyed by Offset but is not maintained by edit/split/join: its entries would not follow the bytes",
        )
    # every consumer iterates the whole tuple (not a private subset)
    users = [
        "_modify.edit.edit_byte_interval",
        "_modify.split.split_block",
        "_modify.join.join_blocks",
        "_modify.remove._remove_aux_data_entries",
        "intervalutils.split_byte_interval",
        "intervalutils.join_byte_intervals",
    ]
    for q in users:
        fi = repo.func(q)
        loops = [
            n
            for n in walk_no_nested(fi.node)
            if isinstance(n, ast.For) and src(n.iter) == "OFFSETMAP_AUX_DATA_TABLES"
        ]
        ctx.check(bool(loops), fi, fi.node, "iterates OFFSETMAP_AUX_DATA_TABLES",
                  "no longer loops over the shared table tuple: some offset tables are not maintained here")


@rule("C04.4", ["C04", "C01", "C02"], "patch blocks, expressions and sizes are rebased with one and the same insertion point", 5)
def c04_4(ctx: Ctx):
    """C01.3: four uses of the insertion point agree (linear normal form)."""
    repo = ctx.repo
    fi = repo.func("_modify.edit.insert")
    lin = linear(fi.node)
    # post-condition of `_, end_block, added_fallthrough = split_block(cache, block, offset)`:
    # block.size == offset afterwards.
    splits = [
        g for g, c in lin.all_calls()
        if isinstance(c.func, ast.Name) and c.func.id == "split_block"
        and len(c.args) >= 3 and src(c.args[1]) == "block" and src(c.args[2]) == "offset"
    ]
    ctx.check(len(splits) == 1, fi, fi.node, "split_block(cache, block, offset) precedes the splice",
              "the target block is no longer split at the requested offset first")
    subst = {"block.size": ast.parse("offset", mode="eval").body}
    want = {"block.offset": 1, "offset": 1}
    ebi = [c for c in calls_in(fi.node) if isinstance(c.func, ast.Name) and c.func.id == "edit_byte_interval"]
    if len(ebi) != 1:
        raise AnalysisError("insert(): edit_byte_interval call not found")
    c = ebi[0]
    g_ebi = lin.of(c)
    if splits:
        ctx.check(splits[0].index < g_ebi.index, fi, c, "splice happens after the split", "edit_byte_interval precedes split_block")
    a = c.args
    ctx.check(len(a) >= 5 and src(a[0]) == "bi", fi, c, "splice into the target's interval", f"first argument is {src(a[0])}")
    got = linform(a[1], subst)
    ctx.check(got == want, fi, c, "splice offset == block.offset + offset",
              f"splice offset is {lin_show(got)} (with block.size == offset after the split), expected block.offset + offset")
    ctx.check(src(a[2]) == "replacement_length", fi, c, "splice length == replacement_length", f"length argument is {src(a[2])}")
    ctx.check(src(a[3]) == "text_section.data", fi, c, "spliced content == text_section.data", f"content argument is {src(a[3])}")
    ctx.check(src(a[4]).replace(" ", "") in ("{block}", "(block,)", "[block]"), fi, c,
              "target block is static (its own offset never shifts)", f"static blocks argument is {src(a[4])}")
    # new blocks
    found = {"blocks": None, "exprs": None, "sizes": None}
    for n in walk_no_nested(fi.node):
        if isinstance(n, ast.For) and src(n.iter) == "text_section.blocks":
            for st in n.body:
                if isinstance(st, ast.Assign) and src(st.targets[0]) == f"{src(n.target)}.offset":
                    base = linform(st.value, {f"{src(n.target)}.offset": ast.Constant(0)})
                    found["blocks"] = (st, base)
        if isinstance(n, ast.For) and "symbolic_expressions.items()" in src(n.iter) and "text_section" in src(n.iter):
            rel = src(n.target.elts[0]) if isinstance(n.target, ast.Tuple) else "?"
            for st in n.body:
                if isinstance(st, ast.Assign) and isinstance(st.targets[0], ast.Subscript) and src(st.targets[0].value) == "bi.symbolic_expressions":
                    base = linform(st.targets[0].slice, {rel: ast.Constant(0)})
                    found["exprs"] = (st, base)
        if isinstance(n, ast.For) and "symbolic_expression_sizes.items()" in src(n.iter) and "text_section" in src(n.iter):
            rel = src(n.target.elts[0]) if isinstance(n.target, ast.Tuple) else "?"
            for st in n.body:
                if isinstance(st, ast.Assign) and isinstance(st.targets[0], ast.Subscript):
                    sl = st.targets[0].slice
                    if isinstance(sl, ast.Call) and src(sl.func) == "gtirb.Offset" and len(sl.args) == 2:
                        base = linform(sl.args[1], {rel: ast.Constant(0)})
                        found["sizes"] = (st, base, src(sl.args[0]))
    labels = {
        "blocks": "patch blocks are placed at block.offset + offset + their own offset",
        "exprs": "patch expressions are keyed at block.offset + offset + their own offset",
        "sizes": "patch expression sizes are keyed at Offset(bi, block.offset + offset + own offset)",
    }
    for k, lab in labels.items():
        v = found[k]
        if v is None:
            ctx.fail(fi, fi.node, lab, "the rebasing statement was not found")
            continue
        base = v[1]
        ok = base == want
        if k == "sizes":
            ok = ok and v[2] == "bi"
        ctx.check(ok, fi, v[0], lab, f"base is {lin_show(base)}, expected block.offset + offset: bytes and their annotations land in different places")


@rule("C04.6", ["C04", "C10"], "re-keyed entries are written into aux storage, not into a function-local container", 3)
def c04_6(ctx: Ctx):
    """
    join_byte_intervals default-tables path: the per-interval sub-dicts put in
    the local `table` must alias the aux data (aux_data[bi] / setdefault), and
    the destination interval must get an entry that aliases aux storage even
    when it has none yet.
    """
    repo = ctx.repo
    fj = repo.func("intervalutils.join_byte_intervals")
    # find: table = {} ... table[bi] = <expr>  inside `if tables is None`
    stores = []
    for n in walk_no_nested(fj.node):
        if isinstance(n, ast.Assign) and isinstance(n.targets[0], ast.Subscript) and src(n.targets[0].value) == "table":
            if isinstance(n.targets[0].slice, ast.Name) and n.targets[0].slice.id == "bi":
                stores.append(n)
    if not stores:
        raise AnalysisError("join_byte_intervals: default table construction not found")
    lin = linear(fj.node)
    aliasing = []
    for st in stores:
        v = st.value
        alias = False
        if isinstance(v, ast.Subscript) and src(v) == "aux_data[bi]":
            alias = True
        if isinstance(v, ast.Call) and src(v.func) == "aux_data.setdefault" and v.args and src(v.args[0]) == "bi":
            alias = True
        ctx.check(alias, fj, st, f"table[bi] = {src(v)} aliases the aux-data sub-mapping",
                  f"`{src(v)}` is a copy/new container: updates made through it never reach the aux data")
        aliasing.append((st, v))
    # destination must be present even without an entry of its own
    has_dest = any(
        isinstance(v, ast.Call) and "setdefault" in src(v.func)
        for _, v in aliasing
    )
    guard_text = ""
    for st, v in aliasing:
        if isinstance(v, ast.Call) and "setdefault" in src(v.func):
            g = lin.of(st)
            from ..astx import f_show

            guard_text = f_show(g.guard)
    ok = has_dest and ("bi is intervals[0]" in guard_text or "bi is destination" in guard_text)
    ctx.check(
        ok, fj, stores[0],
        "the destination interval always maps to an aux-data-owned sub-mapping",
        "when the destination interval has no entry of its own, merged entries are written to `table[destination] = dict(...)` "
        "in the function-local dict and are lost (symbolicExpressionSizes of code inserted into a later block of the interval)",
    )
    # final merge writes through table[destination]
    upd = [c for c in calls_in(fj.node) if src(c.func) == "table[destination].update"]
    ctx.check(len(upd) == 1, fj, upd[0] if upd else fj.node, "merge goes through table[destination].update(...)",
              "merge statement not found")
