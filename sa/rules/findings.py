"""
Detectors for defects of the pinned tree that were confirmed by hand (demos in
/verif/findings/) but not repaired: each needs a behaviour decision, a wider
change than a maintainer would take as a "small fix", or lives in a dependency.

Every detector states the *missing mechanism* as a structural obligation on
the function that is responsible (so it reports file/function/construct, turns
green by itself once the mechanism is added, and still reports a different
violation of the same property through the ordinary rules). The matching
entries are in /verif/known_findings.json (status "known"); DESIGN.md section 7
has the table with the failing inputs.
"""

from __future__ import annotations

import ast
from typing import List

from ..astx import calls_in, linear, single_assign_value, src, walk_no_nested
from ..core import AnalysisError, Ctx, rule


def _has(fi, *needles: str) -> bool:
    t = src(fi.node)
    return all(n in t for n in needles)


def _any(fi, *needles: str) -> bool:
    t = src(fi.node)
    return any(n in t for n in needles)


# ----------------------------------------------------------------------------- C01


@rule("C01.K", ["C01"], "request sets that do not overlap are applied, whatever order they were registered in (known gaps)", 2)
def c01_k(ctx: Ctx):
    repo = ctx.repo
    am = repo.func("rewriting.RewritingContext._apply_modifications")
    dele = repo.func("_modify.edit.delete")
    returns_none = any(isinstance(r, ast.Return) and isinstance(r.value, ast.Constant) and r.value.value is None for r in walk_no_nested(dele.node))
    handles = any(isinstance(i, ast.If) and "actual_block is None" in src(i.test) for i in walk_no_nested(am.node))
    ctx.check(not returns_none or handles, am, am.node, "a modification after one that consumed the whole remaining block still has a block to go to",
              "delete() returns None when the deletion consumes the whole block it was handed, and _apply_modifications only asserts `isinstance(actual_block, ByteBlock)` on the next iteration: "
              "delete_at(b, 0, b.size) + insert_at(b, b.size, nop) (non-overlapping, equivalent to replace_at(b, 0, b.size, nop)) dies with a bare AssertionError half-way through apply()",
              key="C01.K::whole-delete-then-more")
    ro = repo.func("rewriting._ModificationStore.resolve_offsets")
    sorts = [c for c in calls_in(ro.node) if isinstance(c.func, ast.Attribute) and c.func.attr == "sort"]
    keytxt = " ".join(src(k.value) for c in sorts for k in c.keywords if k.arg == "key")
    ctx.check("_replacement_length" in keytxt or _has(ro, "offset > last_end"), ro, sorts[0] if sorts else ro.node,
              "a zero-length insertion at the first offset of a replaced/deleted range is not taken for an overlap",
              "modifications at one offset are ordered by registration id only and checked with `offset >= last_end`: when the ranged one was registered first, last_end is already past the offset "
              "and the insertion at the *start* of the range trips `modifications overlap` - delete_at(b,1,1) then insert_at(b,1,nop) fails, the reverse registration order works",
              key="C01.K::insert-at-range-start")


# ----------------------------------------------------------------------------- C02 / C08


@rule("C02.K", ["C02"], "an unjoinable empty block keeps the labels attached to it (known gaps)", 2)
def c02_k(ctx: Ctx):
    repo = ctx.repo
    fi = repo.func("_modify.edit._cleanup_modified_blocks")
    joins = [c for c in calls_in(fi.node) if src(c.func) == "join_blocks"]
    removes = [c for c in calls_in(fi.node) if src(c.func) == "remove_block"]
    if not joins or not removes:
        raise AnalysisError("_cleanup_modified_blocks: join/remove calls not found")
    tries_successor = any(len(c.args) >= 3 and src(c.args[1]) == "block" for c in joins)
    why = ("after join_blocks(pred, block) was refused, an empty `block` is passed straight to remove_block; it is never offered to its successor (are_joinable accepts any empty block1). "
           "remove_block sends *all* its references - also end-of-predecessor labels that split_block parked on it - to the start of the following block and keeps only start/endproc/remember/restore CFI")
    ctx.check(tries_successor, fi, removes[0], "end labels parked on an empty tail stay with the block they ended",
              why + ": `foo_end` (at_end of A) becomes a start label of B, so delete_function(B) turns it into a proxy reference and alignment padding in front of B moves it",
              key="C02.K::end-label-handed-to-next-block")
    ctx.check(tries_successor, fi, removes[0], "a label ending a patch stays in front of a later patch registered for the same block end",
              why + ": `insert_at(A, A.size, 'nop; skip:')` then `insert_at(A, A.size, 'ud2')` yields nop, ud2, skip - the label slid to the next block while the second patch went to the end of the joined block",
              key="C02.K::patch-end-label-pushed-back")


def _cleanup_tries_successor(repo):
    fi = repo.func("_modify.edit._cleanup_modified_blocks")
    joins = [c for c in calls_in(fi.node) if src(c.func) == "join_blocks"]
    removes = [c for c in calls_in(fi.node) if src(c.func) == "remove_block"]
    if not joins or not removes:
        raise AnalysisError("_cleanup_modified_blocks: join/remove calls not found")
    return fi, removes[0], any(len(c.args) >= 3 and src(c.args[1]) == "block" for c in joins)


def _stale_tracker(ctx: Ctx, key: str):
    repo = ctx.repo
    ap = repo.func("rewriting.RewritingContext.apply")
    lin = linear(ap.node)
    tr = [g for g in lin.stmts if isinstance(g.node, ast.Assign) and isinstance(g.node.value, ast.Call) and src(g.node.value.func) == "_CFIProcedureTracker"]
    if len(tr) != 1:
        raise AnalysisError("apply(): _CFIProcedureTracker construction not found")
    cls = repo.cls("rewriting._CFIProcedureTracker")
    updatable = any(m not in ("__init__", "in_procedure") for m in cls.methods)
    ctx.check(bool(tr[0].loops) or updatable, ap, tr[0].node, "the in-procedure answer is recomputed (or updated) when a modification moves procedure boundaries",
              "the tracker is built once from the original table before any modification; _remove_cfi_directives relocates a kept .cfi_endproc to offset 0 of the next block, so for the rest of "
              "the apply() the tracker and the table disagree: a CFI-bearing patch at the entry of the next function loses its directives in a batch, keeps them one-at-a-time, "
              "and entry code of g can land inside f's procedure",
              key=key)


@rule("C08.K", ["C08"], "CFI on instruction-less blocks and procedure-level CFI survive block removal; the procedure tracker follows relocated directives (known gaps)", 3)
def c08_k(ctx: Ctx):
    repo = ctx.repo
    fi, rm, tries_successor = _cleanup_tries_successor(repo)
    ctx.check(tries_successor, fi, rm, "CFI directives on an empty (instruction-less) block survive its removal",
              "after join_blocks(pred, block) was refused, an empty `block` is passed straight to remove_block, whose _required_cfi_directives keeps only start/endproc/remember/restore - a filter meant "
              "for directives describing *deleted instructions*: a patch `...; jmp .Ldone; .Ldone: .cfi_adjust_cfa_offset -8` loses the trailing directive (CFA off by 8 for the rest of the procedure); "
              "LSDA/personality/initial rules of the next procedure that sit behind a moved .cfi_endproc are dropped",
              key="C08.K::cfi-on-empty-block-dropped")
    rq = repo.func("_modify.remove._required_cfi_directives")
    kept = {c.value for n in ast.walk(rq.node) if isinstance(n, ast.Compare) for c in ast.walk(n) if isinstance(c, ast.Constant) and isinstance(c.value, str) and c.value.startswith(".cfi_")}
    if ".cfi_startproc" not in kept:
        raise AnalysisError("_required_cfi_directives: kept-directive set not recognised")
    ctx.check({".cfi_personality", ".cfi_lsda"} <= kept, rq, rq.node, "directives that belong to a kept .cfi_startproc (personality, LSDA, initial CFA/register rules) are kept with it",
              f"only {sorted(kept)} are kept: delete_at(b0, 0, b0.size) on the first block of a procedure keeps .cfi_startproc but drops .cfi_personality/.cfi_lsda/.cfi_def_cfa/.cfi_offset "
              "that precede every deleted instruction - the module no longer evaluates (CFIStateError) and the function lost its unwind handler",
              key="C08.K::startproc-attributes-dropped")
    _stale_tracker(ctx, "C08.K::stale-procedure-tracker")


# ----------------------------------------------------------------------------- C03


@rule("C03.K", ["C03"], "a branch to an end-of-block label leads to the block at the label's position (known gap)", 1)
def c03_k(ctx: Ctx):
    fi = ctx.repo.func("assembler.assembler._Streamer._resolve_instruction_target")
    ctx.check(_any(fi, ".at_end"), fi, fi.node, "the edge target takes Symbol.at_end into account",
              "the edge goes to `symbol.referent` and at_end is never consulted: `jmp resume` where `resume` is an end label (the assembler itself makes trailing patch labels at_end: "
              "`jmp g; resume:`) gets an edge to the *start* of the label's block instead of the block that follows it",
              key="C03.K::branch-to-at-end-label")


# ----------------------------------------------------------------------------- C04 / C05 / C06 / C07 / C09


@rule("C04.K", ["C04"], "interval-keyed cfiDirectives entries travel with their bytes (known gap)", 1)
def c04_k(ctx: Ctx):
    repo = ctx.repo
    tup = repo.mod("_auxdata_offsetmap").toplevel_assign("OFFSETMAP_AUX_DATA_TABLES")
    if isinstance(tup, ast.Call) and src(tup.func) == "cast" and len(tup.args) == 2:
        tup = tup.args[1]
    if not isinstance(tup, (ast.Tuple, ast.List)):
        raise AnalysisError("OFFSETMAP_AUX_DATA_TABLES not found")
    listed = {src(e) for e in tup.elts}
    eb = repo.func("_modify.edit.edit_byte_interval")
    ctx.check("cfi_directives" in listed or _any(eb, "cfi_directives"), eb, eb.node, "edit_byte_interval also shifts/drops cfiDirectives entries keyed by the byte interval",
              f"the interval-level code iterates OFFSETMAP_AUX_DATA_TABLES = {sorted(listed)}, which leaves out cfi_directives (it needs block-level rules), and nothing else handles a "
              "cfiDirectives entry keyed Offset(byte_interval, k): after insert_at(block, 0, nop) it stays at k while comments/padding at the same byte move to k+1",
              key="C04.K::interval-keyed-cfi")


@rule("C05.K", ["C05"], "tables never name a block that was dropped from a patch section (known gap)", 1)
def c05_k(ctx: Ctx):
    fi = ctx.repo.func("_modify.edit._add_other_section_contents")
    drops = [n for n in walk_no_nested(fi.node) if isinstance(n, ast.Delete) and any(src(t) == "sect.blocks[-1]" for t in n.targets)]
    if not drops:
        raise AnalysisError("_add_other_section_contents: trailing-block drop not found")
    ctx.check(_any(fi, "cfi_", "alignment.pop", "sect.alignment.pop"), fi, drops[0], "dropping the trailing empty block also re-homes its CFI directives and alignment entry",
              "the trailing zero-sized block of a patch's extra section is deleted after insert() already copied every section's CFI directives into the module table; symbols are re-homed, "
              "CFI directives and the alignment entry are not: `.section .mytext; helper: .cfi_startproc; ret; .cfi_endproc` leaves .cfi_endproc keyed on a block that is not in the module",
              key="C05.K::dropped-block-in-cfi-table")


@rule("C06.K", ["C06"], "code inserted into a block of F belongs to F even after an earlier edit of that block ended in data (known gap)", 1)
def c06_k(ctx: Ctx):
    repo = ctx.repo
    ins = repo.func("_modify.edit.insert")
    am = repo.func("rewriting.RewritingContext._apply_modifications")
    params = [a.arg for a in ins.params]
    call = [c for c in calls_in(am.node) if src(c.func) == "insert"]
    passes = any("func" in src(a) for c in call for a in list(c.args) + [k.value for k in c.keywords])
    ctx.check(any("func" in p for p in params) and passes, ins, ins.node, "insert() is told the function of the originally registered block",
              "insert() derives the function from the block it is handed (`cache.functions_by_block.get(block)`, code blocks only), and _apply_modifications hands it whatever the previous "
              "modification returned: after insert_at(A, 6, b'\\x11\\x22\\x33\\x44') that is the patch's *data* block, so the code of a second insert_at(A, 6, 'nop; ret') is in no function",
              key="C06.K::function-from-returned-block")


@rule("C07.K", ["C07"], "every designated block gets its patch, at the instruction the position names (known gaps)", 2)
def c07_k(ctx: Ctx):
    repo = ctx.repo
    ins = repo.func("_modify.edit.insert")
    asserts = [n for n in walk_no_nested(ins.node) if isinstance(n, ast.Assert) and src(n.test) == "block.size"]
    ctx.check(not asserts, ins, asserts[0] if asserts else ins.node, "insertion into a zero-sized code block is supported (or such blocks are skipped explicitly)",
              "insert() asserts `block.size`, but scopes designate every code block and the library itself leaves zero-sized code blocks behind (doc/Deletion.md): an AllBlocksScope/function-entry "
              "pass over such a module dies with AssertionError half-way (EXIT/ANYWHERE positions already fail in resolve_offsets when capstone is handed an empty buffer)",
              key="C07.K::zero-sized-code-block")
    nt = repo.func("utils._nonterminator_instructions")
    ctx.check(_any(nt, "delay", "MIPS"), nt, nt.node, "on delay-slot ISAs the terminator is the instruction before the delay slot",
              "the terminator is taken to be the last decoded instruction (`disassembly[:-1]`): on MIPS32 BlockPosition.EXIT lands after `jr $ra`, in front of its delay-slot nop - "
              "the first patch instruction executes in the delay slot, the rest is dead code",
              key="C07.K::mips-delay-slot")


@rule("C09.K", ["C09"], "the block-ordering cache agrees with the section layout for nested and patch-created blocks; cached CFI procedure extents stay current; per-context counters do not collide (known gaps)", 4)
def c09_k(ctx: Ctx):
    repo = ctx.repo
    init = repo.func("rewriting.RewritingContext.__init__")
    ip = repo.func("rewriting.RewritingContext._invoke_patch")
    zero = any(isinstance(n, ast.Assign) and src(n.targets[0]) == "self._patch_id" and isinstance(n.value, ast.Constant) and n.value.value == 0 for n in ast.walk(init.node))
    avoids = _any(ip, "symbols_named", "endswith", "while ")
    ctx.check(not zero or avoids, ip, ip.node, "the temporary-label suffix of a patch is unique in the module, not only in the context",
              "`_patch_id` starts at 0 in every RewritingContext and is used as the label suffix without looking at the module: the documented `.Lmy_label` patch applied at two blocks gets "
              "_1 and _2 in one apply(), but applied in two consecutive contexts the second one raises MultipleDefinitionsError for `.Lmy_label_1` - batch and one-at-a-time differ",
              key="C09.K::patch-id-restarts-per-context")
    _stale_tracker(ctx, "C09.K::stale-procedure-tracker")
    sp = repo.func("_modify.split.split_block")
    ins = [c for c in calls_in(sp.node) if isinstance(c.func, ast.Attribute) and c.func.attr == "insert_blocks_after"]
    if len(ins) != 1:
        raise AnalysisError("split_block: ordering insertion not found")
    ctx.check(src(ins[0].args[0]) != "block", sp, ins[0], "the tail of a split is ordered after blocks that start inside the head",
              "`insert_blocks_after(block, (new_block,))` links the tail directly after the head although the ordering may hold a zero-sized block that starts inside the head "
              "(prepare_for_rewriting creates them for integral symbols): adjacent_blocks() then names that block as the tail's successor's predecessor, and delete() 'cleans it up' - "
              "a symbol in the middle of untouched data moves to another block in a batch, not one-at-a-time",
              key="C09.K::split-tail-before-nested-block")
    oth = repo.func("_modify.edit._add_other_section_contents")
    det = [c for c in calls_in(oth.node) if isinstance(c.func, ast.Attribute) and c.func.attr == "add_detached_blocks"]
    if not det:
        raise AnalysisError("_add_other_section_contents: add_detached_blocks not found")
    lin = linear(oth.node)
    g = lin.of(det[0])
    guarded_new_only = any("gtirb_sect is None" in str(a) or "created" in str(a) or "new_section" in str(a) for a in g.guard) if g.guard else False
    ctx.check(guarded_new_only, oth, det[0], "blocks a patch adds to an *existing* section become neighbours of that section's blocks",
              "blocks added to another section are always entered as detached (chained only to each other), also when the section already has blocks: for the rest of the apply() "
              "they are nobody's neighbour, so delete_at(D, 0, D.size) in that section keeps D as a zero-sized block ('no other block in the section') in a batch and removes it one-at-a-time",
              key="C09.K::detached-blocks-in-existing-section")


# ----------------------------------------------------------------------------- C11


@rule("C11.K", ["C11"], "layout and patch numbering do not depend on set order or on the order of unrelated registrations (known gaps)", 2)
def c11_k(ctx: Ctx):
    repo = ctx.repo
    pr = repo.func("prepare.prepare_for_rewriting")
    lay = [c for c in calls_in(pr.node) if src(c.func) == "layout_module"]
    if not lay:
        raise AnalysisError("prepare_for_rewriting: layout_module call not found")
    ctx.check(False if lay else True, pr, lay[0], "addresses are assigned in an order fixed by the IR",
              "gtirb_layout.layout_module (dependency) walks `module.sections` and `section.byte_intervals`, sets of identity-hashed nodes, and assigns addresses from 0 in that order; "
              "gtirb-rewriting provokes it (new address-less intervals for inserted functions/sections) and numbers patches by the resulting addresses: one `insert_at` into a module whose "
              ".data follows .text gives {.data:0,.text:16} in 7 of 16 runs and {.text:0,.data:2} in 9",
              key="C11.K::layout-follows-set-order")
    ap = repo.func("rewriting.RewritingContext.apply")
    loops = [n for n in walk_no_nested(ap.node) if isinstance(n, ast.For) and src(n.iter) == "self._function_insertions"]
    if not loops:
        raise AnalysisError("apply(): function-insertion loops not found")
    ctx.check(False, ap, loops[0], "function insertions are applied in an order fixed by the IR (for instance by symbol name)",
              "`self._function_insertions` is replayed in registration order and each patch takes the running `_patch_id` as its label suffix: registering fa, fb, fc in another order "
              "changes the temporary-label names (.L_x_1/_2/_3) and the number of leftover return proxies, although the insertions target different places",
              key="C11.K::function-insertion-order")


# ----------------------------------------------------------------------------- C12 / C13 / C14


@rule("C12.K", ["C12"], "MIPS `b label` is an unconditional branch (known gap)", 1)
def c12_k(ctx: Ctx):
    repo = ctx.repo
    fi = repo.func("assembler.assembler._Streamer.emit_instruction")
    mc = repo.mod("assembler._mc_utils")
    helper = any("uncondition" in (n.name.lower() if hasattr(n, "name") else "") for n in ast.walk(mc.tree) if isinstance(n, (ast.FunctionDef, ast.Assign)) and hasattr(n, "name")) or \
        any(isinstance(n, ast.Assign) and any("UNCOND" in src(t).upper() for t in n.targets) for n in ast.walk(mc.tree))
    ctx.check(helper or not _has(fi, "inst.desc.is_conditional_branch"), fi, fi.node, "conditionality of a branch is decided per instruction, not per opcode, where LLVM expands idioms",
              "`conditional=inst.desc.is_conditional_branch` is a static per-opcode flag and LLVM expands MIPS `b top` to `BEQ $zero, $zero, top`: the block gets a conditional Branch plus a "
              "Fallthrough, where `j top` gets one unconditional Branch (and the data after it stays code)",
              key="C12.K::mips-b-conditional")


@rule("C13.K", ["C13"], "final symbol names are unique among everything one assembler created; chunks continue where the last one stopped (known gaps)", 2)
def c13_k(ctx: Ctx):
    repo = ctx.repo
    pl = repo.func("assembler.assembler._SymbolCreator._precreate_label")
    t = src(pl.node)
    ctx.check("local_symbols.values()" in t or ".name == symbol_name" in t, pl, pl.node, "the suffixed name is also compared with the names of symbols this assembler already created",
              "local_symbols is keyed by the *unsuffixed* LLVM name and the suffixed name is only looked up in the module: `.Lx: nop; jmp .Lx_1` with suffix `_1` and allow_undef_symbols "
              "creates the label `.Lx_1` and a proxy symbol `.Lx_1` - two symbols with one name and no MultipleDefinitionsError",
              key="C13.K::suffixed-name-vs-own-symbols")
    asm = repo.func("assembler.assembler.Assembler.assemble")
    per_call = any(src(c.func) == "mcasm.Assembler" for c in calls_in(asm.node))
    ctx.check(not per_call, asm, asm.node, "the MC parser (current section, assignments, .LtmpN counter, syntax mode) persists across assemble() calls",
              "every assemble() call constructs a fresh mcasm.Assembler: the parser starts in .text again and forgets assignments and its temporary counter, so `.data\\n.byte 1` + `.byte 2` "
              "puts the 2 into .text, `jmp .` in two chunks raises a spurious MultipleDefinitionsError, and `foo = 5` + `mov $foo, %eax` is no longer folded - chunked != concatenated",
              key="C13.K::parser-state-per-chunk")


@rule("C14.K", ["C14"], "the directive form handed to GTIRB can carry every operand the byte form accepts (known gap)", 1)
def c14_k(ctx: Ctx):
    cls = ctx.repo.cls("dwarf.cfi.Instruction")
    m = cls.methods.get("_operands") or cls.methods.get("gtirb_encoding")
    if m is None:
        raise AnalysisError("Instruction._operands not found")
    t = src(m.node)
    ctx.check("2 ** 63" in t or "1 << 63" in t or "0x7fff" in t.lower() or "_int_domain" in t, m, m.node, "operands outside int64 fall back to the .cfi_escape byte form (or are refused)",
              "`_operands` returns the raw ULEB128 field values; cfiDirectives stores sequence<int64_t>: InstDefCFA(7, 2**63) encodes correctly as bytes, but gtirb_encoding() yields an "
              "operand that cannot be saved (OverflowError) and that the assembler reads back as -2**63, i.e. DW_CFA_def_cfa_sf with different bytes",
              key="C14.K::directive-operand-range")


# ----------------------------------------------------------------------------- C16 / C17 / C18 / C20


@rule("C16.K", ["C16"], "a block shared by two functions is treated as possibly-leaf if any owner may be a leaf (known gap)", 1)
def c16_k(ctx: Ctx):
    fi = ctx.repo.func("_modify.cache.ModifyCache.__init__")
    fb = [n for n in ast.walk(fi.node) if isinstance(n, (ast.Assign, ast.AnnAssign)) and "functions_by_block" in src(n.targets[0] if isinstance(n, ast.Assign) else n.target)]
    if not fb:
        raise AnalysisError("ModifyCache.functions_by_block not found")
    v = fb[0].value
    ctx.check(not isinstance(v, ast.DictComp), fi, fb[0], "a block's owners are all known (not only the last one listed)",
              "functions_by_block is a dict comprehension `block: func.uuid`, so for a block listed in two functions the last function wins, and the red-zone decision (is_leaf) is taken "
              "for that one alone: with owners (non-leaf A, leaf B) and RewritingContext(m, [B, A]) the prologue omits the red-zone skip and `push` overwrites B's data at -8(%rsp)",
              key="C16.K::shared-block-last-owner-wins")


@rule("C17.K", ["C17"], "every integer, callee name and convention the statement quantifies over yields a correct call (known gaps)", 3)
def c17_k(ctx: Ctx):
    repo = ctx.repo
    fi = repo.func("patches.calls._CallPatchX86.get_asm")
    t = src(fi.node)
    ctx.check("2 ** 31" in t or "0x7fffffff" in t.lower() or "1 << 31" in t, fi, fi.node, "x86-64: a stack argument outside the signed 32-bit range is pushed in two halves (there is no push imm64)",
              "integer arguments that go to the stack are emitted as `push <value>` whatever their size: CallPatch(foo, [1,2,3,4,5,6,0x80000000]) on x86-64 makes apply() fail with "
              "AsmSyntaxError in the patch's own text, although the same value is fine in a register",
              key="C17.K::push-imm64")
    quoted = all('"{' in src(n) or "'{" in src(n) for n in ast.walk(fi.node) if isinstance(n, ast.JoinedStr) and ".name" in src(n))
    ctx.check(quoted, fi, fi.node, "symbol names are quoted when they are pasted into assembly text",
              "`call {self._sym.name}` and `{arg_value.name}[rip]` paste the name unquoted: a callee named `?hook@@YAXH@Z` (MSVC mangling) cannot be assembled, and a callee named `rbx` "
              "silently becomes an indirect `call rbx`",
              key="C17.K::unquoted-symbol-names")
    ia = repo.func("abi._IA32._create_prologue_and_epilogue")
    ta = src(ia.node)
    ctx.check("lea -8(%esp)" in ta.replace(" ", " ") or "stack_alignment" in t and "align_stack" in t and "ValueError" in t, ia, ia.node,
              "with align_stack the call happens on a stack aligned to the *convention's* alignment",
              "the IA32 align_stack snippet is the x64 one with 4-byte pushes (`and $-0x10` then two pushes = 8 mod 16) and CallPatch adds no padding when stack_adjustment is None: with "
              "CallingConventionDesc((), 16, True) the call always executes at esp = 8 mod 16 (and a 32-byte alignment on x86-64 is only honoured to 16)",
              key="C17.K::align-stack-custom-alignment")


@rule("C18.K", ["C18"], "return edges follow a retargeted call (known gap)", 1)
def c18_k(ctx: Ctx):
    fi = ctx.repo.func("_modify.retarget._retarget_out_edges")
    ctx.check(_any(fi, "return_edges", "Return"), fi, fi.node, "moving a Call edge also moves the callee's Return edge for that call site",
              "_retarget_out_edges only calls update_edge on Branch/Call edges: after retargeting A to B in `call A; ret`, the Call edge leads to B, but A's block still returns to the call "
              "site and B's block does not (replace_at(..., 'call B') does produce the right CFG)",
              key="C18.K::return-edges-not-retargeted")


@rule("C20.K", ["C20"], "a retarget of a block without references is a no-op whatever happened before (known gap)", 1)
def c20_k(ctx: Ctx):
    fi = ctx.repo.func("_modify.cache.ReferenceCache.retarget_references")
    lin = linear(fi.node)
    early = [g for g in lin.stmts if isinstance(g.node, ast.Return) and g.node.value is None]
    if not early:
        raise AnalysisError("retarget_references: early return not found")
    from ..astx import f_show

    test = f_show(early[0].guard)
    ctx.check("block in self._references" not in test, fi, early[0].node, "'has indirect references' means the trees hold a symbol, not that the key exists",
              "the no-op test is `not any(block.references) and block not in self._references`, but get_referent()/set_referent() empty a tree without dropping the (start, end) pair: "
              "s->A; retarget(A,B); set_referent(s, None); retarget(B, None) hits `assert to_block` although B has no reference at all (a fresh cache treats the same call as a no-op)",
              key="C20.K::empty-trees-count-as-references")


# ----------------------------------------------------------------------------- second hunt round


def _layout_call(ctx: Ctx, key: str, why: str):
    pr = ctx.repo.func("prepare.prepare_for_rewriting")
    lay = [c for c in calls_in(pr.node) if src(c.func) == "layout_module"]
    if not lay:
        raise AnalysisError("prepare_for_rewriting: layout_module call not found")
    ctx.check(False, pr, lay[-1], "the re-layout after a rewrite keeps what the IR already fixed (interval order, addresses of untouched nodes, integral symbols)", why, key=key)


@rule("C01.K2", ["C01"], "edits at the very end of a section and patches without text bytes are applied (or refused before anything changes); re-layout keeps surviving bytes in order (known gaps)", 3)
def c01_k2(ctx: Ctx):
    repo = ctx.repo
    cl = repo.func("_modify.edit._cleanup_modified_blocks")
    a = [n for n in walk_no_nested(cl.node) if isinstance(n, ast.Assert) and "all((b.size for b in blocks))" in src(n.test).replace("all(b.size", "all((b.size").replace("blocks)", "blocks))").replace(")))", "))")]
    a = [n for n in walk_no_nested(cl.node) if isinstance(n, ast.Assert) and "b.size for b in blocks" in src(n.test) and src(n.test).startswith("all(")]
    ctx.check(not a, cl, a[0] if a else cl.node, "an empty block that must stay (incoming branch, nothing behind it) is kept, as delete() keeps it",
              "`assert all(b.size for b in blocks)`: a patch that ends in a jump-target label (`jne .Lskip; nop; .Lskip:`) inserted at the end of the last code block of a section leaves an empty block "
              "that can be neither joined nor removed, and apply() dies on this bare assertion half-way",
              key="C01.K::label-at-section-end")
    ins = repo.func("_modify.edit.insert")
    a2 = [n for n in walk_no_nested(ins.node) if isinstance(n, ast.Assert) and src(n.test) == "text_section.data"]
    ctx.check(not a2, ins, a2[0] if a2 else ins.node, "a patch that assembles to no text bytes (only a label, only a CFI directive, only `.data` content, b'') is a no-op insert / a plain deletion",
              "`assert text_section.data`: insert_at/replace_at with `here:`, `.cfi_undefined 0`, b'' or a patch that only adds a .data variable (documented use) dies with AssertionError/IndexError",
              key="C01.K::empty-text-patch")
    _layout_call(ctx, "C01.K::relayout-reorders-intervals",
                 "when an edit makes two intervals overlap, gtirb_layout.layout_module (dependency, called here) re-addresses the whole module iterating `Section.byte_intervals`, a set: five adjacent "
                 "one-block intervals in .data come back permuted after insert_at(first, 4, b'\\xaa') - surviving bytes are reordered")


@rule("C02.K2", ["C02"], "a zero-sized block nested in another block is nobody's predecessor (known gap)", 1)
def c02_k2(ctx: Ctx):
    fi = ctx.repo.func("_modify.cache.ModifyCache.adjacent_blocks")
    ctx.check(_any(fi, ".size", ".offset", ".address"), fi, fi.node, "adjacent_blocks skips blocks that are enclosed by another block",
              "adjacency is the raw neighbour in an ordering by start address: a zero-sized block that sits *inside* block a (apply() creates one for an address-valued symbol a+1) is reported as the "
              "predecessor of the next block b; delete_at(b, 0, 2) then 'cleans up' that block and its label jumps over untouched bytes (or b's labels land inside a)",
              key="C02.K::nested-block-as-predecessor")


@rule("C03.K2", ["C03"], "return edges follow calls that deletions move; a patch `ret` in a called function returns to its callers; padding code is in the CFG (known gaps)", 3)
def c03_k2(ctx: Ctx):
    repo = ctx.repo
    ri = repo.func("_modify.remove._retarget_incoming_edges")
    ctx.check(_any(ri, "return_edges", "_is_call_edge", "Return"), ri, ri.node, "moving an incoming Call edge to another function's block also moves the callee's return edges",
              "_retarget_incoming_edges re-points every incoming edge the same way: after delete_at(callee_block, 0, 1) the call (and the label) lead to the next function's block, whose `ret` "
              "keeps Return->proxy instead of returning to the call's return site",
              key="C03.K::call-moved-by-deletion")
    up = repo.func("_modify.edit._update_patch_return_edges_to_match")
    ctx.check(_any(up, "_is_call_edge", "incoming_edges"), up, up.node, "a patch `ret` in a function without a return of its own gets its targets from the calls into the function",
              "return targets are copied from the function's *existing* Return edges only; `worker: nop; jmp helper` (tail jump) plus insert_at(worker, 1, 'ret') leaves the new ret with Return->proxy "
              "although main calls worker",
              key="C03.K::ret-in-function-without-ret")
    jb = repo.func("intervalutils.join_byte_intervals")
    ctx.check(_any(jb, "cfg", "Edge("), jb, jb.node, "alignment padding that becomes a CodeBlock of nops is linked into the CFG",
              "insert_padding creates a CodeBlock for nop padding and nothing touches the CFG: after insert_at(A, 0, 'nop') with 16-aligned A and B, A still has Fallthrough->B across a 15-nop block "
              "that has no edges and is in no function",
              key="C03.K::padding-block-outside-cfg")


@rule("C05.K2", ["C05"], "integral symbols survive a re-layout where they were; a deleted self-loop leaves nothing behind (known gaps)", 2)
def c05_k2(ctx: Ctx):
    _layout_call(ctx, "C05.K::integral-symbol-after-relayout",
                 "the re-layout after the rewrite runs gtirb_layout's assign_integral_symbols against stale addresses: an address-valued symbol pointing into the gap between .text and .data "
                 "(0x1004) is attached to a new zero-sized CodeBlock in the middle of the 9 nops that were inserted into .text")
    cr = ctx.repo.func("_modify.remove._can_remove_block")
    ctx.check(_any(cr, "edge.source is not block", "edge.source is block", "edge.source != block", "block != edge.source", "block is not edge.source"), cr, cr.node,
              "the block's own outgoing jump to itself does not count as incoming control flow",
              "`not all(_is_fallthrough_edge(edge) for edge in block.incoming_edges)` also sees the block's own `jmp spin`: deleting `spin: jmp spin` (or both blocks of a loop) in front of data leaves "
              "a zero-sized CodeBlock with no incoming edge - none of the three cases of doc/Deletion.md",
              key="C05.K::self-loop-kept")


@rule("C12.K2", ["C12"], "GOT-relative operands and subsections (known gaps)", 2)
def c12_k2(ctx: Ctx):
    repo = ctx.repo
    fx = repo.func("assembler.assembler._Streamer._fixup_to_symbolic_operand")
    ctx.check(_any(fx, "global_offset_table", "GLOBAL_OFFSET_TABLE"), fx, fx.node, "LLVM's bias on `_GLOBAL_OFFSET_TABLE_` fixups is stripped like the PC-relative one",
              "only fixups flagged pc-relative are unwrapped; x86 gives `_GLOBAL_OFFSET_TABLE_` operands the kinds reloc_global_offset_table[8] with a bias of +fixup.offset: "
              "`leaq _GLOBAL_OFFSET_TABLE_(%rip), %r15` yields SymAddrConst(-4, ...), `movabsq $_GLOBAL_OFFSET_TABLE_, %r11` +2 - addends nobody wrote",
              key="C12.K::got-fixup-bias")
    cs = repo.func("assembler.assembler._Streamer.change_section")
    uses = [n for n in ast.walk(cs.node) if isinstance(n, ast.Name) and n.id == "subsection" and isinstance(n.ctx, ast.Load)]
    only_forwarded = all(any(n is a for c in calls_in(cs.node) if src(c.func).startswith("super()") for a in ast.walk(c)) for n in uses)
    ctx.check(bool(uses) and not only_forwarded, cs, cs.node, "a non-zero subsection is honoured or refused",
              "`subsection` is only passed on to the base class: `.text; nop; .text 1; L: .byte 1; .text; ret` yields 90 01 c3 with L at 1 (GNU as / llvm-mc: 90 c3 01, L at 2) without any diagnostic",
              key="C12.K::subsection-ignored")


@rule("C13.K2", ["C13"], "the label pre-pass sees the same conditionals as the real pass; an undefined temporary is never turned into an extern (known gaps)", 2)
def c13_k2(ctx: Ctx):
    repo = ctx.repo
    ea = repo.func("assembler.assembler._SymbolCreator.emit_assignment")
    ctx.check(_any(ea, "unhandled_event", "base_impl", "super()"), ea, ea.node, "assignments are forwarded to the MC layer in the pre-pass too",
              "the pre-pass swallows `sym = value`, so `.if`/`.ifdef` on a symbol assigned in the same text take different branches in the two passes: `mode = 1; .if mode == 0; fallback:; .endif; "
              "jmp fallback` binds to a phantom label in no section; a label defined once in each of .if/.else raises MultipleDefinitionsError",
              key="C13.K::prepass-conditionals")
    rs = repo.func("assembler.assembler._Streamer._resolve_symbol")
    ctx.check(_any(rs, "is_temporary"), rs, rs.node, "an unresolved *temporary* name is an error whatever allow_undef_symbols says",
              "with allow_undef_symbols any unknown name becomes a proxy-backed symbol, also LLVM-internal temporaries: AArch64 `ldr x0, =msg` produces an extern `.Ltmp0` and never references msg",
              key="C13.K::temporary-becomes-extern")


@rule("C15.K", ["C15", "C14"], "every DWARF operation the opcode table names can be decoded (known gap)", 1)
def c15_k(ctx: Ctx):
    repo = ctx.repo
    enum = repo.classes.get("dwarf.dwarf2.ExpressionOperations")
    if enum is None:
        raise AnalysisError("dwarf2.ExpressionOperations not found")
    names = {t.id for s in enum.node.body if isinstance(s, ast.Assign) for t in s.targets if isinstance(t, ast.Name)}
    used = set()
    for c in repo.classes.values():
        if c.mod.name == "dwarf.expr":
            for k, v in c.keywords().items():
                if k == "opcode" and isinstance(v, ast.Attribute):
                    used.add(v.attr)
    import re as _re

    def covered(n: str) -> bool:
        m = _re.fullmatch(r"(lit|reg|breg)(\d+)", n)
        return n in used or (m is not None and f"{m.group(1)}0" in used)  # lit0/reg0/breg0 classes embed the operand in the opcode

    missing = sorted(n for n in names if not covered(n))
    if len(names) < 60 or len(used) < 40:
        raise AnalysisError(f"opcode enumeration / registered classes not recognised ({len(names)}, {len(used)})")
    ctx.check(not missing, enum.mod, enum.node, "each named DW_OP has an Operation class",
              f"{len(missing)} named operations have no class ({', '.join(missing[:8])}...): a well-formed escaped expression that uses one (`.cfi_escape 0x0f,0x03,0x77,0x08,0x96` = breg7+8; nop) "
              "is reported as `invalid opcode byte` and yields no state",
              key="C15.K::unregistered-operations")


@rule("C16.K2", ["C16"], "leaf status is known for every function a patch can land in (known gap)", 1)
def c16_k2(ctx: Ctx):
    fi = ctx.repo.func("rewriting.RewritingContext._update_leaf_functions")
    loops = [n for n in walk_no_nested(fi.node) if isinstance(n, ast.For)]
    ctx.check(any("function_entries" in src(l.iter) or "function_blocks" in src(l.iter) or "build_functions" in src(l.iter) for l in loops), fi, fi.node,
              "leaf status is sampled for every function of the module's function tables, not only those passed to the context",
              "only `self._functions` is sampled before the first rewrite: RewritingContext(m, []) inserts a call into leaf function f, the next context computes f's status from the rewritten "
              "CFG, stores leafFunctions[f] = 0 and omits the red-zone skip - its `push` overwrites f's live -8(%rsp) slot",
              key="C16.K::leaf-status-of-unlisted-functions")


@rule("C18.K2", ["C18"], "A's kind (internal/external) is the one it had when the retarget was requested (known gap)", 1)
def c18_k2(ctx: Ctx):
    repo = ctx.repo
    fi = repo.func("_modify.retarget._retarget_sym_expr")
    v = single_assign_value(fi.node, "old_defined")
    rq = repo.func("rewriting.RewritingContext.retarget_symbol_uses")
    recorded = _any(rq, "defined", "isinstance(old_symbol.referent")
    ctx.check(v is None or "referent" not in src(v) or recorded, fi, v or fi.node, "definedness of A is recorded at request time",
              f"`old_defined = {src(v)[:70] if v else '?'}` is evaluated after the block edits: when the same rewrite deletes A's block to a proxy (delete_function(f) + retarget_symbol_uses(f, ext)) A looks "
              "external, no attribute rule matches the still-internal expressions, and `lea ext(%rip)` / `call ext` keep {} instead of {GOT,PCREL} / {PLT}",
              key="C18.K::definedness-after-deletion")
