"""C17 - CallPatch follows the calling convention and is stack-neutral."""

from __future__ import annotations

import ast
import itertools
from typing import Dict, List, Optional

from .. import tables
from ..astx import (
    calls_in,
    f_atoms,
    f_eval,
    f_show,
    linear,
    single_assign_value,
    src,
    walk_no_nested,
)
from ..core import AnalysisError, Ctx, FuncInfo, rule
from ..region import Unknown, minieval

X86 = "patches.calls._CallPatchX86."
A64 = "patches.calls._CallPatchARM64."
IMPL = "patches.calls._CallPatchImpl."


def _fstring(node: ast.expr) -> Optional[str]:
    if isinstance(node, ast.Constant) and isinstance(node.value, str):
        return node.value
    if isinstance(node, ast.JoinedStr):
        out = []
        for v in node.values:
            if isinstance(v, ast.Constant):
                out.append(str(v.value))
            elif isinstance(v, ast.FormattedValue):
                spec = ""
                if v.format_spec is not None:
                    spec = ":" + "".join(str(x.value) for x in v.format_spec.values if isinstance(x, ast.Constant))
                out.append("{" + src(v.value) + spec + "}")
        return "".join(out)
    return None


def _align_up(a, b):
    return (a + b - 1) // b * b


def straightline(fi: FuncInfo, env: Dict[str, object], names: List[str]) -> Dict[str, object]:
    """
    Abstractly run the scalar bookkeeping of a function for one sample: walk
    the statements in order, evaluate guards and right-hand sides of
    assignments to `names` with the checker's own evaluator. align_address is
    modelled as round-up-to-multiple.
    """
    lin = linear(fi.node)
    env = dict(env)

    def ev(e: ast.expr):
        class Pre(ast.NodeTransformer):
            def visit_Call(self, n):
                self.generic_visit(n)
                if isinstance(n.func, ast.Name) and n.func.id == "align_address" and len(n.args) == 2:
                    a, b = minieval(n.args[0], env), minieval(n.args[1], env)
                    return ast.Constant(_align_up(a, b))
                return n

        import copy

        return minieval(Pre().visit(copy.deepcopy(e)), env)

    for g in lin.stmts:
        tgt = None
        if isinstance(g.node, ast.Assign) and isinstance(g.node.targets[0], ast.Name):
            tgt = g.node.targets[0].id
        elif isinstance(g.node, ast.AugAssign) and isinstance(g.node.target, ast.Name):
            tgt = g.node.target.id
        if tgt is None or tgt not in names or g.loops:
            continue
        vals = {}
        try:
            for a in f_atoms(g.guard):
                vals[a] = bool(ev(ast.parse(a[0], mode="eval").body))
            if not f_eval(g.guard, vals):
                continue
            v = ev(g.node.value)
        except Unknown as exc:
            if tgt in env and isinstance(g.node, ast.Assign) and tgt in ("arg_stack_size",):
                continue  # provided by the sample
            raise AnalysisError(f"{fi.qual}: `{src(g.node)[:60]}` not interpretable: {exc}")
        if isinstance(g.node, ast.AugAssign):
            if isinstance(g.node.op, ast.Add):
                env[tgt] = env[tgt] + v
            elif isinstance(g.node.op, ast.Sub):
                env[tgt] = env[tgt] - v
            else:
                raise AnalysisError(f"{fi.qual}: unsupported augmented op in `{src(g.node)}`")
        else:
            env[tgt] = v
    return env


def emitted_lines(fi: FuncInfo):
    """lines.append(<f-string>) -> [(gstmt, template)]"""
    lin = linear(fi.node)
    out = []
    for g, c in lin.all_calls():
        if src(c.func) == "lines.append" and c.args:
            t = _fstring(c.args[0])
            if t is None:
                raise AnalysisError(f"{fi.qual}: emitted line at {c.lineno} is not a template")
            out.append((g, t, c))
    return lin, out


@rule("C17.1", ["C17"], "arguments take the convention's registers in order, the rest go to the stack last-to-first", 7)
def c17_1(ctx: Ctx):
    repo = ctx.repo
    fi = repo.func(IMPL + "_create_passed_args")
    t = " ".join(src(fi.node).split())
    ctx.check("remaining_regs = list(conv.registers)" in t, fi, fi.node, "registers are taken from the convention in its order", "register list source changed")
    ctx.check("self._PassedArg(arg, remaining_regs.pop(0) if remaining_regs else None)" in t, fi, fi.node,
              "the i-th argument gets the i-th register (pop(0)), later ones None (stack)", "register assignment changed (e.g. pop() takes the last register first)")
    loops = [n for n in walk_no_nested(fi.node) if isinstance(n, ast.For)]
    ctx.check(len(loops) == 1 and src(loops[0].iter) == "args", fi, fi.node, "arguments are visited in the order given", "iteration order changed")
    av = repo.func(IMPL + "_actual_value")
    writes = [n for n in ast.walk(av.node) if isinstance(n, (ast.Assign, ast.AugAssign, ast.AnnAssign))]
    ctx.check(not writes, av, writes[0] if writes else av.node, "_actual_value is pure: a callable argument is evaluated for every insertion",
              "the resolved value is stored: later insertions of the same patch object reuse the first site's value")
    rets = [n for n in walk_no_nested(av.node) if isinstance(n, ast.Return)]
    ctx.check(len(rets) == 1 and src(rets[0].value).replace(" ", "") == "arg.value(insertion_context)ifcallable(arg.value)elsearg.value", av, av.node,
              "callables receive the insertion context", "callable handling changed")
    fx = repo.func(X86 + "get_asm")
    loops = [n for n in walk_no_nested(fx.node) if isinstance(n, ast.For)]
    ctx.check(len(loops) == 1 and src(loops[0].iter) == "reversed(self._args)", fx, fx.node, "x86: arguments are pushed last-to-first", "push order changed")
    fa = repo.func(A64 + "get_asm")
    t = " ".join(src(fa.node).split())
    ctx.check("more_itertools.partition(lambda arg: arg.reg, reversed(self._args))" in t, fa, fa.node, "ARM64: stack/register arguments partitioned from the reversed list", "partition changed")
    slot = single_assign_value(fa.node, "slot")
    ok = False
    if slot is not None:
        try:
            ok = all(minieval(slot, {"len(stack_args)": n, "i": i}) == (n - 1 - i) * 8 for n in (1, 3) for i in range(n))
        except Unknown:
            ok = False
    ctx.check(ok, fa, slot or fa.node, "ARM64: the i-th of the reversed stack arguments goes to slot (n-1-i)*8 (first stack argument lowest)", f"slot = {src(slot) if slot else '?'}")


@rule("C17.2", ["C17"], "x86: the emitted code is stack-neutral and the call happens on an aligned stack", 40)
def c17_2(ctx: Ctx):
    repo = ctx.repo
    fi = repo.func(X86 + "get_asm")
    lin, lines = emitted_lines(fi)
    # emitted SP-changing lines and their guards
    sub_pad = [(g, t) for g, t, c in lines if t == "sub {stack_reg}, {stack_padding}"]
    sub_sh = [(g, t) for g, t, c in lines if t == "sub {stack_reg}, {self._cconv.shadow_space}"]
    add_cl = [(g, t) for g, t, c in lines if t == "add {stack_reg}, {cleanup_size}"]
    push = [(g, t) for g, t, c in lines if t == "push {arg_str}"]
    call = [(g, t) for g, t, c in lines if t == "call {self._sym.name}"]
    mov = [(g, t) for g, t, c in lines if t == "mov {arg.reg}, {arg_str}"]
    known = len(sub_pad) + len(sub_sh) + len(add_cl) + len(push) + len(call) + len(mov)
    ctx.check(known == len(lines) and len(sub_pad) == len(sub_sh) == len(add_cl) == len(push) == len(call) == len(mov) == 1, fi, fi.node,
              "the emitted line templates are the six known ones", f"templates: {[t for _, t, _ in lines]} (an unknown instruction may move the stack pointer)")
    if not (sub_pad and sub_sh and add_cl and push and call):
        return
    ctx.check(lin.under(sub_pad[0][0], "stack_padding") and lin.under(sub_sh[0][0], "self._cconv.shadow_space") and lin.under(add_cl[0][0], "cleanup_size"),
              fi, fi.node, "each adjustment line is emitted iff its amount is non-zero", "guards of the adjustment lines changed")
    ctx.check(lin.under(push[0][0], "not arg.reg") and lin.under(mov[0][0], "arg.reg"), fi, fi.node, "register arguments are moved, the others pushed", "changed")
    order = [sub_pad[0][0].index, push[0][0].index, sub_sh[0][0].index, call[0][0].index, add_cl[0][0].index]
    ctx.check(order == sorted(order), fi, fi.node, "order: padding, argument pushes, shadow space, call, cleanup", "emission order changed")
    ass = single_assign_value(fi.node, "arg_stack_size")
    ctx.check(ass is not None and src(ass).replace(" ", "") == "sum((stack_slot_sizeforarginself._argsifnotarg.reg))", fi, ass or fi.node,
              "arg_stack_size = one slot per stack argument", f"arg_stack_size = {src(ass) if ass else '?'}")
    names = ["total_stack_size", "stack_padding", "cleanup_size", "arg_stack_size"]
    n = 0
    for slot, nstack, shadow, align, adj, cc in itertools.product((4, 8), (0, 1, 3), (0, 4, 8, 32, 40), (4, 16), (None, 0, 4, 8, 12, 136), (True, False)):  # residues that are not their own negative mod the alignment (4, 12, 40) tell + from -
        env = {
            "stack_slot_size": slot,
            "arg_stack_size": slot * nstack,
            "self._cconv.shadow_space": shadow,
            "self._cconv.stack_alignment": align,
            "self._cconv.caller_cleanup": cc,
            "insertion_context.stack_adjustment": adj,
        }
        out = straightline(fi, env, names)
        pad, cl, args = out.get("stack_padding"), out.get("cleanup_size"), slot * nstack
        n += 1
        before_call = (adj or 0) + pad + args + shadow
        label = f"(slot={slot}, stack args={nstack}, shadow={shadow}, align={align}, prologue adj={adj}, caller_cleanup={cc})"
        key = f"C17.2::{slot}:{nstack}:{shadow}:{align}:{adj}:{cc}"
        if before_call % align != 0:
            ctx.fail(fi, fi.node, f"aligned at the call {label}",
                     f"at the call SP is displaced by {before_call} bytes from the (aligned) starting point, not a multiple of {align}: "
                     f"padding {pad} does not account for every decrement before the call", key=key + "::align")
        elif pad >= align or pad < 0:
            ctx.fail(fi, fi.node, f"minimal padding {label}", f"padding {pad} is not in [0, {align})", key=key + "::align")
        else:
            ctx.ok(fi, fi.node, f"aligned at the call {label}", key=key + "::align")
        popped_by_callee = 0 if cc else args
        net = -(pad + args + shadow) + popped_by_callee + cl
        ctx.check(net == 0, fi, fi.node, f"stack-neutral {label}",
                  f"SP ends {net:+d} bytes from where it started: cleanup {cl} vs padding {pad} + shadow {shadow}" + (f" + args {args}" if cc else " (callee pops the arguments)"),
                  key=key + "::neutral")
    if n < 100:
        raise AnalysisError("sample space too small")


@rule("C17.3", ["C17"], "ARM64: stack area is aligned, allocated before and released after the call", 5)
def c17_3(ctx: Ctx):
    repo = ctx.repo
    fi = repo.func(A64 + "get_asm")
    lin, lines = emitted_lines(fi)
    sa = single_assign_value(fi.node, "stack_adjustment")
    ctx.check(sa is not None and src(sa).replace(" ", "") == "align_address(len(stack_args)*8,self._cconv.stack_alignment)", fi, sa or fi.node,
              "stack area = 8 bytes per stack argument rounded up to the stack alignment", f"stack_adjustment = {src(sa) if sa else '?'}")
    sub = [(g, t) for g, t, c in lines if t == "sub sp, sp, #{stack_adjustment}"]
    add = [(g, t) for g, t, c in lines if t == "add sp, sp, #{stack_adjustment}"]
    bl = [(g, t) for g, t, c in lines if t == "bl {self._sym.name}"]
    st = [(g, t) for g, t, c in lines if t == "str {temp_reg}, [sp, #{slot}]"]
    ok = len(sub) == len(add) == len(bl) == len(st) == 1
    ctx.check(ok, fi, fi.node, "sub / stores / bl / add templates present once each", f"templates: {[t for _, t, _ in lines]}")
    if ok:
        ctx.check(lin.under(sub[0][0], "stack_adjustment") and lin.under(add[0][0], "stack_adjustment") and sub[0][0].guard == add[0][0].guard, fi, fi.node,
                  "the area is released iff it was allocated", "sub/add guards differ")
        ctx.check(sub[0][0].index < st[0][0].index < bl[0][0].index < add[0][0].index, fi, fi.node, "order: allocate, store arguments, call, release", "order changed")
        ctx.check(len(lines) == 4, fi, fi.node, "no other line touches sp", f"{len(lines)} appended templates")
    init = repo.func(A64 + "__init__")
    t = " ".join(src(init.node).split())
    ctx.check("if conv.shadow_space: raise ValueError" in t and "if conv.stack_alignment != 16: raise ValueError" in t, init, init.node,
              "ARM64 rejects shadow space and alignments other than 16", "constructor checks changed")
    ctx.check("clobbered_registers.add('x30')" in t and "if uses_stack: clobbered_registers.add('x0')" in t, init, init.node,
              "x30 (link register) and the x0 temporary are declared clobbered", "clobber declarations changed")


@rule("C17.4", ["C17"], "symbol arguments are passed as the symbol's address (address-forming templates)", 3)
def c17_4(ctx: Ctx):
    repo = ctx.repo
    fa = repo.func(A64 + "_load_symbol")
    ys = [_fstring(n.value) for n in walk_no_nested(fa.node) if isinstance(n, ast.Yield)]
    ctx.check(ys == ["adrp {reg}, {sym.name}", "add {reg}, {reg}, #:lo12:{sym.name}"], fa, fa.node, "ARM64: adrp + add :lo12: forms the address", f"templates {ys}")
    fx = repo.func(X86 + "get_asm")
    lin, lines = emitted_lines(fx)
    forms = {}
    for g in lin.stmts:
        if isinstance(g.node, ast.Assign) and src(g.node.targets[0]) == "arg_str" and lin.under(g, "isinstance(arg_value, gtirb.Symbol)"):
            fmt = "ELF" if lin.under(g, "file_format == gtirb.Module.FileFormat.ELF") else "PE"
            forms[fmt] = _fstring(g.node.value) or src(g.node.value)
    consumers = [t for _, t, _ in lines if "{arg_str}" in t]
    # Intel syntax: `mov r, sym[rip]` / `mov r, sym` / `push sym` are loads of the 8 bytes at the symbol;
    # the address-forming forms are `lea r, sym[rip]` / `mov r, offset sym`.
    loads = [c for c in consumers if c.startswith(("mov ", "push "))]
    is_addr = all(f.startswith("offset ") for f in forms.values()) or not loads
    ctx.check(is_addr, fx, fx.node, "x86: a symbol argument is materialised as an address",
              f"symbol operands {forms} are consumed by {loads}: in Intel syntax these read the memory *at* the symbol, so the callee receives the "
              "contents, not the address (the ARM64 back end passes the address)", key="C17.4::x86::symbol-operand")
    ctx.check(set(forms) == {"ELF", "PE"}, fx, fx.node, "ELF and PE forms present", f"forms {forms}")


@rule("C17.5", ["C17"], "ARM64 immediates: hex-formatted values are non-negative; movz always first", 6)
def c17_5(ctx: Ctx):
    repo = ctx.repo
    fi = repo.func(A64 + "_load_immediate")
    lin = linear(fi.node)
    ys = [g for g in lin.stmts if isinstance(g.node, ast.Expr) and isinstance(g.node.value, ast.Yield)]
    for g in ys:
        t = _fstring(g.node.value.value) or ""
        for v in (g.node.value.value.values if isinstance(g.node.value.value, ast.JoinedStr) else []):
            if isinstance(v, ast.FormattedValue) and v.format_spec is not None and "x" in "".join(str(x.value) for x in v.format_spec.values if isinstance(x, ast.Constant)):
                name = src(v.value)
                nonneg = False
                if lin.under(g, f"0 <= {name}") or lin.under(g, f"{name} >= 0"):
                    nonneg = True
                if not nonneg:
                    # chained comparison 0 <= value <= K is one atom
                    for a in f_atoms(g.guard):
                        try:
                            e = ast.parse(a[0], mode="eval").body
                        except SyntaxError:
                            continue
                        if isinstance(e, ast.Compare) and len(e.ops) == 2 and src(e.comparators[0]) == name and isinstance(e.ops[0], ast.LtE):
                            try:
                                lo = minieval(e.left, {})
                                if lo >= 0 and lin.under(g, a[0]):
                                    nonneg = True
                            except Unknown:
                                pass
                dv = single_assign_value(fi.node, name)
                if not nonneg and dv is not None and isinstance(dv, ast.BinOp) and isinstance(dv.op, ast.BitAnd):
                    try:
                        if minieval(dv.right, {}) >= 0:
                            nonneg = True  # x & non-negative mask is non-negative
                    except Unknown:
                        pass
                ctx.check(nonneg, fi, g.node, f"`{t}`: {name} is provably non-negative",
                          f"`{{{name}:x}}` formats a possibly negative value (e.g. '#0x-5', which does not assemble)", key=f"C17.5::_load_immediate::hex::{t}")
    movz = [g for g in ys if (_fstring(g.node.value.value) or "").startswith("movz")]
    movk = [g for g in ys if (_fstring(g.node.value.value) or "").startswith("movk")]
    ok = len(movz) == 1 and len(movk) == 1 and lin.under(movz[0], "shift == 0") and lin.under(movk[0], "shift != 0") and lin.under(movk[0], "chunk")
    if ok:
        extra = {a[0] for a in f_atoms(movz[0].guard) if not a[0].startswith("<")} - {"shift == 0"}
        extra = {e for e in extra if "value" not in e}
        ok = not extra
    ctx.check(ok, fi, fi.node, "the lowest 16 bits are always set with movz (clearing the register); higher chunks with movk only when non-zero",
              "movz is skipped for some values (e.g. when the low half-word is 0): the following movk instructions merge into stale register contents")
    loops = [n for n in walk_no_nested(fi.node) if isinstance(n, ast.For)]
    ctx.check(len(loops) == 1 and src(loops[0].iter).replace(" ", "") == "range(0,64,16)", fi, fi.node, "all four 16-bit chunks are considered", "chunk range changed")
    ch = single_assign_value(fi.node, "chunk")
    ctx.check(ch is not None and src(ch).replace(" ", "") == "value>>shift&65535", fi, ch or fi.node, "chunk = (value >> shift) & 0xFFFF", f"chunk = {src(ch) if ch else '?'}")
    small = [g for g in ys if (_fstring(g.node.value.value) or "").startswith("mov ")]
    ret = [g for g in lin.stmts if isinstance(g.node, ast.Return)]
    ctx.check(len(small) == 1 and len(ret) == 1 and ret[0].guard == small[0].guard and small[0].index < ret[0].index, fi, fi.node, "small values: single mov, then stop", "small-value path changed")


@rule("C17.7", ["C17", "C16"], "default calling conventions and caller-saved sets match the platform ABIs", 8)
def c17_7(ctx: Ctx):
    repo = ctx.repo
    for cname, (regs, align, cleanup, shadow) in sorted(tables.PLATFORM_CC.items()):
        ci = repo.cls(f"abi.{cname}")
        m = repo.method(ci, "calling_convention")
        if m is None:
            ctx.fail(ci.mod, ci.node, f"{cname}.calling_convention", "missing")
            continue
        cs = [c for c in calls_in(m.node) if src(c.func) == "CallingConventionDesc"]
        got = None
        if len(cs) == 1:
            kws = {k.arg: k.value for k in cs[0].keywords}
            try:
                got = (
                    tuple(e.value for e in kws["registers"].elts),  # type: ignore
                    minieval(kws["stack_alignment"], {}),
                    minieval(kws["caller_cleanup"], {}),
                    minieval(kws["shadow_space"], {}) if "shadow_space" in kws else 0,
                )
            except Exception:
                got = None
        ctx.check(got == (regs, align, cleanup, shadow), m, m.node, f"{cname} default convention = {regs}, align {align}, caller cleanup {cleanup}, shadow {shadow}",
                  f"{cname}.calling_convention() is {got}", key=f"C17.7::cc::{cname}")
    for cname, want in sorted(tables.CALLER_SAVED.items()):
        ci = repo.cls(f"abi.{cname}")
        m = repo.method(ci, "caller_saved_registers")
        names = set()
        if m is not None:
            for n in ast.walk(m.node):
                if isinstance(n, (ast.Tuple, ast.List)) and n.elts and all(isinstance(e, ast.Constant) and isinstance(e.value, str) for e in n.elts):
                    names |= {e.value for e in n.elts}
        ctx.check(names == want, m or ci.mod, (m.node if m else ci.node), f"{cname} caller-saved set = {sorted(want)}", f"caller-saved set is {sorted(names)}", key=f"C17.7::cs::{cname}")
    cp = repo.func("patches.calls.CallPatch.__init__")
    t = " ".join(src(cp.node).split())
    ctx.check("if not conv: abi = ABI.get(sym.module) conv = abi.calling_convention()" in t, cp, cp.node, "the ABI default convention is used when none is given", "default selection changed")
    ctx.check("gtirb.Module.ISA.IA32, gtirb.Module.ISA.X64" in t and "_CallPatchX86(" in t and "gtirb.Module.ISA.ARM64" in t and "_CallPatchARM64(" in t, cp, cp.node, "back end chosen by ISA", "dispatch changed")
    xi = repo.func(X86 + "__init__")
    t = " ".join(src(xi.node).split())
    for need in ("clobbers_flags=True", "align_stack=True", "preserve_caller_saved_registers=True", "clobbers_registers={arg.reg for arg in self._args if arg.reg}"):
        ctx.check(need in t, xi, xi.node, f"x86 call patch declares {need}", "constraint declaration changed")
