"""C03 - CFG equals the control flow of the edited listing (edge mechanisms)."""

from __future__ import annotations

import ast
import itertools
from typing import List

from ..astx import (
    TRUE,
    calls_in,
    f_show,
    implies,
    linear,
    names_in,
    single_assign_value,
    src,
    walk_no_nested,
)
from ..core import AnalysisError, Ctx, rule
from ..region import Unknown, minieval


def _edge_ctor_type(c: ast.Call) -> str:
    """gtirb.Edge(..., label=gtirb.Edge.Label(type=gtirb.Edge.Type.X)) -> X"""
    t = src(c)
    for k in ("Fallthrough", "Return", "Call", "Branch"):
        if f"Type.{k}" in t or f"EdgeType.{k}" in t:
            return k
    return "?"


@rule("C03.1", ["C03", "C11"], "split_block: which out-edges move to the tail, and when the connecting fallthrough is added", 7)
def c03_1(ctx: Ctx):
    fi = ctx.repo.func("_modify.split.split_block")
    lin = linear(fi.node)
    es = single_assign_value(fi.node, "end_split")
    ctx.check(es is not None and src(es).replace(" ", "") in ("offset==block.size", "block.size==offset"), fi, es or fi.node,
              "end_split == (offset == block.size)", f"end_split = {src(es) if es else '?'}")
    # it must be computed before block.size is changed
    g_es = lin.of(es) if es is not None else None
    size_set = [g for g in lin.stmts if isinstance(g.node, ast.Assign) and src(g.node.targets[0]) == "block.size"]
    ctx.check(g_es is not None and size_set and g_es.index < size_set[0].index, fi, fi.node,
              "end_split is evaluated before block.size is cut", "end_split is computed after block.size changed: every split looks like an end split")
    loops = [g for g in lin.stmts if isinstance(g.node, ast.For) and "block.outgoing_edges" in src(g.node.iter)]
    mid = [g for g in loops if lin.under(g, "not end_split")]
    end = [g for g in loops if lin.under(g, "end_split")]
    if len(mid) != 1 or len(end) != 1:
        raise AnalysisError(f"split_block: edge loops not recognised (mid={len(mid)}, end={len(end)})")
    # middle split: every out-edge moves
    m = mid[0].node
    e = src(m.target)
    ok = len(m.body) == 1 and isinstance(m.body[0], ast.Expr) and isinstance(m.body[0].value, ast.Call)
    if ok:
        c = m.body[0].value
        ok = src(c.func) == "update_edge" and src(c.args[0]) == e and any(k.arg == "source" and src(k.value) == "new_block" for k in c.keywords)
    ctx.check(ok, fi, m, "middle split: every outgoing edge moves to the tail (unfiltered)",
              f"loop body is `{' ; '.join(src(s) for s in m.body)}`: the terminator's edges must all leave from the tail")
    # end split: call edges -> return-edge update; fallthrough edges -> move; nothing else
    n = end[0].node
    e = src(n.target)
    arms = []
    st = n.body[0] if len(n.body) == 1 else None
    while isinstance(st, ast.If):
        arms.append((src(st.test), st.body))
        st = st.orelse[0] if len(st.orelse) == 1 else (None if not st.orelse else "other")
    ok_shape = len(n.body) == 1 and st is None and len(arms) == 2
    call_arm = [b for t, b in arms if t == f"_is_call_edge({e})"]
    ft_arm = [b for t, b in arms if t == f"_is_fallthrough_edge({e})"]
    ctx.check(ok_shape and len(call_arm) == 1 and len(ft_arm) == 1, fi, n,
              "end split: only call edges and fallthrough edges are touched",
              f"arms are {[t for t, _ in arms]} (+other statements: {st is not None}): branch/return edges of the terminator must stay on the head")
    if call_arm:
        c = [x for x in calls_in(ast.Module(body=call_arm[0], type_ignores=[]))]
        ok = len(c) == 1 and src(c[0].func) == "update_return_edges_from_changing_call_fallthrough" and \
            [src(a) for a in c[0].args] == ["cache", e, "fallthrough_targets", "new_block", "block.ir.cfg"]
        ctx.check(ok, fi, n, "end split: callee return edges are re-pointed from the old fallthrough targets to the tail",
                  f"call arm is `{' ; '.join(src(s) for s in call_arm[0])}`")
    if ft_arm:
        c = [x for x in calls_in(ast.Module(body=ft_arm[0], type_ignores=[]))]
        ok = len(c) == 1 and src(c[0].func) == "update_edge" and src(c[0].args[0]) == e and any(k.arg == "source" and src(k.value) == "new_block" for k in c[0].keywords)
        ctx.check(ok, fi, n, "end split: the fallthrough edge moves to the tail", f"fallthrough arm is `{' ; '.join(src(s) for s in ft_arm[0])}`")
    # fallthrough_targets computed before edges are moved
    ft = [g for g in lin.stmts if isinstance(g.node, ast.Assign) and src(g.node.targets[0]) == "fallthrough_targets"]
    ctx.check(len(ft) == 1 and src(ft[0].node.value) == "_block_fallthrough_targets(block)" and ft[0].index < end[0].index, fi,
              ft[0].node if ft else fi.node, "fallthrough targets are read before the edges move", "fallthrough_targets binding changed")
    # add_fallthrough table
    afs = [g for g in lin.stmts if isinstance(g.node, ast.Assign) and src(g.node.targets[0]) == "add_fallthrough"]
    ok = len(afs) == 2
    for g in afs:
        v = src(g.node.value)
        if lin.under(g, "not end_split"):
            ok = ok and v == "True"
        elif lin.under(g, "end_split"):
            ok = ok and v == "any(fallthrough_targets)"
        else:
            ok = False
    ctx.check(ok, fi, afs[0].node if afs else fi.node,
              "connecting fallthrough: always for a middle split, iff the block fell through for an end split",
              f"add_fallthrough assignments: {[src(g.node.value) for g in afs]}")
    adds = [(g, c) for g, c in lin.all_calls() if src(c.func) == "block.ir.cfg.add"]
    ok = len(adds) == 1 and lin.under(adds[0][0], "add_fallthrough") and lin.under(adds[0][0], "isinstance(block, gtirb.CodeBlock)")
    ctx.check(ok, fi, adds[0][1] if adds else fi.node, "the connecting edge is added exactly under add_fallthrough (code blocks only)",
              f"guard is {f_show(adds[0][0].guard) if adds else '?'}")
    ae = single_assign_value(fi.node, "added_fallthrough")
    edge_ctor = [g for g in lin.stmts if isinstance(g.node, ast.Assign) and src(g.node.targets[0]) == "added_fallthrough" and isinstance(g.node.value, ast.Call)]
    ok = len(edge_ctor) == 1
    if ok:
        c = edge_ctor[0].node.value
        kws = {k.arg: src(k.value) for k in c.keywords}
        ok = kws.get("source") == "block" and kws.get("target") == "new_block" and _edge_ctor_type(c) == "Fallthrough"
    ctx.check(ok, fi, edge_ctor[0].node if edge_ctor else fi.node, "the connecting edge is block -> new_block, Fallthrough",
              "the connecting edge has other endpoints or type")


@rule("C03.2", ["C03"], "update_edge = discard the old edge + add the replaced edge", 2)
def c03_2(ctx: Ctx):
    fi = ctx.repo.func("_modify.edges.update_edge")
    lin = linear(fi.node)
    d = [(g, c) for g, c in lin.all_calls() if src(c.func) == "old_cfg.discard"]
    a = [(g, c) for g, c in lin.all_calls() if src(c.func) == "new_cfg.add"]
    ok = len(d) == 1 and src(d[0][1].args[0]) == "edge" and d[0][0].top
    ctx.check(ok, fi, d[0][1] if d else fi.node, "old_cfg.discard(edge) unconditionally", "the old edge is not always removed: a moved edge would exist twice")
    ok = len(a) == 1 and src(a[0][1].args[0]) == "edge._replace(**kwargs)" and a[0][0].top
    ctx.check(ok, fi, a[0][1] if a else fi.node, "new_cfg.add(edge._replace(**kwargs)) unconditionally", "the replaced edge is not always added")
    dfl = [g for g in lin.stmts if isinstance(g.node, ast.Assign) and src(g.node.targets[0]) == "old_cfg"]
    ctx.check(len(dfl) == 1 and src(dfl[0].node.value) == "new_cfg" and lin.under(dfl[0], "old_cfg is None"), fi, dfl[0].node if dfl else fi.node,
              "old_cfg defaults to new_cfg", "default for old_cfg changed")


@rule("C03.3", ["C03"], "insert() stitches block -> patch and patch -> remainder with fallthrough edges", 6)
def c03_3(ctx: Ctx):
    fi = ctx.repo.func("_modify.edit.insert")
    lin = linear(fi.node)
    ufts = [(g, c) for g, c in lin.all_calls() if src(c.func) == "update_fallthrough_target"]
    ctx.check(len(ufts) == 2, fi, fi.node, "two stitching calls", f"{len(ufts)} update_fallthrough_target calls")
    head = [(g, c) for g, c in ufts if [src(a) for a in c.args] == ["cache", "cfg", "block", "text_section.blocks[0]"]]
    tail = [(g, c) for g, c in ufts if [src(a) for a in c.args] == ["cache", "cfg", "text_section.blocks[-1]", "end_block"]]
    ok = len(head) == 1 and lin.under(head[0][0], "added_fallthrough")
    ctx.check(ok, fi, head[0][1] if head else fi.node, "block falls through into the first patch block iff the split added a fallthrough",
              "head stitching call or its guard changed")
    if head:
        from ..astx import f_atoms

        extra = {a[0] for a in f_atoms(head[0][0].guard)} - {"added_fallthrough"}
        ctx.check(not extra, fi, head[0][1], "head stitching depends on nothing else", f"additional conditions: {sorted(extra)}")
    ok = len(tail) == 1 and lin.under(tail[0][0], "isinstance(end_block, gtirb.CodeBlock)") and lin.under(tail[0][0], "isinstance(text_section.blocks[-1], gtirb.CodeBlock)")
    ctx.check(ok, fi, tail[0][1] if tail else fi.node, "last patch block falls through into the remainder when both are code",
              "tail stitching call or its guard changed")
    if tail:
        from ..astx import f_atoms

        extra = {a[0] for a in f_atoms(tail[0][0].guard)} - {"isinstance(end_block, gtirb.CodeBlock)", "isinstance(text_section.blocks[-1], gtirb.CodeBlock)"}
        ctx.check(not extra, fi, tail[0][1], "tail stitching depends on nothing else", f"additional conditions: {sorted(extra)}")
    # added_fallthrough/end_block come from the split at `offset`
    sp = [g for g in lin.stmts if isinstance(g.node, ast.Assign) and isinstance(g.node.value, ast.Call) and src(g.node.value.func) == "split_block"]
    ok = bool(sp) and isinstance(sp[0].node.targets[0], ast.Tuple) and [src(e) for e in sp[0].node.targets[0].elts][1:] == ["end_block", "added_fallthrough"]
    ctx.check(ok, fi, sp[0].node if sp else fi.node, "(_, end_block, added_fallthrough) = split_block(cache, block, offset)", "split result unpacking changed")
    # return-edge preparation happens on the patch CFG, i.e. before that CFG is merged into the IR
    # (its position relative to the split is C03.15's business: an earlier version of this rule
    # pinned "before the split", which is exactly defect F34)
    pre = [(g, c) for g, c in lin.all_calls() if src(c.func) in ("_add_return_edges_for_patch_calls", "_update_patch_return_edges_to_match")]
    merge = [g for g, c in lin.all_calls() if src(c) == "cfg.update(code.cfg)"]
    ok = len(pre) == 2 and len(merge) == 1 and all(g.index < merge[0].index for g, _ in pre) and all(g.top or lin.under(g, "isinstance(block, gtirb.CodeBlock)") for g, _ in pre)
    ctx.check(ok, fi, fi.node, "patch call/return edges are prepared (once each) before the patch CFG is merged into the IR", "return-edge preparation missing, conditional or after the merge")
    upr = [(g, c) for g, c in pre if src(c.func) == "_update_patch_return_edges_to_match"]
    ctx.check(len(upr) == 1 and [src(a) for a in upr[0][1].args] == ["cache", "block", "code.cfg", "code.proxies"] and lin.under(upr[0][0], "isinstance(block, gtirb.CodeBlock)"),
              fi, upr[0][1] if upr else fi.node, "_update_patch_return_edges_to_match(cache, block, code.cfg, code.proxies) for code targets", "arguments/guard changed")
    # cfg.update(code.cfg)
    cu = [c for c in calls_in(fi.node) if src(c) == "cfg.update(code.cfg)"]
    ctx.check(len(cu) == 1, fi, cu[0] if cu else fi.node, "patch edges are merged into the module CFG", "cfg.update(code.cfg) missing")


@rule("C03.4", ["C03"], "a continuation block is appended iff the patch cannot simply continue in its last block", 4)
def c03_4(ctx: Ctx):
    fi = ctx.repo.func("rewriting.RewritingContext._invoke_patch")
    v = single_assign_value(fi.node, "needs_additional_block")
    if v is None:
        raise AnalysisError("_invoke_patch: needs_additional_block not found")
    for is_code, has_out in itertools.product((False, True), repeat=2):
        env = {
            "isinstance(last_block, gtirb.CodeBlock)": is_code,
            "any(result.cfg.out_edges(last_block))": has_out,
        }
        try:
            got = bool(minieval(v, env))
        except Unknown as exc:
            raise AnalysisError(f"needs_additional_block not interpretable: {exc}")
        want = (not is_code) or has_out
        ctx.check(got == want, fi, v, f"row (last is code={is_code}, has out-edges={has_out})",
                  f"needs_additional_block={got}, expected {want}: a patch ending in a terminator or data needs an empty code block for the remainder to attach to",
                  key=f"C03.4::{is_code}{has_out}")
    lin = linear(fi.node)
    app = [(g, c) for g, c in lin.all_calls() if src(c.func) == "result.text_section.blocks.append"]
    ok = len(app) == 1 and lin.under(app[0][0], "needs_additional_block")
    if ok:
        inner = app[0][1].args[0]
        ok = isinstance(inner, ast.Call) and src(inner.func) == "gtirb.CodeBlock" and any(
            k.arg == "offset" and src(k.value).replace(" ", "") == "last_block.offset+last_block.size" for k in inner.keywords)
    ctx.check(ok, fi, app[0][1] if app else fi.node, "the continuation block is an empty CodeBlock at the end of the patch", "continuation block construction changed")
    lb = single_assign_value(fi.node, "last_block")
    ctx.check(lb is not None and src(lb) == "result.text_section.blocks[-1]", fi, lb or fi.node, "last_block is the last text block", "last_block binding changed")


@rule("C03.6", ["C03"], "update_fallthrough_target / return-edge helpers keep callee return edges in step with the fallthrough", 6)
def c03_6(ctx: Ctx):
    repo = ctx.repo
    fi = repo.func("_modify.edges.update_fallthrough_target")
    lin = linear(fi.node)
    ot = [g for g in lin.stmts if isinstance(g.node, ast.Assign) and src(g.node.targets[0]) == "old_targets"]
    loops = [g for g in lin.stmts if isinstance(g.node, ast.For) and "source.outgoing_edges" in src(g.node.iter)]
    ok = len(ot) == 1 and src(ot[0].node.value) == "_block_fallthrough_targets(source)" and len(loops) == 1 and ot[0].index < loops[0].index
    ctx.check(ok, fi, fi.node, "old fallthrough targets are read before edges change", "old_targets binding/order changed")
    if loops:
        n = loops[0].node
        e = src(n.target)
        arms = {}
        st = n.body[0] if len(n.body) == 1 else None
        while isinstance(st, ast.If):
            arms[src(st.test)] = st.body
            st = st.orelse[0] if len(st.orelse) == 1 else None
        c_ok = f"_is_call_edge({e})" in arms and any(
            src(c.func) == "update_return_edges_from_changing_call_fallthrough" and [src(a) for a in c.args] == ["cache", e, "old_targets", "new_target", "cfg"]
            for s in arms[f"_is_call_edge({e})"] for c in calls_in(s))
        f_ok = f"_is_fallthrough_edge({e})" in arms and any(src(c) == f"cfg.discard({e})" for s in arms[f"_is_fallthrough_edge({e})"] for c in calls_in(s))
        ctx.check(c_ok, fi, n, "call edges: callee return edges re-pointed old targets -> new target", "call-edge arm changed")
        ctx.check(f_ok, fi, n, "old fallthrough edges are discarded", "fallthrough arm changed")
    adds = [(g, c) for g, c in lin.all_calls() if src(c.func) == "cfg.add"]
    ok = len(adds) == 1 and adds[0][0].top and _edge_ctor_type(adds[0][1]) == "Fallthrough"
    if ok:
        inner = adds[0][1].args[0]
        kws = {k.arg: src(k.value) for k in inner.keywords} if isinstance(inner, ast.Call) else {}
        ok = kws.get("source") == "source" and kws.get("target") == "new_target"
    ctx.check(ok, fi, adds[0][1] if adds else fi.node, "exactly one new fallthrough source -> new_target is added", "new fallthrough edge changed")

    # update_return_edges_from_changing_call_fallthrough: only edges that returned to the old targets move
    fu = repo.func("_modify.edges.update_return_edges_from_changing_call_fallthrough")
    lin = linear(fu.node)
    ue = [(g, c) for g, c in lin.all_calls() if src(c.func) == "update_edge"]
    ok = len(ue) == 1 and lin.under(ue[0][0], "edge.target in fallthrough_targets") and any(k.arg == "target" and src(k.value) == "new_fallthrough" for k in ue[0][1].keywords)
    ctx.check(ok, fu, ue[0][1] if ue else fu.node, "a return edge moves iff it targeted an old fallthrough target", "filter or new target changed")
    inner_loops = [g for g in lin.stmts if isinstance(g.node, ast.For)]
    ok = any("block_return_edges(target_block)" in src(g.node.iter) for g in inner_loops) and any("_get_function_blocks" in src(g.node.iter) for g in inner_loops)
    ctx.check(ok, fu, fu.node, "every block of the callee and each of its return edges is visited", "loops over the callee's blocks/return edges changed")


@rule("C03.7", ["C03", "C06", "C11"], "every for-loop variable is used by its loop body (a wrong variable in the body is the classic slip)", 1)
def c03_7(ctx: Ctx):
    """Generic lint over the package (flake8-bugbear B007 restricted to plain names)."""
    n_loops = 0
    exceptions = {
        # (function qual, variable): reason
    }
    for q, fi in sorted(ctx.repo.funcs.items()):
        if q in ("utils.show_block_asm", "rewriting.RewritingContext._log_patch_error"):
            continue  # diagnostic printers: their loops only feed logging calls, which the loader drops
        for n in walk_no_nested(fi.node):
            if not isinstance(n, (ast.For, ast.AsyncFor)):
                continue
            tnames = [x.id for x in ast.walk(n.target) if isinstance(x, ast.Name)]
            if all(isinstance(st, ast.Pass) for st in n.body):
                continue  # the body only logged (logging calls are dropped by the loader)
            used = set()
            for st in n.body:
                for x in ast.walk(st):
                    if isinstance(x, ast.Name):
                        used.add(x.id)
            n_loops += 1
            for t in tnames:
                if t.startswith("_") or t in used:
                    continue
                if (q, t) in exceptions:
                    continue
                # tuple targets where at least one component is used are fine
                if len(tnames) > 1 and any(x in used for x in tnames):
                    continue
                ctx.fail(fi, n, f"loop variable `{t}` over `{src(n.iter)[:60]}`",
                         f"the body never uses `{t}`: every iteration does the same thing (probably a different variable was meant)")
    ctx.ok(ctx.repo.mod("_modify.edit"), None, f"{n_loops} for-loops scanned", nontrivial=False, key="C03.7::scan")
