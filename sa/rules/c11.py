"""C11 - rewriting is deterministic: nothing output-relevant depends on set iteration order."""

from __future__ import annotations

import ast
import re
from typing import Dict, List, Optional, Set, Tuple

from ..astx import calls_in, linear, single_assign_value, src, walk_no_nested
from ..core import AnalysisError, Ctx, FuncInfo, Repo, rule
from .c09 import rewrite_scope

# Expressions that denote an unordered collection (gtirb node sets, Python sets).
UNORDERED = re.compile(
    r"(\b_?module\.symbols\b|\.byte_blocks\b|\b(bi|interval|destination|byte_interval|new_interval)\.blocks\b"
    r"|\b_?module\.sections\b|\b_?module\.byte_intervals\b|\.proxies\b|\.incoming_edges\b|\.outgoing_edges\b"
    r"|\.references\b|get_references\(|(?<![\w.])set\(|(?<![\w.])frozenset\(|_get_function_blocks\(|block_return_edges\(|block_proxy_return_edges\("
    r"|caller_saved_registers\(\)|\.in_edges\(|\.out_edges\(|symbol_lookup\(|symbols_named\(|\bnew_cfg\b|(?<![\w])ir\.cfg\b|\.code_blocks\b"
    r"|get_all_blocks\(|get_entry_blocks\(|get_exit_blocks\(|\.symbols\s*$|\.children\b|_block_fallthrough_targets\()"
)
SET_NAMES_FROM = ("set(", "{")  # local names bound to set displays / set() are unordered too

# Sites whose order-sensitivity was read and judged harmless: (function, normalised iterable) -> reason
EXCEPTIONS: Dict[Tuple[str, str], str] = {
    ("_modify.cache.ReferenceCache._make_direct_refs", "tuple(node.symbols)"):
        "yields symbols in set order; every consumer is commutative (split_block's label loop, any(...) tests, mi.consume)",
    ("_modify.cache.ReferenceCache._make_direct_refs", "tuple(node.children)"):
        "worklist order over tree children only changes the traversal order of the same flattening",
    ("_modify.cache.ReferenceCache._has_indirect_references", "node.children"):
        "worklist of a pure search whose only result is a boolean (is there any symbol in the trees): traversal order cannot show",
    ("prepare.prepare_for_rewriting", "tuple(module.byte_intervals)"):
        "partitions are appended in set order but each partition is joined independently; the list order never reaches the output",
    ("_modify.cache.ReferenceCache.get_references", "block.references"):
        "yield from the direct references: consumers are commutative (see _make_direct_refs)",
}


def _exception_for(q: str, text: str) -> Optional[str]:
    """EXCEPTIONS look-up; the reviewed judgement about ReferenceCache's trees holds for the class, whichever method walks them."""
    e = EXCEPTIONS.get((q, text))
    if e:
        return e
    inner = text
    for w in ("tuple(", "list("):
        if inner.startswith(w) and inner.endswith(")"):
            inner = inner[len(w):-1]
    if q.startswith("_modify.cache.ReferenceCache.") and inner.endswith((".children", ".symbols")):
        return ("ReferenceCache walks its reference trees in set order; the only observable result is the order in which symbols are made direct / yielded, "
                "and every consumer of that is commutative (reviewed for _make_direct_refs, holds for any walk of the same trees)")
    return None


# first-match sites whose key is assumed unique (printed as an assumption, not a finding)
ASSUMED_UNIQUE: Dict[Tuple[str, str], str] = {
    # (section lookups by name were listed here as "names are unique" until a module with two `.text` /
    #  two `.mydata` sections showed the result varying between runs: they are findings now, F70)
    ("_modify.edit._add_return_edges_for_patch_calls", "new_cfg"): "the assembler emits at most one fallthrough edge per block (dict keyed by edge.source)",
}


def scope_functions(repo: Repo) -> List[str]:
    cone, _, _ = rewrite_scope(repo)
    extra = [
        q for q in repo.funcs
        if q.startswith((
            "prepare.", "intervalutils.", "_modify.", "rewriting.RewritingContext.apply", "rewriting._CFIProcedureTracker",
            "rewriting._ModificationStore", "abi.ABI._allocate", "utils.", "rewriting.RewritingContext.get_or_insert_extern_symbol",
        ))
    ]
    return sorted((cone | set(extra)) - {q for q in cone if q.startswith("driver.")})


_SET_FIELDS: Dict[int, set] = {}


def _set_typed_fields() -> set:
    """Names of class-level fields the package declares as `Set[...]` (dataclass fields such as Constraints.clobbers_registers)."""
    from .. import core

    repo = core.CURRENT_REPO
    if repo is None:
        return set()
    if id(repo) not in _SET_FIELDS:
        names = set()
        for c in repo.classes.values():
            for st in c.node.body:
                if isinstance(st, ast.AnnAssign) and isinstance(st.target, ast.Name) and src(st.annotation).startswith(("Set[", "FrozenSet[", "AbstractSet[", "typing.Set[", "set[")):
                    names.add(st.target.id)
        _SET_FIELDS.clear()
        _SET_FIELDS[id(repo)] = names
    return _SET_FIELDS[id(repo)]




def _class_enumerated_table(fi: FuncInfo, table: ast.AST) -> bool:
    """`self.<table>` that the class fills as `<table>[elem] = i` inside `for i, elem in enumerate(...)`: an injective position map."""
    if not (isinstance(table, ast.Attribute) and isinstance(table.value, ast.Name) and table.value.id == "self" and fi.cls is not None):
        return False
    for m in fi.cls.methods.values():
        for lp in [x for x in ast.walk(m.node) if isinstance(x, ast.For)]:
            if isinstance(lp.iter, ast.Call) and src(lp.iter.func) == "enumerate" and isinstance(lp.target, ast.Tuple) and isinstance(lp.target.elts[0], ast.Name):
                idx = lp.target.elts[0].id
                for a in ast.walk(lp):
                    if isinstance(a, ast.Assign) and isinstance(a.targets[0], ast.Subscript) and src(a.targets[0].value) == src(table) and isinstance(a.value, ast.Name) and a.value.id == idx:
                        return True
    return False


def _moved_sort_finding(ctx: Ctx, fi: FuncInfo, fn: str, a0: ast.AST, kt: str, k: str) -> str:
    """A recorded tie-prone sort that a refactoring moved into another function of the same module (same call, same kind of
    source collection, same key text) is still the recorded finding, provided it is gone from the function it was recorded in."""
    from .. import core

    known = [f for f in core.load_known_findings() if f.get("rule") == "C11.1" and f.get("status") == "known" and "::by::" in f.get("key", "")]
    if any(f["key"] == k for f in known):
        return k
    tail = src(a0).split(".")[-1][:40]
    for f in known:
        q0, fn0, rest = f["key"].split("::", 2)
        src0, kt0 = rest.split("::by::", 1)
        if fn0 != fn or kt0 != kt[:50] or src0.split(".")[-1][:40] != tail:
            continue
        f0 = ctx.repo.funcs.get(q0)
        same_module = (f0.mod is fi.mod) if f0 is not None else q0.startswith(fi.mod.name + ".")
        if not same_module:
            continue
        still_there = f0 is not None and any(isinstance(c, ast.Call) and isinstance(c.func, ast.Name) and c.func.id == fn0 and c.args and src(c.args[0])[:60] == src0 for c in ast.walk(f0.node))
        if not still_there:
            return f["key"]
    return k


def _is_unordered(fi: FuncInfo, e: ast.expr) -> bool:
    t = src(e)
    if UNORDERED.search(t):
        return True
    if isinstance(e, ast.Attribute) and e.attr in _set_typed_fields():
        return True
    # local name bound (only) to set displays / set(...) / set comprehensions
    if isinstance(e, ast.Name):
        from ..astx import find_assign

        a = find_assign(fi.node, e.id)

        def set_valued(v: ast.AST) -> bool:
            if isinstance(v, (ast.Set, ast.SetComp)) or (isinstance(v, ast.Call) and src(v.func) in ("set", "frozenset")):
                return True
            # set algebra: `set(xs) - {y}`, `a | b` with a set-valued operand
            return isinstance(v, ast.BinOp) and isinstance(v.op, (ast.Sub, ast.BitOr, ast.BitAnd, ast.BitXor)) and (set_valued(v.left) or set_valued(v.right))

        if a and all(set_valued(x.value) for x in a if x.value is not None):
            return True
        # bound to a set on *some* path (`xs = ordered; if c: xs = set(xs) - {y}`): the loop may run in set order
        if a and any(x.value is not None and isinstance(x.value, ast.BinOp) and set_valued(x.value) for x in a):
            return True
        # bound (only) to calls of package functions that are declared to return a set
        if a and all(x.value is not None and _returns_set(x.value) for x in a):
            return True
    if isinstance(e, ast.Call) and _returns_set(e):
        return True
    return False


def _returns_set(call: ast.expr) -> bool:
    from .. import core

    if not (isinstance(call, ast.Call) and isinstance(call.func, (ast.Name, ast.Attribute))):
        return False
    name = call.func.id if isinstance(call.func, ast.Name) else call.func.attr
    repo = core.CURRENT_REPO
    if repo is None:
        return False
    cands = [f for q, f in repo.funcs.items() if q.split(".")[-1] == name and f.node.returns is not None]
    return bool(cands) and all(src(f.node.returns).startswith(("Set[", "FrozenSet[", "AbstractSet[", "set[", "typing.Set[")) for f in cands)


def _strip_wrappers(e: ast.expr) -> ast.expr:
    while isinstance(e, ast.Call) and isinstance(e.func, ast.Name):
        if e.func.id in ("tuple", "list", "iter", "enumerate", "reversed") and len(e.args) >= 1:
            e = e.args[0]
        elif e.func.id in ("map", "filter") and len(e.args) == 2:
            e = e.args[1]   # order-preserving views of their second argument
        else:
            break
    return e


def _body_order_effects(fi: FuncInfo, loop: ast.For) -> List[str]:
    """Why the loop body depends on iteration order (empty list = commutative)."""
    why: List[str] = []
    body_nodes = [n for st in loop.body for n in ast.walk(st)]
    inner_loops = [n for n in body_nodes if isinstance(n, (ast.For, ast.While))]

    def in_inner(n):
        return any(n is not l and any(n is x for x in ast.walk(l)) for l in inner_loops)

    for n in body_nodes:
        if isinstance(n, ast.Break) and not in_inner(n):
            why.append("break (first match wins)")
        if isinstance(n, ast.Return):
            why.append("return inside the loop (first match wins)")
        if isinstance(n, (ast.Yield, ast.YieldFrom)):
            why.append("yields in iteration order")
        if isinstance(n, ast.Call) and isinstance(n.func, ast.Attribute) and n.func.attr in ("append", "extend", "insert", "appendleft"):
            recv = src(n.func.value)
            # appending to a list that lives inside the loop iteration is fine
            root = recv.split(".")[0].split("[")[0]
            assigned_in_body = any(isinstance(x, ast.Assign) and any(isinstance(t, ast.Name) and t.id == root for t in x.targets) for x in body_nodes)
            if not assigned_in_body:
                # D.setdefault(K, []).append(V) / D[K].append(V) with K depending on the loop element and V not: every
                # element feeds its *own* list (or none twice), so the set order decides nothing inside any list
                recv_node = n.func.value
                kexpr = None
                if isinstance(recv_node, ast.Call) and isinstance(recv_node.func, ast.Attribute) and recv_node.func.attr == "setdefault" and recv_node.args:
                    kexpr = recv_node.args[0]
                elif isinstance(recv_node, ast.Subscript):
                    kexpr = recv_node.slice
                if kexpr is not None and n.func.attr == "append" and n.args:
                    tv = {t.id for t in ast.walk(loop.target) if isinstance(t, ast.Name)}
                    knames = {x.id for x in ast.walk(kexpr) if isinstance(x, ast.Name)}
                    vnames = {x.id for x in ast.walk(n.args[0]) if isinstance(x, ast.Name)}
                    if tv & knames and not (tv & vnames):
                        continue
                if isinstance(n.func.value, ast.Name) and not getattr(_body_order_effects, "_busy", False):
                    _body_order_effects._busy = True  # type: ignore[attr-defined]
                    try:
                        local = any(isinstance(x, (ast.Assign, ast.AnnAssign)) and any(isinstance(t, ast.Name) and t.id == recv for t in (x.targets if isinstance(x, ast.Assign) else [x.target]))
                                    for x in walk_no_nested(fi.node))
                        free = local and _only_consumed_order_free(fi, recv, (loop.end_lineno or loop.lineno) + 1)
                    finally:
                        _body_order_effects._busy = False  # type: ignore[attr-defined]
                    if free:
                        continue
                why.append(f"{recv}.{n.func.attr}(...) builds a list in iteration order")
        if isinstance(n, ast.AugAssign) and isinstance(n.target, ast.Name):
            assigned_in_body = any(isinstance(x, ast.Assign) and any(isinstance(t, ast.Name) and t.id == n.target.id for t in x.targets) for x in body_nodes)
            if not assigned_in_body and isinstance(n.op, (ast.Add,)) and not (isinstance(n.value, ast.Constant)):
                pass  # sums are commutative
            if not assigned_in_body and isinstance(n.op, ast.Add) and isinstance(n.value, (ast.List, ast.Tuple, ast.ListComp, ast.JoinedStr)):
                why.append(f"{n.target.id} += sequence (order-dependent concatenation)")
    # last-writer into a mapping: `D[K] = V` where K is *derived* from the element through a call/look-up (several elements can share it)
    # and V depends on the element: for colliding keys the element visited last wins
    tv = {t.id for t in ast.walk(loop.target) if isinstance(t, ast.Name)}
    derived: Dict[str, ast.AST] = {}
    for x in body_nodes:
        if isinstance(x, ast.Assign) and len(x.targets) == 1 and isinstance(x.targets[0], ast.Name) and any(isinstance(c, ast.Call) for c in ast.walk(x.value)) \
                and tv & {y.id for y in ast.walk(x.value) if isinstance(y, ast.Name)}:
            derived[x.targets[0].id] = x.value
    for x in body_nodes:
        if isinstance(x, ast.Assign) and len(x.targets) == 1 and isinstance(x.targets[0], ast.Subscript) and isinstance(x.targets[0].value, ast.Name):
            d, k = x.targets[0].value.id, x.targets[0].slice
            d_local_to_body = any(isinstance(y, ast.Assign) and any(isinstance(t, ast.Name) and t.id == d for t in y.targets) for y in body_nodes)
            if d_local_to_body or not isinstance(k, ast.Name) or k.id not in derived or k.id in tv:
                continue
            vnames = {y.id for y in ast.walk(x.value) if isinstance(y, ast.Name)}
            dep = vnames & (tv | (set(derived) - {k.id}))
            if dep:
                why.append(f"{d}[{k.id}] = ... keeps the last element for a key looked up from the element (`{src(derived[k.id])[:40]}`)")
    # last-writer: plain names assigned in the body and read after the loop
    assigned = {t.id for x in body_nodes if isinstance(x, ast.Assign) for t in x.targets if isinstance(t, ast.Name)}
    if assigned:
        after = False
        # loads of a name that an enclosing comprehension binds itself are not uses of the local
        shadowed = set()
        for comp in ast.walk(fi.node):
            if isinstance(comp, (ast.ListComp, ast.SetComp, ast.DictComp, ast.GeneratorExp)):
                bound = {t.id for g in comp.generators for t in ast.walk(g.target) if isinstance(t, ast.Name)}
                shadowed |= {id(x) for x in ast.walk(comp) if isinstance(x, ast.Name) and x.id in bound}
        for n in walk_no_nested(fi.node):
            if id(n) in shadowed:
                continue
            if getattr(n, "lineno", 0) > (loop.end_lineno or 0) and isinstance(n, ast.Name) and isinstance(n.ctx, ast.Load) and n.id in assigned:
                # reassigned before use after the loop?
                re_assigned = any(
                    isinstance(x, ast.Assign) and any(isinstance(t, ast.Name) and t.id == n.id for t in x.targets)
                    and (loop.end_lineno or 0) < x.lineno <= n.lineno
                    for x in walk_no_nested(fi.node)
                ) or any(
                    isinstance(x, (ast.For, ast.AsyncFor)) and any(isinstance(t, ast.Name) and t.id == n.id for t in ast.walk(x.target))
                    and (loop.end_lineno or 0) < x.lineno <= n.lineno
                    for x in walk_no_nested(fi.node)
                )
                accum = any(
                    isinstance(x, ast.Assign) and any(isinstance(t, ast.Name) and t.id == n.id for t in x.targets)
                    and n.id in {y.id for y in ast.walk(x.value) if isinstance(y, ast.Name)}
                    for x in body_nodes
                )
                consts = [x.value for x in body_nodes if isinstance(x, ast.Assign) and any(isinstance(t, ast.Name) and t.id == n.id for t in x.targets)]
                flag = bool(consts) and all(isinstance(c, ast.Constant) for c in consts) and len({repr(c.value) for c in consts}) == 1
                if not re_assigned and not accum and not flag:
                    why.append(f"`{n.id}` keeps the value of the last iteration and is used after the loop")
                    break
    return sorted(set(why))


def _holder_name(par, node) -> Optional[str]:
    """`L = <node>` / `L: T = <node>` -> "L"."""
    if isinstance(par, ast.Assign) and par.value is node and len(par.targets) == 1 and isinstance(par.targets[0], ast.Name):
        return par.targets[0].id
    if isinstance(par, ast.AnnAssign) and par.value is node and isinstance(par.target, ast.Name):
        return par.target.id
    return None


_ORDER_FREE_CONSUMERS = {"len", "set", "frozenset", "any", "all", "sum", "sorted", "bool", "dict"}


def _only_consumed_order_free(fi: FuncInfo, name: str, after_line: int, depth: int = 0) -> bool:
    """Is every later use of the local sequence `name` insensitive to its element order?
    (iterated by loops with commutative bodies, membership/len/any/all/sorted-with-key-judged-elsewhere, truth tests.)
    Anything else - returned, yielded, stored, indexed, passed to another call - counts as order-sensitive."""
    parents: Dict[int, ast.AST] = {}
    for n in walk_no_nested(fi.node):
        for c in ast.iter_child_nodes(n):
            parents[id(c)] = n
    uses = [n for n in walk_no_nested(fi.node) if isinstance(n, ast.Name) and n.id == name and isinstance(n.ctx, ast.Load) and n.lineno >= after_line]
    if not uses:
        return True
    # `L.sort(key=<total key>)` fixes the order: whatever happens afterwards is deterministic
    for u in sorted(uses, key=lambda x: x.lineno):
        par = parents.get(id(u))
        gp = parents.get(id(par)) if par is not None else None
        if isinstance(par, ast.Attribute) and par.attr == "sort" and isinstance(gp, ast.Call) and gp.func is par:
            fake = ast.Call(func=ast.Name(id="sorted", ctx=ast.Load()), args=[u], keywords=gp.keywords)
            if _key_is_total(fi, fake)[0]:
                uses = [x for x in uses if x.lineno < u.lineno]
            break
    for u in uses:
        par = parents.get(id(u))
        # order-preserving wrappers: filter(pred, L), enumerate(L), reversed(L), iter(L), tuple(L), list(L)
        while isinstance(par, ast.Call) and isinstance(par.func, ast.Name) and par.func.id in ("filter", "enumerate", "reversed", "iter", "tuple", "list") and u in par.args:
            u, par = par, parents.get(id(par))
        # for x in L: <commutative body>
        if isinstance(par, (ast.For, ast.AsyncFor)) and par.iter is u:
            if _body_order_effects(fi, par):
                return False
            continue
        if isinstance(par, ast.comprehension) and par.iter is u:
            comp = next((c for c in walk_no_nested(fi.node) if isinstance(c, (ast.SetComp, ast.DictComp, ast.GeneratorExp, ast.ListComp)) and par in c.generators), None)
            cpar = parents.get(id(comp)) if comp is not None else None
            if isinstance(comp, (ast.SetComp, ast.DictComp)):
                continue
            if isinstance(cpar, ast.Call) and isinstance(cpar.func, ast.Name) and cpar.func.id in _ORDER_FREE_CONSUMERS | {"min", "max"}:
                continue
            if isinstance(cpar, ast.Call) and isinstance(cpar.func, ast.Attribute) and cpar.func.attr in ("update", "difference_update", "intersection_update", "union"):
                continue
            return False
        if isinstance(par, ast.Call) and u in par.args and isinstance(par.func, ast.Name) and par.func.id in _ORDER_FREE_CONSUMERS:
            continue
        if isinstance(par, ast.Call) and u in par.args and isinstance(par.func, ast.Attribute) and par.func.attr in ("update", "difference_update", "intersection_update", "union", "issubset", "issuperset"):
            continue
        if isinstance(par, ast.Compare) and any(isinstance(o, (ast.In, ast.NotIn)) for o in par.ops) and u in par.comparators:
            continue
        if isinstance(par, (ast.If, ast.While, ast.IfExp, ast.Assert)) and par.test is u:
            continue
        if isinstance(par, ast.UnaryOp) and isinstance(par.op, ast.Not):
            continue
        if isinstance(par, ast.BoolOp):
            continue
        # the sequence's own building calls: L.append(x) / L.extend(...)
        if isinstance(par, ast.Attribute) and par.value is u and par.attr in ("append", "extend", "add", "update", "sort"):
            continue
        return False
    return True


def _key_is_total(fi: FuncInfo, call: ast.Call) -> Tuple[bool, str]:
    key = None
    for k in call.keywords:
        if k.arg == "key":
            key = k.value
    if key is None:
        a0 = call.args[0] if call.args else None
        if call.func.id in ("min", "max") and isinstance(a0, ast.GeneratorExp) and isinstance(a0.elt, (ast.BinOp, ast.Attribute, ast.Call, ast.Constant)):  # type: ignore[attr-defined]
            tv = {n.id for g in a0.generators for n in ast.walk(g.target) if isinstance(n, ast.Name)}
            if not (isinstance(a0.elt, ast.Name) and a0.elt.id in tv):
                # min/max of derived scalar values: whichever element attains it, the *value* returned is the same
                return True, "aggregates derived values (the result is a value, not an element)"
        return False, "no key (elements compared directly)"
    if isinstance(key, ast.Lambda):
        body = key.body
        t = src(body)
        if ".uuid" in t or "id(" in t:
            return True, "key contains a per-object unique component"
        if isinstance(body, ast.Subscript) and isinstance(body.value, ast.Name):
            v = single_assign_value(fi.node, body.value.id)
            if v is not None and isinstance(v, ast.DictComp) and "enumerate(" in src(v):
                return True, "key is the element's position in an enumerated list (injective)"
            if v is not None and _class_enumerated_table(fi, v):
                return True, "key is the element's position in an enumerated list recorded by the class (injective)"
        if isinstance(body, ast.Subscript) and _class_enumerated_table(fi, body.value):
            return True, "key is the element's position in an enumerated list recorded by the class (injective)"
        return False, f"key `{t}` can tie for distinct elements"
    if isinstance(key, ast.Name):
        # a local `def key(x): return table[x]` / `key = lambda ...` / `table.__getitem__`
        for d in ast.walk(fi.node):
            if isinstance(d, ast.FunctionDef) and d is not fi.node and d.name == key.id:
                rets = [r for r in ast.walk(d) if isinstance(r, ast.Return) and r.value is not None]
                if len(rets) == 1 and d.args.args:
                    lam = ast.Lambda(args=d.args, body=rets[0].value)
                    fake = ast.Call(func=call.func, args=call.args, keywords=[ast.keyword(arg="key", value=lam)])
                    return _key_is_total(fi, fake)
        v = single_assign_value(fi.node, key.id)
        if isinstance(v, (ast.Lambda, ast.Attribute)):
            fake = ast.Call(func=call.func, args=call.args, keywords=[ast.keyword(arg="key", value=v)])
            return _key_is_total(fi, fake)
    if isinstance(key, ast.Attribute) and key.attr in ("__getitem__", "get", "index") and isinstance(key.value, (ast.Name, ast.Attribute)):
        tv = single_assign_value(fi.node, key.value.id) if isinstance(key.value, ast.Name) else None
        if key.attr == "index" or (tv is not None and isinstance(tv, ast.DictComp) and "enumerate(" in src(tv)):
            return True, "key is the element's position in an ordered list (injective)"
        # self.<table>.__getitem__ where the class fills <table>[elem] = i inside `for i, elem in enumerate(...)`
        if isinstance(key.value, ast.Attribute) and isinstance(key.value.value, ast.Name) and key.value.value.id == "self" and fi.cls is not None:
            for m in fi.cls.methods.values():
                for lp in [x for x in ast.walk(m.node) if isinstance(x, ast.For)]:
                    if isinstance(lp.iter, ast.Call) and src(lp.iter.func) == "enumerate" and isinstance(lp.target, ast.Tuple) and isinstance(lp.target.elts[0], ast.Name):
                        idx = lp.target.elts[0].id
                        for a in ast.walk(lp):
                            if isinstance(a, ast.Assign) and isinstance(a.targets[0], ast.Subscript) and src(a.targets[0].value) == src(key.value) and isinstance(a.value, ast.Name) and a.value.id == idx:
                                return True, "key is the element's position in an enumerated list recorded by the class (injective)"
    return False, f"key `{src(key)}` can tie for distinct elements"


@rule("C11.1", ["C11"], "iteration over unordered collections only feeds commutative effects (or is explicitly sorted with a total key)", 50)
def c11_1(ctx: Ctx):
    repo = ctx.repo
    n_sites = 0
    for q in scope_functions(repo):
        fi = repo.funcs[q]
        parents: Dict[int, ast.AST] = {}
        for n in walk_no_nested(fi.node):
            for c in ast.iter_child_nodes(n):
                parents[id(c)] = n
        counter: Dict[str, int] = {}

        def key_for(kind, it):
            base = f"{q}::{kind}::{src(it)[:80]}"
            k = counter.get(base, 0)
            counter[base] = k + 1
            return f"{base}#{k}"

        for n in walk_no_nested(fi.node):
            # for loops
            if isinstance(n, (ast.For, ast.AsyncFor)):
                inner = _strip_wrappers(n.iter)
                if isinstance(inner, ast.Call) and isinstance(inner.func, ast.Name) and inner.func.id == "sorted":
                    continue  # explicitly ordered; the key is judged at the sorted() call
                if not _is_unordered(fi, inner):
                    continue
                n_sites += 1
                why = _body_order_effects(fi, n)
                k = key_for("for", n.iter)
                if not why:
                    ctx.ok(fi, n, f"for over `{src(n.iter)[:60]}`: commutative body", key=k)
                    continue
                exc = _exception_for(q, src(n.iter))
                if exc:
                    ctx.ok(fi, n, f"for over `{src(n.iter)[:60]}`: exception", exc + f" [{'; '.join(why)}]", key=k, nontrivial=False)
                    continue
                ctx.fail(fi, n, f"for over `{src(n.iter)[:60]}`",
                         f"the loop iterates an unordered collection and its body depends on the order: {'; '.join(why)}. "
                         "gtirb nodes hash by identity, so this order changes from run to run", key=k)
            # comprehensions / generator expressions
            if isinstance(n, (ast.ListComp, ast.GeneratorExp, ast.DictComp)):
                for gen in n.generators:
                    inner = _strip_wrappers(gen.iter)
                    if not _is_unordered(fi, inner):
                        continue
                    n_sites += 1
                    par = parents.get(id(n))
                    consumer = src(par.func) if isinstance(par, ast.Call) and any(a is n for a in par.args) else None
                    k = key_for(type(n).__name__, gen.iter)
                    if isinstance(n, ast.DictComp):
                        au = ASSUMED_UNIQUE.get((q, src(gen.iter)))
                        if au:
                            ctx.assume(f"{q}: dict comprehension over `{src(gen.iter)}` - {au}")
                            ctx.ok(fi, n, f"dict comprehension over `{src(gen.iter)[:50]}`: keys assumed unique", au, key=k, nontrivial=False)
                        else:
                            # keys derived from the element: last writer wins only on key collisions
                            ctx.ok(fi, n, f"dict comprehension over `{src(gen.iter)[:50]}`", "keyed by the element", key=k)
                        continue
                    if consumer in ("any", "all", "sum", "set", "frozenset", "len") or (consumer or "").endswith((".update", ".add", ".difference_update", ".union", ".intersection", ".difference", ".isdisjoint", ".issubset", ".issuperset", ".intersection_update", ".symmetric_difference")):
                        ctx.ok(fi, n, f"{type(n).__name__} over `{src(gen.iter)[:50]}` consumed by {consumer}", key=k)
                    elif consumer == "next":
                        au = ASSUMED_UNIQUE.get((q, src(gen.iter)))
                        if au:
                            ctx.assume(f"{q}: first match over `{src(gen.iter)}` - {au}")
                            ctx.ok(fi, n, f"first match over `{src(gen.iter)[:50]}`: key assumed unique", au, key=k, nontrivial=False)
                        else:
                            # the filter is part of the identity of the finding: a wider filter matches more elements
                            tv = src(gen.target)
                            filt = " and ".join(sorted(re.sub(rf"\b{re.escape(tv)}\b", "_", src(f)) for f in gen.ifs)) if isinstance(gen.target, ast.Name) else " and ".join(sorted(src(f) for f in gen.ifs))
                            # keyed by module + construct (not by function): the idiom keeps its identity when a refactoring moves it
                            fm_key = f"{fi.mod.name}::first-match::{src(gen.iter)[:60]}::if::{filt[:90]}"
                            # ... but a *second* site with the same construct in the module is a new finding, not the recorded one
                            fm_seen = ctx.__dict__.setdefault("_first_match_seen", {})
                            fm_seen[fm_key] = fm_seen.get(fm_key, 0) + 1
                            if fm_seen[fm_key] > 1:
                                fm_key += f"::#{fm_seen[fm_key]}"
                            ctx.fail(fi, n, f"first match over `{src(gen.iter)[:50]}` where `{filt[:70]}`",
                                     "next(...) over an unordered collection: when several elements match, which one is returned changes from run to run",
                                     key=fm_key)
                    elif consumer in ("min", "max", "sorted"):
                        pass  # handled at the call
                    else:
                        holder = _holder_name(par, n)
                        if holder is not None and _only_consumed_order_free(fi, holder, par.lineno + 1):
                            ctx.ok(fi, n, f"{type(n).__name__} over `{src(gen.iter)[:50]}` bound to `{holder}`", "every later use of the sequence is order-insensitive", key=k)
                            continue
                        if isinstance(par, (ast.For, ast.AsyncFor)) and par.iter is n and not _body_order_effects(fi, par):
                            ctx.ok(fi, n, f"{type(n).__name__} over `{src(gen.iter)[:50]}` iterated by a commutative loop", key=k)
                            continue
                        ctx.fail(fi, n, f"{type(n).__name__} over `{src(gen.iter)[:50]}`",
                                 f"builds an ordered sequence from an unordered collection (consumer: {consumer or 'none'})", key=k)
            # calls
            if isinstance(n, ast.Call) and isinstance(n.func, ast.Name) and n.args:
                fn = n.func.id
                a0 = n.args[0]
                src_unordered = _is_unordered(fi, _strip_wrappers(a0)) or (
                    isinstance(a0, ast.GeneratorExp) and any(_is_unordered(fi, _strip_wrappers(g.iter)) for g in a0.generators))
                if not src_unordered:
                    continue
                if fn in ("min", "max", "sorted"):
                    n_sites += 1
                    ok, why = _key_is_total(fi, n)
                    kw = next((x.value for x in n.keywords if x.arg == "key"), None)
                    kt = src(kw.body if isinstance(kw, ast.Lambda) else kw) if kw is not None else "<natural>"
                    # the sort key is part of the finding's identity: a different (non-total) key ties on different inputs
                    k = f"{q}::{fn}::{src(a0)[:60]}::by::{kt[:50]}"
                    if not ok:
                        k = _moved_sort_finding(ctx, fi, fn, a0, kt, k)
                    ctx.check(ok, fi, n, f"{fn}(`{src(a0)[:50]}`, key=...)",
                              f"{why}: ties are broken by set iteration order, so blocks that share the key (same address/offset: overlapping or zero-sized blocks) "
                              "come out in a different order from run to run", reason_ok=why, key=k)
                elif fn == "next" and not isinstance(a0, ast.GeneratorExp):
                    n_sites += 1
                    k = f"{q}::next::{src(a0)[:60]}"
                    ctx.fail(fi, n, f"next(`{src(a0)[:50]}`)",
                             "takes the first element of an unordered collection: with several candidates (e.g. two symbols of one name) the choice changes from run to run", key=k)
                elif fn in ("list", "tuple"):
                    par = parents.get(id(n))
                    if isinstance(par, (ast.For, ast.AsyncFor)) and par.iter is n:
                        continue
                    if isinstance(par, ast.comprehension):
                        continue
                    n_sites += 1
                    holder = _holder_name(par, n)
                    if holder is not None and _only_consumed_order_free(fi, holder, par.lineno + 1):
                        ctx.ok(fi, n, f"{fn}(`{src(a0)[:50]}`) bound to `{holder}`", "a snapshot whose every later use is order-insensitive", key=f"{q}::{fn}::{src(a0)[:60]}")
                        continue
                    exc = _exception_for(q, src(n))
                    if exc:
                        ctx.ok(fi, n, f"{fn}(`{src(a0)[:50]}`): exception", exc, key=f"{q}::{fn}::{src(a0)[:60]}", nontrivial=False)
                        continue
                    ctx.fail(fi, n, f"{fn}(`{src(a0)[:50]}`)", "materialises an unordered collection as a sequence that is used as such", key=f"{q}::{fn}::{src(a0)[:60]}")
            if isinstance(n, ast.Call) and isinstance(n.func, ast.Attribute) and n.func.attr == "extend" and n.args and _is_unordered(fi, _strip_wrappers(n.args[0])):
                n_sites += 1
                exc = _exception_for(q, src(n.args[0]))
                if exc:
                    ctx.ok(fi, n, f"{src(n.func.value)}.extend(`{src(n.args[0])[:40]}`): exception", exc, key=f"{q}::extend::{src(n.args[0])[:60]}", nontrivial=False)
                    continue
                ctx.fail(fi, n, f"{src(n.func.value)}.extend(`{src(n.args[0])[:40]}`)", "extends a list with an unordered collection", key=f"{q}::extend::{src(n.args[0])[:60]}")
    if n_sites < 50:
        raise AnalysisError(f"only {n_sites} unordered-iteration sites recognised (expected about 80): the source classifier went blind")
    # positive fixture
    fx = ast.parse("def f(block):\n    out = []\n    for e in block.outgoing_edges:\n        out.append(e)\n    return out\n")
    fxf = FuncInfo("fixture.f", "f", fx.body[0], repo.mod("_modify.split"))  # type: ignore
    lp = [x for x in ast.walk(fx) if isinstance(x, ast.For)][0]
    if not (_is_unordered(fxf, lp.iter) and _body_order_effects(fxf, lp)):
        raise AnalysisError("C11.1 positive fixture not recognised")


@rule("C11.3", ["C11", "C13"], "patch ids advance only for patches that produced assembly, before their suffix is formed", 4)
def c11_3(ctx: Ctx):
    repo = ctx.repo
    rc = repo.cls("rewriting.RewritingContext")
    writers = []
    for m in rc.methods.values():
        for n in ast.walk(m.node):
            tgt = None
            if isinstance(n, ast.AugAssign):
                tgt = n.target
            elif isinstance(n, ast.Assign):
                tgt = n.targets[0]
            if tgt is not None and src(tgt) == "self._patch_id":
                writers.append((m, n))
    ok = len(writers) == 2 and {m.name for m, _ in writers} == {"__init__", "_invoke_patch"}
    ctx.check(ok, rc.methods["__init__"], None, "_patch_id is written only in __init__ (0) and _invoke_patch (+= 1)", f"writers: {[(m.name, src(n)) for m, n in writers]}")
    ip = rc.methods["_invoke_patch"]
    lin = linear(ip.node)
    inc = [g for g in lin.stmts if isinstance(g.node, ast.AugAssign) and src(g.node.target) == "self._patch_id"]
    early = [g for g in lin.stmts if isinstance(g.node, ast.Return) and lin.under(g, "not asm")]
    asm = [(g, c) for g, c in lin.all_calls() if isinstance(c.func, ast.Name) and c.func.id == "Assembler"]
    ok = len(inc) == 1 and src(inc[0].node.value) == "1" and len(early) == 1 and early[0].index < inc[0].index and len(asm) == 1 and inc[0].index < asm[0][0].index and inc[0].nest == 0
    ctx.check(ok, ip, inc[0].node if inc else ip.node, "increment after the `no assembly` early return and before the assembler is created",
              "patch id increment moved: empty patches would consume ids, or two patches would share a suffix")
    if asm:
        kw = {k.arg: src(k.value) for k in asm[0][1].keywords}
        ctx.check(kw.get("temp_symbol_suffix") == "f'_{self._patch_id}'", ip, asm[0][1], "temporary labels get the suffix _<patch id>", f"suffix is {kw.get('temp_symbol_suffix')}")
    ga = [(g, c) for g, c in lin.all_calls() if src(c.func) == "patch.get_asm"]
    ctx.check(len(ga) == 1 and inc and ga[0][0].index < inc[0].index, ip, ip.node, "the patch callback runs before the id is taken", "order changed")


@rule("C11.4", ["C11"], "no run-dependent value (id, hash, time, randomness, directory order) feeds the rewrite", 1)
def c11_4(ctx: Ctx):
    repo = ctx.repo
    banned = re.compile(r"^(id|hash|random\.\w+|time\.\w+|os\.listdir|os\.scandir|glob\.glob|datetime\.\w+(\.\w+)?|uuid\.uuid1|secrets\.\w+)$")
    allowed = {
        ("_modify.cache.make_return_cache._weak_cfg_hash", "hash"): "xor-reduced (order independent) and only used to detect modification of the original CFG",
        ("_adt.identity_set.IdentitySet.__contains__", "id"): "identity set keyed by id(): membership only",
        ("_adt.identity_set.IdentitySet.add", "id"): "identity set keyed by id(): insertion order preserved by the dict",
        ("_adt.identity_set.IdentitySet.discard", "id"): "identity set keyed by id()",
    }
    n = 0
    scope = set(scope_functions(repo)) | {q for q in repo.funcs if q.startswith(("_adt.", "_modify.cache."))}
    for q in sorted(scope):
        fi = repo.funcs[q]
        for c in calls_in(fi.node):
            t = src(c.func)
            if banned.match(t):
                n += 1
                exc = allowed.get((q, t))
                if exc:
                    ctx.ok(fi, c, f"{t}(...) : exception", exc, nontrivial=False, key=f"{q}::{t}")
                else:
                    ctx.fail(fi, c, f"{t}(...)", "a value that differs from run to run is used inside the rewrite", key=f"{q}::{t}")
    ctx.ok(repo.mod("rewriting"), None, f"{len(scope)} functions scanned, {n} calls to run-dependent sources", nontrivial=False, key="C11.4::scan")
    if not banned.match("id") or not banned.match("random.choice"):
        raise AnalysisError("C11.4 fixture")
