"""C20 - internal containers behave like their simple abstract models (structural part)."""

from __future__ import annotations

import ast
import os
from pathlib import Path
from typing import Dict, List, Optional, Set

from ..astx import (
    TRUE,
    calls_in,
    f_show,
    implies,
    linear,
    src,
    walk_no_nested,
)
from ..core import AnalysisError, Ctx, rule


def _installed_gtirb_cfg() -> ast.ClassDef:
    cands = [
        Path("/venv/lib/python3.12/site-packages/gtirb/cfg.py"),
    ]
    import glob

    cands += [Path(p) for p in glob.glob("/venv/lib/python*/site-packages/gtirb/cfg.py")]
    for p in cands:
        if p.exists():
            tree = ast.parse(p.read_text())
            for n in tree.body:
                if isinstance(n, ast.ClassDef) and n.name == "CFG":
                    return n
    raise AnalysisError("installed gtirb/cfg.py (class CFG) not found")


@rule("C20.1", ["C20", "C09"], "ReturnEdgeCache overrides every storage-writing method of gtirb.CFG and keeps both indexes in step", 6)
def c20_1(ctx: Ctx):
    repo = ctx.repo
    cfg = _installed_gtirb_cfg()
    storage_attr = "_nxg"
    writers: Set[str] = set()
    delegating: Dict[str, Set[str]] = {}
    for m in cfg.body:
        if not isinstance(m, ast.FunctionDef) or m.name.startswith("__") and m.name != "__init__":
            continue
        for c in calls_in(m):
            f = c.func
            if isinstance(f, ast.Attribute) and src(f.value) == f"self.{storage_attr}" and f.attr in (
                "add_edge", "remove_edge", "clear", "add_edges_from", "remove_edges_from", "remove_node", "add_node", "update"
            ):
                writers.add(m.name)
            if isinstance(f, ast.Attribute) and src(f.value) == "self" and f.attr in ("add", "discard", "clear", "update"):
                delegating.setdefault(m.name, set()).add(f.attr)
    writers.discard("__init__")
    if not {"add", "discard", "clear"} <= writers:
        raise AnalysisError(f"installed gtirb.CFG writers not recognised: {sorted(writers)}")
    cls = repo.cls("_modify.cache.ReturnEdgeCache")
    for w in sorted(writers):
        ctx.check(w in cls.methods, cls.methods.get(w) or cls.methods["__init__"], None,
                  f"gtirb.CFG.{w} (writes the edge storage) is overridden",
                  f"ReturnEdgeCache does not override CFG.{w}: edges changed through it never reach the return-edge indexes")
    for name, calls in sorted(delegating.items()):
        if name in writers or name == "__init__":
            continue
        ctx.check(calls <= set(cls.methods) | {"update"}, cls.methods["__init__"], None,
                  f"gtirb.CFG.{name} mutates only through overridden methods {sorted(calls)}",
                  f"CFG.{name} delegates to {sorted(calls)} which are not all overridden")
    # each override: calls super() unconditionally, updates both indexes symmetrically
    idx = ["_return_edges", "_proxy_return_edges"]
    for w in ("add", "discard", "clear"):
        m = cls.methods.get(w)
        if m is None:
            continue
        lin = linear(m.node)
        sup = [(g, c) for g, c in lin.all_calls() if src(c.func) == f"super().{w}"]
        ctx.check(len(sup) == 1 and sup[0][0].top, m, m.node, f"{w}: super().{w}(...) unconditionally",
                  f"{w} does not always update the underlying CFG")
        text = src(m.node)
        for i in idx:
            ctx.check(f"self.{i}" in text, m, m.node, f"{w}: touches self.{i}", f"{w} does not maintain {i}")
    add, disc = cls.methods.get("add"), cls.methods.get("discard")
    if add and disc:
        def guards(m, what):
            lin = linear(m.node)
            out = {}
            for g, c in lin.all_calls():
                t = src(c)
                for i in idx:
                    if f"self.{i}" in t and (what in t):
                        out[i] = g.guard
            return out

        ga = guards(add, ".add(")
        gd = guards(disc, "_dict_set_discard(")
        for i in idx:
            a, d = ga.get(i), gd.get(i)
            ok = a is not None and d is not None and _strip(a) == _strip(d)
            ctx.check(ok, disc, disc.node, f"add and discard update {i} under the same condition",
                      f"add updates {i} under {f_show(a) if a else 'never'}, discard under {f_show(d) if d else 'never'}: the index drifts from the CFG")
        la = linear(add.node)
        ra = [g for g, c in la.all_calls() if "self._return_edges" in src(c)]
        ctx.check(bool(ra) and all(la.under(g, "_is_return_edge(edge)") for g in ra), add, add.node,
                  "only return edges enter the index", "non-return edges can enter the return-edge index")
        pa = [g for g, c in la.all_calls() if "self._proxy_return_edges" in src(c)]
        ctx.check(bool(pa) and all(la.under(g, "isinstance(edge.target, gtirb.ProxyBlock)") and la.under(g, "_is_return_edge(edge)") for g in pa), add, add.node,
                  "only return edges to proxies enter the proxy index", "proxy index condition changed")
        keys = [src(c.func.value.slice) for g, c in la.all_calls() if isinstance(c.func, ast.Attribute) and isinstance(c.func.value, ast.Subscript) and "return_edges" in src(c.func.value)]
        ctx.check(bool(keys) and all(k == "edge.source" for k in keys), add, add.node, "indexes are keyed by edge.source", f"index keys: {keys}")


def _strip(f):
    k = f[0]
    if k == "atom":
        return ("atom", f[1][0])
    if k in ("not", "and", "or"):
        return (k, *[_strip(x) for x in f[1:]])
    return f


@rule("C20.2", ["C20", "C03", "C09"], "query methods never create entries in the defaultdict indexes", 3)
def c20_2(ctx: Ctx):
    """
    self._return_edges / self._proxy_return_edges are defaultdicts and
    any_return_edges() is a membership test: a subscript read of a missing key
    would insert an empty set and make the block look like it returns.
    """
    repo = ctx.repo
    cls = repo.cls("_modify.cache.ReturnEdgeCache")
    init = cls.methods["__init__"]
    dd = set()
    for n in walk_no_nested(init.node):
        tgt, val = None, None
        if isinstance(n, ast.AnnAssign):
            tgt, val = n.target, n.value
        elif isinstance(n, ast.Assign):
            tgt, val = n.targets[0], n.value
        if tgt is not None and val is not None and "defaultdict" in src(val) and isinstance(tgt, ast.Attribute):
            dd.add(tgt.attr)
    if len(dd) < 2:
        raise AnalysisError("ReturnEdgeCache: defaultdict indexes not found")
    creators = {"add"}  # the only method that is meant to create entries
    for name, m in sorted(cls.methods.items()):
        if name in creators or name == "__init__":
            continue
        lin = linear(m.node)
        for n in walk_no_nested(m.node):
            if isinstance(n, ast.Subscript) and isinstance(n.ctx, ast.Load) and isinstance(n.value, ast.Attribute) and src(n.value.value) == "self" and n.value.attr in dd:
                g = lin.of(n)
                key = src(n.slice)
                ok = lin.under(g, f"{key} in self.{n.value.attr}")
                ctx.check(ok, m, n, f"{name}: self.{n.value.attr}[{key}] is read only when the key is present",
                          f"`{src(n)}` can run for a missing key: the defaultdict inserts an empty set and any_return_edges({key}) turns true "
                          "(a non-returning block later receives return edges)")
    ar = cls.methods.get("any_return_edges")
    if ar is None:
        raise AnalysisError("any_return_edges vanished")
    rets = [n for n in walk_no_nested(ar.node) if isinstance(n, ast.Return)]
    ctx.check(len(rets) == 1 and src(rets[0].value).replace(" ", "") == "blockinself._return_edges", ar, ar.node,
              "any_return_edges is a membership test on the index", f"any_return_edges returns `{src(rets[0].value) if rets else '?'}`")
    # _dict_set_discard removes emptied entries (so membership stays exact)
    dsd = cls.methods.get("_dict_set_discard")
    if dsd is not None:
        lin = linear(dsd.node)
        dels = [g for g in lin.stmts if isinstance(g.node, ast.Delete)]
        ok = len(dels) == 1 and lin.under(dels[0], "not value_set")
        ctx.check(ok, dsd, dsd.node, "emptied index entries are deleted", "an emptied set stays in the index: any_return_edges stays true after the last return edge is gone")


@rule("C20.3", ["C20", "C09", "C02", "C05"], "ReferenceCache keeps symbol<->node and parent<->children mirrors; nodes are unlinked only when empty or re-parented", 10)
def c20_3(ctx: Ctx):
    repo = ctx.repo
    cls = repo.cls("_modify.cache.ReferenceCache")
    # (1) node.symbols.add(s) <-> self._referents[s] = node ; symbols.remove(s) <-> _referents pop/del
    for name, m in sorted(cls.methods.items()):
        lin = linear(m.node)
        for g, c in lin.all_calls():
            f = c.func
            if isinstance(f, ast.Attribute) and src(f.value).endswith(".symbols") and f.attr in ("add", "remove", "discard"):
                node = src(f.value)[: -len(".symbols")]
                sym = src(c.args[0]) if c.args else "?"
                if f.attr == "add":
                    mirror = [x for x in lin.stmts if isinstance(x.node, ast.Assign) and src(x.node.targets[0]) == f"self._referents[{sym}]" and src(x.node.value) == node and x.guard == g.guard]
                    ctx.check(bool(mirror), m, c, f"{name}: {node}.symbols.add({sym}) mirrored by self._referents[{sym}] = {node}",
                              "a symbol is put into a tree node without recording the node in _referents (or under a different condition)")
                else:
                    mirror = [
                        x for x in lin.stmts
                        if (isinstance(x.node, ast.Delete) and src(x.node.targets[0]) == f"self._referents[{sym}]")
                        or any(src(cc.func) == "self._referents.pop" and cc.args and src(cc.args[0]) == sym for cc in lin.stmt_calls(x))
                    ]
                    mirror = [x for x in mirror if implies(g.guard, x.guard)]
                    ctx.check(bool(mirror), m, c, f"{name}: {node}.symbols.remove({sym}) mirrored by removal from self._referents",
                              "a symbol leaves its tree node but stays in _referents (get_referent would walk a stale node)")
    # (2) X.children.remove(Y): re-parented in the same block, or Y is provably empty
    exceptions = {
        ("_make_direct_refs", "root.children.remove(node)"): "the two loops above moved node's children to the root and drained node.symbols",
    }
    n_rm = 0
    for name, m in sorted(cls.methods.items()):
        lin = linear(m.node)
        for g, c in lin.all_calls():
            f = c.func
            if not (isinstance(f, ast.Attribute) and f.attr == "remove" and src(f.value).endswith(".children")):
                continue
            n_rm += 1
            y = src(c.args[0])
            text = src(c)
            if (name, text) in exceptions:
                ok = lin.under(g, "node.parent is root")
                ctx.check(ok, m, c, f"{name}: {text} (drained node under the root)", "guard `node.parent is root` changed", reason_ok=exceptions[(name, text)])
                continue
            # re-parented: <Z>.children.add(Y) and Y.parent = Z under the same guard
            adds = [
                (x, cc) for x, cc in lin.all_calls()
                if isinstance(cc.func, ast.Attribute) and cc.func.attr == "add" and src(cc.func.value).endswith(".children") and cc.args and src(cc.args[0]) == y and x.guard == g.guard
            ]
            reparent = False
            for x, cc in adds:
                z = src(cc.func.value)[: -len(".children")]
                ps = [s for s in lin.stmts if isinstance(s.node, ast.Assign) and src(s.node.targets[0]) == f"{y}.parent" and src(s.node.value) == z and s.guard == g.guard]
                if ps:
                    reparent = True
            if reparent:
                ctx.ok(m, c, f"{name}: {text} re-parents {y}", "children.add + parent assignment under the same condition")
                continue
            empty = lin.under(g, f"not {y}.children") and lin.under(g, f"not {y}.symbols")
            ctx.check(empty, m, c, f"{name}: {text} only unlinks an empty node",
                      f"`{y}` is detached from its parent while it may still hold symbols or children (guard: {f_show(g.guard)}): "
                      "those symbols can no longer be reached from the referent block and end up without referent")
    if n_rm < 3:
        raise AnalysisError(f"only {n_rm} children.remove sites found in ReferenceCache")
    # (3) retarget_references links both source trees under the chosen target node
    rr = cls.methods["retarget_references"]
    lin = linear(rr.node)
    for t in ("start_refs", "end_refs"):
        a = [g for g, c in lin.all_calls() if src(c) == f"target_ref.children.add({t})"]
        p = [g for g in lin.stmts if isinstance(g.node, ast.Assign) and src(g.node.targets[0]) == f"{t}.parent" and src(g.node.value) == "target_ref"]
        ctx.check(len(a) == 1 and len(p) == 1 and a[0].guard == p[0].guard, rr, rr.node, f"retarget_references: {t} linked under target_ref both ways",
                  f"{t} is not linked symmetrically (children.add / parent)")
    tr = [g for g in lin.stmts if isinstance(g.node, ast.Assign) and src(g.node.targets[0]) == "target_ref"]
    ok = len(tr) == 2
    for g in tr:
        v = src(g.node.value)
        if lin.under(g, "at_end"):
            ok = ok and v == "self._references[to_block][1]"
        elif lin.under(g, "not at_end"):
            ok = ok and v == "self._references[to_block][0]"
        else:
            ok = False
    ctx.check(ok, rr, rr.node, "retarget_references: at_end selects the end tree [1], otherwise the start tree [0]", "tree selection changed")
    dr = [g for g in lin.stmts if isinstance(g.node, ast.Assign) and src(g.node.targets[0]) == "symbol.referent"]
    ctx.check(len(dr) == 1 and src(dr[0].node.value) == "None" and len(dr[0].loops) == 1, rr, rr.node,
              "retarget_references: every direct reference becomes indirect (referent = None)", "direct references are not all converted")
    # (4) _make_direct_refs assigns referent and at_end and clears _referents for each symbol
    md = cls.methods["_make_direct_refs"]
    lin = linear(md.node)
    need = {"symbol.referent": "referent", "symbol.at_end": "at_end"}
    for tgt, val in need.items():
        s = [g for g in lin.stmts if isinstance(g.node, ast.Assign) and src(g.node.targets[0]) == tgt and src(g.node.value) == val]
        ctx.check(len(s) == 1, md, md.node, f"_make_direct_refs: {tgt} = {val}", f"{tgt} assignment changed")
    # (5) get_referent: at_end is decided by which root was reached
    gr = cls.methods["get_referent"]
    s = [n for n in walk_no_nested(gr.node) if isinstance(n, ast.Assign) and src(n.targets[0]) == "symbol.at_end"]
    ctx.check(len(s) == 1 and src(s[0].value).replace(" ", "") == "refisself._references[parent][1]", gr, s[0] if s else gr.node,
              "get_referent: at_end iff the walk ended at the end tree's root", f"at_end = {src(s[0].value) if s else '?'}")
    # (6) apply(): every block's two trees are flattened, then both tables cleared
    ap = cls.methods["apply"]
    text = src(ap.node)
    ctx.check("self._make_direct_refs(block, start_refs, False)" in text and "self._make_direct_refs(block, end_refs, True)" in text and "self._references.clear()" in text,
              ap, ap.node, "apply(): start tree -> at_end False, end tree -> at_end True, then clear", "apply() flattening changed")
    gr2 = cls.methods["get_references"]
    text = src(gr2.node)
    ctx.check("self._make_direct_refs(block, start_refs, False)" in text and "self._make_direct_refs(block, end_refs, True)" in text and text.index("yield from block.references") < text.index("_make_direct_refs"),
              gr2, gr2.node, "get_references(): direct references, then start tree (False), then end tree (True)", "get_references enumeration changed")


@rule("C20.4", ["C20"], "linked list: every next pointer has its prev pointer set in the same method; unlink clears both", 4)
def c20_4(ctx: Ctx):
    repo = ctx.repo
    cls = repo.cls("_adt.linked_list.LinkedListNode")
    ins = cls.methods["insert_node_after"]
    un = cls.methods["unlink"]

    def assigns(m):
        lin = linear(m.node)
        return [(g, src(g.node.targets[0]), src(g.node.value)) for g in lin.stmts if isinstance(g.node, ast.Assign)]

    a = assigns(ins)
    pairs = {(t, v) for _, t, v in a}
    want = {
        ("self.__next.__prev", "node"),
        ("node.__next", "self.__next"),
        ("node.__prev", "self"),
        ("self.__next", "node"),
    }
    ctx.check(want <= pairs, ins, ins.node, "insert_node_after sets the four pointers", f"missing {sorted(want - pairs)}")
    lin = linear(ins.node)
    g1 = [g for g, t, v in a if (t, v) == ("self.__next.__prev", "node")]
    g2 = [g for g, t, v in a if (t, v) == ("node.__next", "self.__next")]
    g3 = [g for g, t, v in a if (t, v) == ("self.__next", "node")]
    ok = g1 and g2 and g3 and g1[0].guard == g2[0].guard and lin.under(g1[0], "self.__next") and g3[0].top and g2[0].index < g3[0].index
    ctx.check(bool(ok), ins, ins.node, "old successor is re-linked before self.__next is overwritten", "pointer update order/guards changed")
    raises = [g for g in lin.stmts if isinstance(g.node, ast.Raise)]
    ctx.check(len(raises) == 1 and lin.under(raises[0], "node.__next or node.__prev"), ins, ins.node, "rejects a node that is already linked", "already-linked check changed")
    a = assigns(un)
    pairs = {(t, v) for _, t, v in a}
    want = {("self.__prev.__next", "self.__next"), ("self.__next.__prev", "self.__prev"), ("self.__prev", "None"), ("self.__next", "None")}
    ctx.check(want <= pairs, un, un.node, "unlink bridges both neighbours and clears both own pointers", f"missing {sorted(want - pairs)}")
    lu = linear(un.node)
    clears = [g for g, t, v in a if v == "None"]
    bridges = [g for g, t, v in a if v != "None"]
    ctx.check(all(c.index > b.index for c in clears for b in bridges) and all(c.top for c in clears), un, un.node,
              "own pointers are cleared unconditionally after the neighbours were bridged", "unlink order changed")


@rule("C20.5", ["C20", "C04"], "IdentitySet / OffsetMapping / BlockOrdering key discipline", 10)
def c20_5(ctx: Ctx):
    repo = ctx.repo
    ids = repo.cls("_adt.identity_set.IdentitySet")
    for name, want in (("__contains__", "id(x) in self._map"), ("add", "self._map[id(value)] = value"), ("discard", "self._map.pop(id(value), None)")):
        m = ids.methods.get(name)
        if m is None:
            ctx.fail(ids.methods["__init__"], None, f"IdentitySet.{name}", "method missing")
            continue
        ctx.check(want in src(m.node), m, m.node, f"IdentitySet.{name}: `{want}`", f"IdentitySet.{name} no longer keys by id(): equal-but-distinct objects would collapse")
    for name in ("__len__", "__iter__"):
        ctx.check(name in ids.methods, ids.methods["__init__"], None, f"IdentitySet.{name} defined (MutableSet abstract)", "abstract method missing")
    om = repo.cls("_adt.offset_mapping.OffsetMapping")
    for name in ("__getitem__", "__setitem__", "__delitem__", "__contains__"):
        m = om.methods.get(name)
        if m is None:
            ctx.fail(om.methods["__init__"], None, f"OffsetMapping.{name}", "method missing")
            continue
        first = [s for s in m.node.body if not (isinstance(s, ast.Expr) and isinstance(s.value, ast.Constant))]
        ok = bool(first) and isinstance(first[0], ast.If) and src(first[0].test) == "isinstance(key, gtirb.Offset)"
        ctx.check(ok, m, m.node, f"OffsetMapping.{name} dispatches on isinstance(key, gtirb.Offset) first", "dispatch changed: an Offset key would be treated as an element id")
    for name in ("__len__", "__iter__"):
        ctx.check(name in om.methods, om.methods["__init__"], None, f"OffsetMapping.{name} defined (MutableMapping abstract)", "abstract method missing")
    it = om.methods.get("__iter__")
    if it is not None:
        ctx.check("gtirb.Offset(elem, disp)" in src(it.node), it, it.node, "iteration yields Offset(element, displacement)", "iteration changed")
    ln = om.methods.get("__len__")
    if ln is not None:
        ctx.check("sum(" in src(ln.node) and "len(subdata)" in src(ln.node), ln, ln.node, "len counts offsets, not elements", "len changed")
    bl = om.methods.get("__bool__")
    if bl is not None:
        rets = [n for n in walk_no_nested(bl.node) if isinstance(n, ast.Return)]
        t = src(rets[0].value).replace(" ", "") if len(rets) == 1 else "?"
        ok = t in ("any((subdataforsubdatainself._data.values()))", "len(self)>0", "len(self)!=0", "bool(len(self))")
        ctx.check(ok, bl, bl.node, "OffsetMapping truthiness agrees with its length (true iff it holds an Offset)",
                  f"__bool__ returns `{t}`: a mapping whose elements all have empty displacement dicts holds no Offset (len 0) but would be truthy "
                  "(`if table:` guards in split/join/remove treat it as non-empty)")
    else:
        ctx.ok(om.methods["__init__"], None, "OffsetMapping has no __bool__: truthiness falls back to __len__", nontrivial=False)
    bo = repo.cls("_adt.block_ordering.BlockOrdering")
    pi = bo.methods["_primitive_insert"]
    lin = linear(pi.node)
    raises = [g for g in lin.stmts if isinstance(g.node, ast.Raise)]
    links = [g for g, c in lin.all_calls() if src(c.func).endswith("insert_node_after")]
    # refused whenever the block is already ordered (the guard may refuse more, e.g. duplicates within the call: C20.10)
    from ..astx import f_and, implies as _implies

    in_order = lin.cond_at(raises[0], ast.parse("block in self.__order", mode="eval").body) if raises else None
    body0 = lin.of(raises[0].loops[-1].body[0]).guard if raises and raises[0].loops else None
    ok = len(raises) == 1 and body0 is not None and _implies(f_and(body0, in_order), raises[0].guard) and links and all(raises[0].index < l.index for l in links)
    ctx.check(bool(ok), pi, pi.node, "already-ordered blocks are rejected before anything is linked", "duplicate check moved/removed: a block could appear twice in the ordering")
    st = [g for g in lin.stmts if isinstance(g.node, ast.Assign) and src(g.node.targets[0]) == "self.__order[block]"]
    pe = [g for g in lin.stmts if isinstance(g.node, ast.Assign) and src(g.node.targets[0]) == "prev_entry" and src(g.node.value) == "block_entry"]
    ctx.check(len(st) == 1 and len(pe) == 1 and st[0].loops and pe[0].loops, pi, pi.node, "each inserted block is recorded and becomes the predecessor of the next", "insertion chain changed")
    rb = bo.methods["remove_block"]
    ctx.check("self.__order.pop(block).unlink()" in src(rb.node), rb, rb.node, "remove_block pops the entry and unlinks it", "remove_block changed")
    adj = bo.methods["adjacent_blocks"]
    t = src(adj.node)
    ctx.check("entry.prev" in t and "entry.next" in t and t.index("prev_node.value") < t.index("next_node.value"), adj, adj.node, "adjacent_blocks returns (prev, next)", "adjacent_blocks order changed")
