"""
Rules added after the fifth round of independently seeded changes (the ones
the rule set of that moment missed). DESIGN.md section 10.7 lists the miss that
motivated each.
"""

from __future__ import annotations

import ast
import dataclasses
from typing import List, Optional

from ..astx import TRUE, calls_in, canon, f_atoms, f_show, implies, linear, single_assign_value, src, walk_no_nested
from ..core import ALL_PROPS, AnalysisError, Ctx, rule
from ..region import Unknown, minieval
from .round4 import _atoms
from .round5 import _guard_in_loop_is

_FRESH_CALLS = {"dict", "list", "set", "OrderedDict", "defaultdict", "OffsetMapping"}
_MUTATORS = {"update", "append", "extend", "add", "setdefault", "insert", "__setitem__"}   # adding ones: removing from a fresh empty container is a no-op


def _is_fresh_container(e: ast.AST) -> bool:
    if isinstance(e, (ast.Dict, ast.List, ast.Set)) and not (getattr(e, "keys", None) or getattr(e, "elts", None)):
        return True
    return isinstance(e, ast.Call) and isinstance(e.func, ast.Name) and e.func.id in _FRESH_CALLS and not e.args and not e.keywords


def _lookup_of(e: ast.AST) -> Optional[tuple]:
    """(container text, key text) when `e` reads one entry of a mapping: X.get(K[, None]) or X[K]."""
    if isinstance(e, ast.Call) and isinstance(e.func, ast.Attribute) and e.func.attr == "get" and 1 <= len(e.args) <= 2 and not e.keywords:
        if len(e.args) == 2 and not (isinstance(e.args[1], ast.Constant) and e.args[1].value is None):
            return None
        return src(e.func.value), src(e.args[0])
    if isinstance(e, ast.Subscript) and isinstance(e.ctx, ast.Load):
        return src(e.value), src(e.slice)
    return None


def _truth_operands(test: ast.AST) -> List[ast.AST]:
    if isinstance(test, ast.UnaryOp) and isinstance(test.op, ast.Not):
        return _truth_operands(test.operand)
    if isinstance(test, ast.BoolOp):
        return [x for v in test.values for x in _truth_operands(v)]
    return [test]


def _mutated(fn: ast.AST, name: str) -> Optional[ast.AST]:
    for n in walk_no_nested(fn):
        if isinstance(n, ast.Call) and isinstance(n.func, ast.Attribute) and n.func.attr in _MUTATORS and isinstance(n.func.value, ast.Name) and n.func.value.id == name:
            return n
        if isinstance(n, ast.Subscript) and isinstance(n.ctx, ast.Store) and isinstance(n.value, ast.Name) and n.value.id == name:
            return n
    return None


@rule("GEN.emptyabsent", ALL_PROPS, "an empty container stored in a mapping is still *that* container: presence is tested with `in`, not by truthiness", 1, scoped=True)
def gen_emptyabsent(ctx: Ctx):
    n = 0
    for q, fi in sorted(ctx.repo.funcs.items()):
        if q.startswith(("driver.", "assembler.__main__")):
            continue
        for node in walk_no_nested(fi.node):
            # A: `if X.get(K): ... else: X[K] = new`   (also `if not X.get(K): X[K] = new`)
            if isinstance(node, ast.If):
                for op in _truth_operands(node.test):
                    lk = _lookup_of(op)
                    if lk is None and isinstance(op, ast.Name):
                        v = single_assign_value(fi.node, op.id)
                        lk = _lookup_of(v) if v is not None else None
                    if lk is None:
                        continue
                    n += 1
                    cont, key = lk
                    for st in list(node.body) + list(node.orelse):
                        for sub in ast.walk(st):
                            if isinstance(sub, ast.Assign) and any(isinstance(t, ast.Subscript) and src(t.value) == cont and src(t.slice) == key for t in sub.targets):
                                ctx.fail(fi, node, f"`{src(op)}` decides by truthiness whether `{cont}[{key}]` is (re)created",
                                         f"an entry that exists but is empty takes the 'absent' branch and `{src(sub)[:80]}` replaces it with a new object: whoever holds the old (empty) "
                                         "container - e.g. through an earlier setdefault() - keeps writing into an orphan, and the entries are lost",
                                         key=f"{q}::emptyabsent::{cont}[{key}]")
            # B: `v = X.get(K) or {}` and v is mutated afterwards
            if isinstance(node, ast.Assign) and len(node.targets) == 1 and isinstance(node.targets[0], ast.Name) and isinstance(node.value, ast.BoolOp) and isinstance(node.value.op, ast.Or):
                vals = node.value.values
                if len(vals) == 2 and _lookup_of(vals[0]) is not None and _is_fresh_container(vals[1]):
                    n += 1
                    cont, key = _lookup_of(vals[0])
                    mut = _mutated(fi.node, node.targets[0].id)
                    if mut is not None:
                        ctx.fail(fi, node, f"`{src(node)[:70]}` then `{src(mut)[:50]}`",
                                 f"when `{cont}` already holds an *empty* container under `{key}` the `or` picks the fresh one: the update goes into (or replaces the entry by) a different object "
                                 "than the one other code aliases, so their later writes are lost",
                                 key=f"{q}::emptyabsent::{cont}[{key}]")
    ctx.ok(ctx.repo.mod("intervalutils"), None, f"{n} truthiness tests / `or`-defaults on mapping look-ups scanned", nontrivial=False, key="GEN.emptyabsent::scan")
    if n < 5:
        raise AnalysisError(f"only {n} look-up tests scanned")


@rule("GEN.lookupscope", ALL_PROPS, "a block look-up by address is made on the node the address was computed from", 1, scoped=True)
def gen_lookupscope(ctx: Ctx):
    n = 0
    for q, fi in sorted(ctx.repo.funcs.items()):
        for c in calls_in(fi.node, nested=True):
            if not (isinstance(c.func, ast.Attribute) and c.func.attr in ("byte_blocks_on", "byte_blocks_at", "code_blocks_on", "code_blocks_at", "data_blocks_on", "data_blocks_at") and c.args):
                continue
            owners = {src(a.value) for a in ast.walk(c.args[0]) if isinstance(a, ast.Attribute) and a.attr == "address"}
            if len(owners) != 1:
                continue
            n += 1
            owner = next(iter(owners))
            recv = src(c.func.value)
            # the address of a block may be looked up on its interval / module: only interval-relative addresses pin the receiver
            if not any(isinstance(p, ast.BinOp) for p in ast.walk(c.args[0])):
                ctx.ok(fi, c, f"`{src(c)[:70]}`: absolute address of a node", key=f"{q}::lookupscope::{recv}", nontrivial=False)
                continue
            ctx.check(recv == owner, fi, c, f"`{owner}.address + offset` is looked up on `{owner}`",
                      f"`{src(c)[:90]}`: the address is an offset into `{owner}` but the look-up runs on `{recv}`; when byte intervals share addresses (object files: every section at 0) "
                      "blocks of *other* intervals are returned - a valid request is refused as ambiguous or a data word is classified by a foreign code block",
                      key=f"{q}::lookupscope::{owner}")
    ctx.ok(ctx.repo.mod("_modify.retarget"), None, f"{n} address look-ups scanned", nontrivial=False, key="GEN.lookupscope::scan")
    if n < 1:
        raise AnalysisError("no address look-up found")


@rule("C03.17", ["C03", "C06"], "a patch call gets return edges whenever its target block belongs to a function (entry block or not)", 1)
def c03_17(ctx: Ctx):
    fi = ctx.repo.func("_modify.edit._add_return_edges_for_patch_calls")
    lin = linear(fi.node)
    adds = [g for g, c in lin.all_calls() if src(c.func) == "add_return_edges_to_callee"]
    if len(adds) != 1:
        raise AnalysisError("_add_return_edges_for_patch_calls: add_return_edges_to_callee not found")
    ok = _guard_in_loop_is(lin, adds[0], "isinstance(call_edge.target, gtirb.CodeBlock) and func_uuid and fallthrough_target")
    ctx.check(ok, fi, adds[0].node, "return edges are added for every call edge to a code block of a function that has a fallthrough",
              f"the call is reached under `{f_show(adds[0].guard)[:160]}`: split_block/remove_block identify the callee by block membership (functions_by_block), so any further condition here "
              "leaves a patch call (e.g. through a label on a non-entry block) without return edges - the callee's `ret` keeps pointing at its proxy",
              key="_add_return_edges_for_patch_calls::condition")


@rule("C05.13", ["C05", "C08", "C04"], "dropping the trailing empty block of a patch section moves its CFI directives to the end of the previous block and removes its table entries", 3)
def c05_13(ctx: Ctx):
    fi = ctx.repo.func("_modify.edit._add_other_section_contents")
    lin = linear(fi.node)
    dels = [g for g in lin.stmts if isinstance(g.node, ast.Delete) and any(src(t) == "sect.blocks[-1]" for t in g.node.targets)]
    if len(dels) != 1:
        raise AnalysisError("_add_other_section_contents: `del sect.blocks[-1]` not found")
    d = dels[0]
    removed = [g for g, c in lin.all_calls() if src(c.func) == "cfi_table.pop" and c.args and src(c.args[0]) == "sect.blocks[-1]"]
    removed += [g for g in lin.stmts if isinstance(g.node, ast.Delete) and any(src(t) == "cfi_table[sect.blocks[-1]]" for t in g.node.targets)]
    reads = [g for g in lin.stmts if any(isinstance(s, ast.Subscript) and src(s) == "cfi_table[sect.blocks[-1]]" and isinstance(s.ctx, ast.Load) for s in ast.walk(g.node))]
    ok = len(removed) >= 1 and all(g.index < d.index for g in removed) and (not reads or all(any(r.index >= g.index for r in removed) for g in reads))
    ctx.check(ok, fi, (reads[0].node if reads else d.node), "the dropped block's cfiDirectives entry is removed (pop) before the block goes",
              "the directives of the trailing block are copied but its own entry stays in cfiDirectives: the table keeps Offsets into a block that is never added to the module "
              "(serialisation fails / stale entries) and the directive exists twice",
              key="_add_other_section_contents::cfi-entry-removed")
    moves = [(g, c) for g, c in lin.all_calls() if src(c.func) == "prev_directives.setdefault"]
    pb = single_assign_value(fi.node, "prev_block")
    ok = len(moves) == 1 and pb is not None and src(pb) == "sect.blocks[-2]" and src(moves[0][1].args[0]) == "prev_block.size"
    ctx.check(ok, fi, moves[0][1] if moves else fi.node, "moved directives are keyed by the *size* of the previous block (its end, block-relative)",
              f"the directives are filed under `{src(moves[0][1].args[0]) if moves else '?'}` of `{src(pb) if pb else '?'}`: cfiDirectives displacements are block-relative, so anything but "
              "`prev_block.size` puts `.cfi_endproc` before or past the end of its block as soon as the previous block is not the first of the section",
              key="_add_other_section_contents::cfi-key")
    al = [g for g, c in lin.all_calls() if src(c.func) == "sect.alignment.pop" and c.args and src(c.args[0]) == "sect.blocks[-1]"]
    ctx.check(len(al) == 1 and al[0].index < d.index and implies(d.guard, al[0].guard), fi, al[0].node if al else d.node, "the dropped block leaves the alignment table whenever it is dropped",
              "alignment entry of the dropped block survives", key="_add_other_section_contents::alignment-entry-removed")


@rule("C10.9", ["C10", "C09", "C05"], "split_byte_interval never turns uninitialized bytes into initialized ones", 1)
def c10_9(ctx: Ctx):
    fi = ctx.repo.func("intervalutils.split_byte_interval")
    lin = linear(fi.node)
    asg = [g for g in lin.stmts if isinstance(g.node, ast.Assign) and src(g.node.targets[0]) == "interval.initialized_size"]
    if len(asg) != 1:
        raise AnalysisError("split_byte_interval: truncation of interval.initialized_size not found")
    v = asg[0].node.value
    bad = None
    try:
        for init in (0, 3, 8):
            for size in (init, init + 4):
                for off in (0, 2, 3, 5, 8, 12):
                    if off > size:
                        continue
                    got = minieval(v, {"interval.initialized_size": init, "interval.size": size, "offset": off})
                    if got != min(init, off):
                        bad = (init, size, off, got)
                        break
    except Unknown as exc:
        bad = ("?", "?", "?", f"not evaluable: {exc}")
    ctx.check(bad is None, fi, asg[0].node, "the head interval keeps min(initialized_size, cut) initialized bytes",
              f"`{src(asg[0].node)}` gives {bad[3] if bad else ''} for initialized_size={bad[0] if bad else ''}, size={bad[1] if bad else ''}, cut={bad[2] if bad else ''}: bytes in front of the cut "
              "that were uninitialized (.bss-like tail, gap before a later block) become real zeros; join then sees no gap, pads with zeros instead of nops and creates no padding block",
              key="split_byte_interval::initialized-size")


@rule("C11.2", ["C11", "C18"], "retarget_symbol_uses applies the caller's map as given: every use is substituted once, simultaneously", 4)
def c11_2(ctx: Ctx):
    fi = ctx.repo.func("_modify.retarget.retarget_symbol_uses")
    rebinds = [n for n in walk_no_nested(fi.node) if isinstance(n, (ast.Assign, ast.AugAssign, ast.AnnAssign)) and any(
        isinstance(t, ast.Name) and t.id == "retargeted_symbols" for t in (n.targets if isinstance(n, ast.Assign) else [n.target]))]
    ctx.check(not rebinds, fi, rebinds[0] if rebinds else fi.node, "the `retargeted_symbols` parameter is not rebound",
              f"`{src(rebinds[0])[:80] if rebinds else ''}` replaces the caller's map by a derived one: a single pass that follows chains gives a different result for {{a:b, b:c}} than for "
              "{b:c, a:b}, so the outcome depends on the order in which the retargets were registered", key="retarget_symbol_uses::map-as-given")
    looks = []
    for n in walk_no_nested(fi.node):
        if isinstance(n, ast.Assign) and len(n.targets) == 1 and src(n.targets[0]) == "retarget":
            looks.append(n)
    if len(looks) < 3:
        raise AnalysisError("retarget_symbol_uses: the three look-ups of the retarget map not found")
    for lk in looks:
        v = lk.value
        ok = isinstance(v, ast.Call) and isinstance(v.func, ast.Attribute) and v.func.attr == "get" and src(v.func.value) == "retargeted_symbols" and len(v.args) == 1
        ctx.check(ok, fi, lk, f"`{src(lk)[:70]}` reads the caller's map",
                  "the replacement is looked up somewhere else than in `retargeted_symbols`", key=f"retarget_symbol_uses::lookup::{src(v.args[0]) if isinstance(v, ast.Call) and v.args else '?'}")


@rule("C12.16", ["C12"], "a lone NUL extends the previous ASCII block only when the current block is still empty; a code block that keeps a mandatory data type is an error", 2)
def c12_16(ctx: Ctx):
    repo = ctx.repo
    fi = repo.func("assembler.assembler._Streamer._try_terminate_previous_ascii_block")
    lin = linear(fi.node)
    pops = [g for g, c in lin.all_calls() if src(c) == "self._state.current_section.blocks.pop()"]
    if len(pops) != 1:
        raise AnalysisError("_try_terminate_previous_ascii_block: block pop not found")
    need = ["value == b'\\x00'", "not self._state.current_block.size", "not len(self._state.current_section.blocks) < 2"]
    for c in need:
        ctx.check(lin.under(pops[0], c), fi, pops[0].node, f"the previous block is extended only when `{c}`",
                  f"the fold no longer requires `{c}`: `.ascii \"ab\"; .byte 1; .ascii \"\\0\"` appends the NUL to the string two blocks back, the current block (already holding bytes) is shifted by "
                  "one, its first byte is swallowed by the String block and symbolic expressions straddle two blocks",
                  key=f"_try_terminate_previous_ascii_block::{c[:30]}")
    fc = repo.func("assembler.assembler.Assembler._convert_data_blocks")
    lc = linear(fc.node)
    rs = [g for g in lc.stmts if isinstance(g.node, ast.Raise) and g.node.exc is not None and "UnsupportedAssemblyError" in src(g.node.exc)]
    if len(rs) != 1:
        raise AnalysisError("_convert_data_blocks: mandatory-type error not found")
    req = [c for c in calls_in(fc.node) if src(c.func) == "self._is_required_block_type" and c.args]
    origin = None
    if req:
        a = req[0].args[0]
        origin = single_assign_value(fc.node, a.id) if isinstance(a, ast.Name) else a
    lk = None
    if origin is not None:
        lk = _lookup_of(origin)
    ok = lk is not None and lk[0] == "self._state.block_types" and lk[1] == "block"
    ctx.check(ok, fc, req[0] if req else rs[0].node, "the type of a block that stays code is read from the streamer's table (`self._state.block_types[block]`)",
              f"the type is read from `{lk[0] if lk else '?'}`: the per-section result table is only filled for blocks that *were* converted, so the check never fires and a LEB128 placeholder "
              "byte silently stays in a code block without any encoding recorded", key="_convert_data_blocks::mandatory-type-source")


@rule("C16.15", ["C16"], "leafFunctions entries are sticky; every register the patch may change is in the save list", 3)
def c16_15(ctx: Ctx):
    repo = ctx.repo
    fi = repo.func("rewriting.RewritingContext._update_leaf_functions")
    drops = []
    for n in walk_no_nested(fi.node):
        if isinstance(n, ast.Delete) and any(isinstance(t, ast.Subscript) and src(t.value) == "leaf_functions" for t in n.targets):
            drops.append(n)
        if isinstance(n, ast.Call) and isinstance(n.func, ast.Attribute) and src(n.func.value) == "leaf_functions" and n.func.attr in ("pop", "popitem", "clear"):
            drops.append(n)
        if isinstance(n, ast.Assign) and any(src(t) == "leaf_functions" for t in n.targets) and "get_or_insert" not in src(n.value):
            drops.append(n)
    ctx.check(not drops, fi, drops[0] if drops else fi.node, "no entry ever leaves the leafFunctions table",
              f"`{src(drops[0])[:80] if drops else ''}`: the table is deliberately sticky - a function that got a call inserted stays non-leaf even when a later context does not list it; once "
              "entries are pruned the recorded answer is lost and later contexts decide leaf-ness afresh, so red-zone protection differs between one rewrite and the same rewrite split in steps",
              key="_update_leaf_functions::sticky")
    fa = repo.func("abi.ABI._allocate_patch_registers")
    shrink = []
    for n in walk_no_nested(fa.node):
        if isinstance(n, ast.Call) and isinstance(n.func, ast.Attribute) and src(n.func.value) == "clobbered_registers" and n.func.attr in ("remove", "discard", "difference_update", "intersection_update", "pop", "clear"):
            shrink.append(n)
        if isinstance(n, ast.AugAssign) and src(n.target) == "clobbered_registers" and isinstance(n.op, (ast.Sub, ast.BitAnd)):
            shrink.append(n)
    ctx.check(not shrink, fa, shrink[0] if shrink else fa.node, "`clobbered_registers` only grows", f"`{src(shrink[0])[:70] if shrink else ''}` takes registers out of the save list",
              key="_allocate_patch_registers::clobbers-only-grow")
    rets = [n for n in walk_no_nested(fa.node) if isinstance(n, ast.Return) and isinstance(n.value, ast.Call) and src(n.value.func) == "_PatchRegisterAllocation"]
    if len(rets) != 1 or not rets[0].value.args:
        raise AnalysisError("_allocate_patch_registers: result construction not found")
    a0 = rets[0].value.args[0]
    it = a0.args[0] if isinstance(a0, ast.Call) and src(a0.func) in ("sorted", "list", "tuple") and a0.args else a0
    ok = isinstance(it, ast.Name) and it.id == "clobbered_registers"
    ctx.check(ok, fa, a0, "the save list is all of `clobbered_registers`, sorted",
              f"the list is built from `{src(it)[:80]}`: a register that is clobbered (by the patch, as scratch, or as caller-saved around a call) but filtered out here - e.g. because the patch "
              "also *reads* it - is neither saved nor restored", key="_allocate_patch_registers::save-list-complete")


@rule("C17.11", ["C17", "C12"], "the caller's x86 syntax choice reaches the assembler on both x86 ISAs", 1)
def c17_11(ctx: Ctx):
    fi = ctx.repo.func("assembler.assembler.Assembler.assemble")
    lin = linear(fi.node)
    st = [g for g in lin.stmts if isinstance(g.node, ast.Assign) and src(g.node.targets[0]) == "assembler.x86_syntax"]
    if len(st) != 1:
        raise AnalysisError("Assembler.assemble: x86_syntax forwarding not found")
    want = lin.cond_at(st[0], ast.parse("self._state.target.isa in (gtirb.Module.ISA.IA32, gtirb.Module.ISA.X64)", mode="eval").body)
    ctx.check(implies(want, st[0].guard), fi, st[0].node, "x86_syntax is forwarded whenever the ISA is IA32 or X64",
              f"forwarded only under `{f_show(st[0].guard)[:100]}`: on the other x86 ISA every snippet is parsed as AT&T, so CallPatch's Intel-syntax `push 3` becomes `push dword ptr [3]` "
              "(an argument read from memory) and `add esp, N` is a syntax error", key="Assembler.assemble::x86-syntax-both-isas")


@rule("C20.11", ["C20", "C05"], "the CFG swap is checked by identity; set_referent always retires the indirect reference; a single-Offset store keeps the element's inner mapping", 3)
def c20_11(ctx: Ctx):
    repo = ctx.repo
    fi = repo.func("_modify.cache.make_return_cache")
    lin = linear(fi.node)
    rs = [g for g in lin.stmts if isinstance(g.node, ast.Raise) and g.node.exc is not None and "CFGModifiedError" in src(g.node.exc)]
    ok = any(lin.under(g, "ir.cfg is not cache") for g in rs)
    ctx.check(ok, fi, rs[-1].node if rs else fi.node, "leaving the context raises when `ir.cfg is not cache`",
              f"the conditions of the CFGModifiedError raises are {[_atoms(g.guard) for g in rs]}: replacing ir.cfg by *another* ReturnEdgeCache (or any look-alike) goes unnoticed and the "
              "finally block then overwrites the original CFG from the wrong object", key="make_return_cache::identity-check")
    fs = repo.func("_modify.cache.ReferenceCache.set_referent")
    ls = linear(fs.node)
    pops = [g for g, c in ls.all_calls() if src(c.func) == "self._referents.pop"]
    sets = [g for g in ls.stmts if isinstance(g.node, ast.Assign) and src(g.node.targets[0]) in ("symbol.referent", "symbol.at_end")]
    if len(pops) != 1 or len(sets) != 2:
        raise AnalysisError("ReferenceCache.set_referent: pop / stores not found")
    ok = _equiv_guard(ls, pops[0], "symbol in self._referents") and all(implies(TRUE, g.guard) for g in sets)
    ctx.check(ok, fs, pops[0].node, "a pending indirect reference is dropped whenever the symbol has one, and the stores are unconditional",
              f"pop under `{f_show(pops[0].guard)[:90]}`, stores under `{f_show(sets[0].guard)[:60]}`: with an early exit for 'nothing changes' the symbol keeps its RefNode, and apply() later "
              "re-points it at whatever that tree resolves to - overriding the explicit set_referent", key="set_referent::always-retires")
    om = repo.cls("_adt.offset_mapping.OffsetMapping").methods.get("__setitem__")
    if om is None:
        raise AnalysisError("OffsetMapping.__setitem__ not found")
    lo = linear(om.node)
    stores = [g for g in lo.stmts if isinstance(g.node, ast.Assign) and any(isinstance(t, ast.Subscript) and src(t.value) == "self._data" and src(t.slice) == "elem" for t in g.node.targets)]
    ok = bool(stores) and all(lo.under(g, "elem not in self._data") for g in stores)
    ctx.check(ok, om, stores[0].node if stores else om.node, "`self._data[elem]` is (re)bound by a single-Offset store only when the element has no inner mapping yet",
              "a single-Offset store rebinds the element's inner mapping although one exists: code that obtained it before (`m.setdefault(elem, {})`, `m[elem]`) holds an orphan and "
              "its later writes never reach the table", key="OffsetMapping.__setitem__::keeps-inner-mapping")


def _equiv_guard(lin, g, want_text: str) -> bool:
    want = lin.cond_at(g, ast.parse(want_text, mode="eval").body)
    return implies(g.guard, want) and implies(want, g.guard)


@rule("C03.18", ["C03"], "removing a call never gives a non-returning block of the callee a return edge", 1)
def c03_18(ctx: Ctx):
    fi = ctx.repo.func("_modify.edges.remove_return_edges_from_callee")
    lin = linear(fi.node)
    prox = [g for g, c in lin.all_calls() if src(c.func) == "gtirb.ProxyBlock"]
    if len(prox) != 1:
        raise AnalysisError("remove_return_edges_from_callee: placeholder proxy not found")
    forms = ("return_edges", "cache.return_cache.block_return_edges(block)", "cache.return_cache.any_return_edges(block)")
    ok = any(lin.under(prox[0], f) for f in forms)
    ctx.check(ok, fi, prox[0].node, "the placeholder `Return -> proxy` edge is only given to a block that had return edges",
              f"the proxy is created under `{f_show(prox[0].guard)[:120]}`, which does not require the block to return: every block of the callee without a `ret` (e.g. `g: push rax` "
              "falling through into `pop rax; ret`) receives a fresh Return edge whenever a call to the function is removed",
              key="remove_return_edges_from_callee::proxy-only-for-returning-blocks")


@rule("C17.12", ["C17", "C07", "C16"], "the function handed to a patch (and used for its leaf-ness) is looked up afresh for every block", 1)
def c17_12(ctx: Ctx):
    fi = ctx.repo.func("rewriting.RewritingContext.apply")
    lin = linear(fi.node)
    calls = [(g, c) for g, c in lin.all_calls() if src(c.func) == "self._apply_modifications"]
    if len(calls) != 1 or not calls[0][0].loops or len(calls[0][1].args) < 3 or not isinstance(calls[0][1].args[2], ast.Name):
        raise AnalysisError("apply(): per-block _apply_modifications(..., func, block, ...) not found")
    g, c = calls[0]
    var = c.args[2].id
    loop = g.loops[-1]
    body0 = lin.of(loop.body[0])
    inits = [s for s in lin.stmts if s.loops and s.loops[-1] is loop and isinstance(s.node, ast.Assign) and any(isinstance(t, ast.Name) and t.id == var for t in s.node.targets)
             and s.index < g.index and implies(body0.guard, s.guard)]
    ctx.check(bool(inits), fi, c, f"`{var}` is (re)initialised unconditionally in every iteration before it is used",
              f"`{var}` is only assigned under a condition inside the loop: a block that belongs to no function (or a data block) inherits the Function of the last block that had one, so the "
              "InsertionContext names the wrong function, is_leaf is derived from it and an argument callable of a CallPatch computes its value from the wrong context",
              key="apply::function-per-block")


@rule("C04.12", ["C04", "C08", "C12"], "every attribute of an explicit CFI procedure reaches cfiDirectives, return column 0 included", 3)
def c04_12(ctx: Ctx):
    fi = ctx.repo.func("assembler._create_gtirb.create_cfi_directives")
    lin = linear(fi.node)
    wants = {
        ".cfi_lsda": "procedure.lsda",
        ".cfi_personality": "procedure.personality",
        ".cfi_return_column": "procedure.return_column is not None",
    }
    starts = [g for g, c in lin.all_calls() if src(c.func) == "append_instruction" and len(c.args) == 2 and ".cfi_startproc" in src(c.args[1])]
    if len(starts) != 1:
        raise AnalysisError("create_cfi_directives: .cfi_startproc emission not found")
    from ..astx import f_and
    for name, cond in wants.items():
        gs = [g for g, c in lin.all_calls() if src(c.func) == "append_instruction" and len(c.args) == 2 and f"'{name}'" in src(c.args[1])]
        if len(gs) != 1:
            raise AnalysisError(f"create_cfi_directives: {name} emission not found")
        want = f_and(starts[0].guard, lin.cond_at(gs[0], ast.parse(cond, mode="eval").body))
        ok = implies(want, gs[0].guard) and implies(gs[0].guard, want)
        ctx.check(ok, fi, gs[0].node, f"`{name}` is emitted for an explicit procedure exactly when `{cond}`",
                  f"emitted under `{f_show(gs[0].guard)[:120]}`: a declared attribute is dropped for some value (`.cfi_return_column 0` is falsy but is a real column - the inserted code then "
                  "evaluates with the ABI default column)", key=f"create_cfi_directives::{name}")


@rule("C09.9", ["C09", "C01"], "insert() and delete() report the block that holds the start of the edit *after* the clean-up joined/removed blocks", 2)
def c09_9(ctx: Ctx):
    n = 0
    for q in ("_modify.edit.insert", "_modify.edit.delete"):
        fi = ctx.repo.func(q)
        for node in walk_no_nested(fi.node):
            for c in ([node.value] if isinstance(node, (ast.Expr, ast.Assign, ast.Return)) and isinstance(getattr(node, "value", None), ast.Call) else []):
                if src(c.func) != "_cleanup_modified_blocks":
                    continue
                n += 1
                ok = isinstance(node, ast.Return)
                if isinstance(node, ast.Assign) and len(node.targets) == 1 and isinstance(node.targets[0], ast.Name):
                    nm = node.targets[0].id
                    ok = any(isinstance(r, ast.Return) and isinstance(r.value, ast.Name) and r.value.id == nm for r in walk_no_nested(fi.node))
                ctx.check(ok, fi, node, f"{q.split('.')[-1]}() returns what `_cleanup_modified_blocks` returns",
                          f"`{src(node)[:80]}`: the clean-up may remove the first block (zero-sized) or join it into its predecessor and returns the block that now holds the edit start; "
                          "_apply_modifications translates the offsets of the block's remaining modifications against the returned block, so returning anything else makes a batch differ "
                          "from one-at-a-time application (wrong position or `assert 0 <= offset <= block.size`)",
                          key=f"{q}::returns-cleanup-result")
    if n < 2:
        raise AnalysisError(f"only {n} _cleanup_modified_blocks call(s) found in insert()/delete()")


@rule("C13.8", ["C13", "C08"], ".cfi_personality/.cfi_lsda resolve their symbol in every procedure, implicit ones included", 2)
def c13_8(ctx: Ctx):
    for name in ("emit_cfi_lsda", "emit_cfi_personality"):
        fi = ctx.repo.func(f"assembler.assembler._Streamer.{name}")
        lin = linear(fi.node)
        rs = [g for g, c in lin.all_calls() if src(c.func) == "self._resolve_symbol"]
        if len(rs) != 1:
            raise AnalysisError(f"{name}: _resolve_symbol call not found")
        want = lin.cond_at(rs[0], ast.parse("self._state.current_cfi_procedure", mode="eval").body)
        ok = implies(want, rs[0].guard)
        ctx.check(ok, fi, rs[0].node, f"{name}: the symbol is resolved whenever there is a current procedure",
                  f"resolved only under `{f_show(rs[0].guard)[:100]}`: block patches are assembled inside an implicit procedure, so there an unknown name raises no UndefSymbolError and with "
                  "allow_undef_symbols no proxy-backed symbol is created for it", key=f"{name}::resolves-always")


@rule("C20.12", ["C20", "C09", "C02", "C05"], "ReferenceCache mirrors, converse direction: every _referents entry / parent pointer has its set-side twin; the indirect-reference test walks whole trees", 7)
def c20_12(ctx: Ctx):
    cls = ctx.repo.cls("_modify.cache.ReferenceCache")
    n = 0
    for name, m in sorted(cls.methods.items()):
        lin = linear(m.node)
        for g in lin.stmts:
            if not isinstance(g.node, ast.Assign) or len(g.node.targets) != 1:
                continue
            t = g.node.targets[0]
            # self._referents[S] = N   <->   N.symbols.add(S)
            if isinstance(t, ast.Subscript) and src(t.value) == "self._referents":
                n += 1
                s, node = src(t.slice), src(g.node.value)
                tw = [x for x, c in lin.all_calls() if src(c) == f"{node}.symbols.add({s})" and x.guard == g.guard]
                ctx.check(bool(tw), m, g.node, f"{name}: `self._referents[{s}] = {node}` has its twin `{node}.symbols.add({s})`",
                          f"the symbol is recorded as living in `{node}` but is not put into that node's symbol set: apply()/get_references never reach it, it keeps `referent None` "
                          "and the end-of-apply assertion `not self._referents` fires", key=f"{name}::referents-twin::{node}")
            # Y.parent = Z  <->  Z.children.add(Y) (+ removal from the old parent unless Y is a detached root)
            if isinstance(t, ast.Attribute) and t.attr == "parent" and isinstance(t.value, ast.Name):
                n += 1
                y, z = t.value.id, src(g.node.value)
                adds = [x for x, c in lin.all_calls() if src(c) == f"{z}.children.add({y})" and x.guard == g.guard]
                ctx.check(bool(adds), m, g.node, f"{name}: `{y}.parent = {z}` has its twin `{z}.children.add({y})`",
                          f"`{y}` points at `{z}` as its parent but is not among `{z}`'s children: the walk from the referent block down never reaches `{y}`'s symbols", key=f"{name}::parent-twin::{y}")
                if name != "retarget_references":   # there the two trees were popped from the table: roots, in nobody's children
                    rms = [x for x, c in lin.all_calls() if isinstance(c.func, ast.Attribute) and c.func.attr == "remove" and src(c.func.value).endswith(".children") and c.args and src(c.args[0]) == y
                           and x.guard == g.guard]
                    ctx.check(bool(rms), m, g.node, f"{name}: re-parenting `{y}` also takes it out of its old parent's children",
                              f"`{y}` is added under `{z}` but stays in its old parent's child set: it is then reachable twice, its symbols are made direct twice (KeyError on the second "
                              "`del self._referents[symbol]`) or re-attached to a node that was meant to be unlinked", key=f"{name}::parent-old-removed::{y}")
    hi = cls.methods.get("_has_indirect_references")
    if hi is None:
        raise AnalysisError("ReferenceCache._has_indirect_references not found")
    lin = linear(hi.node)
    rt = [g for g in lin.stmts if isinstance(g.node, ast.Return) and isinstance(g.node.value, ast.Constant) and g.node.value.value is True]
    rf = [g for g in lin.stmts if isinstance(g.node, ast.Return) and isinstance(g.node.value, ast.Constant) and g.node.value.value is False]
    ext = [g for g, c in lin.all_calls() if src(c) == "worklist.extend(node.children)"]
    pop = [g for g in lin.stmts if isinstance(g.node, ast.Assign) and src(g.node) == "node = worklist.pop()"]
    init = single_assign_value(hi.node, "worklist") if not pop else None
    ok = len(rt) == 1 and rt[0].loops and lin.under(rt[0], "node.symbols") and len(rf) == 1 and not rf[0].loops and len(ext) == 1 and ext[0].loops and len(pop) == 1 and pop[0].loops \
        and pop[0].index < rt[0].index
    n += 1
    ctx.check(ok, hi, hi.node, "_has_indirect_references: depth-first over both trees, True at the first node with symbols, False when exhausted",
              "the walk changed (children not followed / wrong constant returned): a block whose symbols sit in a *grand-child* node (retargeted twice) is taken to have no references, "
              "retarget_references then drops its trees and those symbols are left without referent - or an emptied tree keeps a block alive", key="_has_indirect_references::walk")
    if n < 7:
        raise AnalysisError(f"only {n} mirror sites found in ReferenceCache")


@rule("C10.10", ["C10", "C05", "C02"], "are_joinable does not over-refuse: an *empty* block2 is absorbed even when block1 has end labels or a terminator that falls through into it", 2)
def c10_10(ctx: Ctx):
    fi = ctx.repo.func("_modify.join.are_joinable")
    lin = linear(fi.node)
    refusals = [g for g in lin.stmts if isinstance(g.node, ast.Return) and isinstance(g.node.value, ast.Call) and g.node.value.args
                and isinstance(g.node.value.args[0], ast.Constant) and g.node.value.args[0].value is False]
    if len(refusals) < 8:
        raise AnalysisError(f"are_joinable: only {len(refusals)} refusals found")

    def about(sub: str):
        return [g for g in refusals if any(sub in a for a in _atoms(g.guard)) and not any(any(sub in a for a in _atoms(h.guard)) for h in refusals if h.index < g.index)]

    end = about("get_references(block1)")
    ok = len(end) == 1 and lin.under(end[0], "block2.size")
    ctx.check(ok, fi, end[0].node if end else fi.node, "end labels of block1 forbid the join only when block2 has bytes",
              "the end-label refusal also applies to an empty block2: the zero-sized block a split left behind at the end of a block with an end label can never be merged back, so a no-op "
              "rewrite leaves an extra zero-sized block in the module", key="are_joinable::end-labels-only-if-block2-sized")
    out = about("any_out_edges") or about("block1.outgoing_edges")
    ok = len(out) == 1 and lin.under(out[0], "block2.size != 0 or not falls_through")
    ctx.check(ok, fi, out[0].node if out else fi.node, "other outgoing edges of block1 forbid the join only when block2 has bytes or is not its fallthrough",
              "the outgoing-edge refusal also applies to an empty fallthrough successor: the empty continuation block the assembler appends after a terminator can never be merged back",
              key="are_joinable::out-edges-only-if-buried")


def _bound_in_expr(e: ast.AST) -> set:
    out = set()
    for n in ast.walk(e):
        if isinstance(n, ast.comprehension):
            out |= {t.id for t in ast.walk(n.target) if isinstance(t, ast.Name)}
        elif isinstance(n, ast.Lambda):
            a = n.args
            out |= {x.arg for x in a.args + a.kwonlyargs + a.posonlyargs} | ({a.vararg.arg} if a.vararg else set()) | ({a.kwarg.arg} if a.kwarg else set())
        elif isinstance(n, ast.NamedExpr):
            out.add(n.target.id)
    return out


def _own_exprs(st: ast.stmt) -> List[ast.AST]:
    if isinstance(st, (ast.If, ast.While)):
        return [st.test]
    if isinstance(st, (ast.For, ast.AsyncFor)):
        return [st.iter]
    if isinstance(st, (ast.With, ast.AsyncWith)):
        return [i.context_expr for i in st.items]
    if isinstance(st, ast.Try):
        return []
    if isinstance(st, (ast.FunctionDef, ast.AsyncFunctionDef, ast.ClassDef)):
        return list(st.decorator_list)
    return [st]


def _defs_of(st: ast.stmt) -> set:
    out = set()
    if isinstance(st, ast.Assign):
        for t in st.targets:
            out |= {n.id for n in ast.walk(t) if isinstance(n, ast.Name) and isinstance(n.ctx, ast.Store)}
    elif isinstance(st, ast.AnnAssign) and st.value is not None and isinstance(st.target, ast.Name):
        out.add(st.target.id)
    elif isinstance(st, ast.AugAssign) and isinstance(st.target, ast.Name):
        out.add(st.target.id)
    elif isinstance(st, (ast.For, ast.AsyncFor)):
        out |= {n.id for n in ast.walk(st.target) if isinstance(n, ast.Name)}
    elif isinstance(st, (ast.With, ast.AsyncWith)):
        for i in st.items:
            if i.optional_vars is not None:
                out |= {n.id for n in ast.walk(i.optional_vars) if isinstance(n, ast.Name)}
    elif isinstance(st, (ast.Import, ast.ImportFrom)):
        out |= {(a.asname or a.name).split(".")[0] for a in st.names}
    elif isinstance(st, (ast.FunctionDef, ast.AsyncFunctionDef, ast.ClassDef)):
        out.add(st.name)
    return out


@rule("GEN.undef", ALL_PROPS, "every read of a local variable is preceded, on all paths, by an assignment (guard-aware definite assignment)", 1, scoped=True)
def gen_undef(ctx: Ctx):
    from ..astx import f_or

    reads = 0
    for q, fi in sorted(ctx.repo.funcs.items()):
        if q.startswith(("driver.", "assembler.__main__")):
            continue
        fn = fi.node
        a = fn.args
        params = {x.arg for x in a.args + a.kwonlyargs + a.posonlyargs} | ({a.vararg.arg} if a.vararg else set()) | ({a.kwarg.arg} if a.kwarg else set())
        lin = linear(fn)
        defs = [(g, _defs_of(g.node)) for g in lin.stmts]
        locs = set().union(*[d for _, d in defs]) - params if defs else set()
        locs -= {nm for x in ast.walk(fn) if isinstance(x, (ast.Nonlocal, ast.Global)) for nm in x.names}   # assigned here, but defined (and initialised) in an enclosing scope
        if not locs:
            continue
        handlers = {h.name for n in walk_no_nested(fn) if isinstance(n, ast.Try) for h in n.handlers if h.name}
        never = [g for g in lin.stmts if isinstance(g.node, ast.Expr) and isinstance(g.node.value, ast.Call) and src(g.node.value.func) in ("assert_never", "typing.assert_never")]
        # `while True:` is left only through a `break`: a name assigned before every break of the loop (under a guard the
        # break's guard implies) is assigned after the loop, although the assignment is "inside a loop the read is outside of"
        for lp in [x for x in lin.stmts if isinstance(x.node, ast.While) and isinstance(x.node.test, ast.Constant) and x.node.test.value and not x.node.orelse]:
            inside = [x for x in lin.stmts if lp.node in x.loops]
            breaks = [x for x in inside if isinstance(x.node, ast.Break) and x.loops[-1] is lp.node]
            if not breaks:
                continue
            sure = None
            for b in breaks:
                here = set()
                for d, names in defs:
                    if lp.node in d.loops and d.index < b.index and tuple(b.loops[: len(d.loops)]) == tuple(d.loops) and implies(b.guard, d.guard):
                        here |= names
                sure = here if sure is None else sure & here
            if sure:
                end = max(x.index for x in inside)
                defs.append((dataclasses.replace(lp, index=end), set(sure)))
        reported = set()
        for g in lin.stmts:
            for e in _own_exprs(g.node):
                bound = _bound_in_expr(e)
                for n in ast.walk(e):
                    if not (isinstance(n, ast.Name) and isinstance(n.ctx, ast.Load) and n.id in locs and n.id not in bound and n.id not in handlers):
                        continue
                    reads += 1
                    cands = []
                    for d, names in defs + [(x, {n.id}) for x in never]:
                        if n.id in names and d.index < g.index and len(d.loops) <= len(g.loops) and tuple(g.loops[: len(d.loops)]) == tuple(d.loops):
                            cands.append(d.guard)
                    if cands and implies(g.guard, f_or(*cands)):
                        continue
                    if (q, n.id) in reported:
                        continue
                    reported.add((q, n.id))
                    ctx.fail(fi, g.node, f"`{n.id}` may be read before it is assigned",
                             f"`{src(g.node)[:80]}` reads `{n.id}`, but no assignment dominates it (the initialisation was removed, moved under a condition, or into a loop that may run "
                             "zero times): the first time this path is taken the rewrite dies with UnboundLocalError half-way - or, inside a loop, silently uses the previous iteration's value",
                             key=f"{q}::undef::{n.id}")
    ctx.ok(ctx.repo.mod("rewriting"), None, f"{reads} reads of local variables checked for a dominating assignment", nontrivial=False, key="GEN.undef::scan")
    if reads < 1500:
        raise AnalysisError(f"only {reads} reads of locals scanned")


_SWALLOW_OK = {
    ("_modify.edit._cleanup_modified_blocks", "UnjoinableBlocksError"): "a refused join is the expected outcome: the blocks simply stay apart",
}


@rule("GEN.swallow", ALL_PROPS, "an exception handler re-raises, converts or recovers - it never just logs and carries on", 1, scoped=True)
def gen_swallow(ctx: Ctx):
    n = 0
    for q, fi in sorted(ctx.repo.funcs.items()):
        if q.startswith(("driver.", "assembler.__main__")):
            continue
        for t in walk_no_nested(fi.node):
            if not isinstance(t, ast.Try):
                continue
            for h in t.handlers:
                n += 1
                ty = src(h.type) if h.type is not None else "BaseException"
                acts = [s for st in h.body for s in ast.walk(st) if isinstance(s, (ast.Raise, ast.Return, ast.Continue, ast.Break, ast.Assign, ast.AugAssign, ast.AnnAssign, ast.Yield))]
                if acts:
                    ctx.ok(fi, h, f"{q}: `except {ty}` raises/returns/recovers", key=f"{q}::swallow::{ty}", nontrivial=False)
                    continue
                why = _SWALLOW_OK.get((q, ty))
                if why:
                    ctx.ok(fi, h, f"{q}: `except {ty}` deliberately ignores the error", why, key=f"{q}::swallow::{ty}", nontrivial=False)
                    continue
                ctx.fail(fi, h, f"`except {ty}` neither re-raises nor recovers",
                         f"the handler only calls `{src(h.body[0])[:60] if h.body else 'nothing'}` and falls through: the failed operation (e.g. a patch that does not assemble) is treated as done and the "
                         "rewrite continues with a half-built result", key=f"{q}::swallow::{ty}")
    ctx.ok(ctx.repo.mod("rewriting"), None, f"{n} exception handlers examined", nontrivial=False, key="GEN.swallow::scan")
    if n < 5:
        raise AnalysisError(f"only {n} exception handlers found")


@rule("C07.12", ["C07", "C13"], "a scope is refused only when the context really has no functions; an inserted function's patch is applied at offset 0 of its stub and told so", 3)
def c07_12(ctx: Ctx):
    repo = ctx.repo
    fi = repo.func("rewriting.RewritingContext.register_insert")
    lin = linear(fi.node)
    rs = [g for g in lin.stmts if isinstance(g.node, ast.Raise) and g.node.exc is not None and "UnresolvableScopeError" in src(g.node.exc)]
    if len(rs) != 1:
        raise AnalysisError("register_insert: UnresolvableScopeError not found")
    ok = lin.under(rs[0], "not self._functions") and lin.under(rs[0], "scope._needs_functions()")
    ctx.check(ok, fi, rs[0].node, "UnresolvableScopeError only when there are no functions and the scope needs them",
              f"raised under `{f_show(rs[0].guard)[:90]}`: function scopes are refused although the context was given functions (or a block scope is refused)", key="register_insert::refusal")
    adds = [g for g, c in lin.all_calls() if src(c.func) == "self._modifications.add"]
    ctx.check(len(adds) == 1 and not adds[0].loops, fi, adds[0].node if adds else fi.node,
              "the registration is stored once", "registration storing changed", key="register_insert::stored")
    fa = repo.func("rewriting.RewritingContext._apply_function_insertion")
    ic = [c for c in calls_in(fa.node) if src(c.func) == "InsertionContext"]
    ip = [c for c in calls_in(fa.node) if src(c.func) == "self._invoke_patch"]
    ins = [c for c in calls_in(fa.node) if src(c.func) == "self._insert_assembler_result"]
    if len(ic) != 1 or len(ip) != 1 or len(ins) != 1:
        raise AnalysisError("_apply_function_insertion: context / _invoke_patch / _insert_assembler_result not found")

    def zero(e):
        return isinstance(e, ast.Constant) and e.value == 0 and not isinstance(e.value, bool)

    offs = {"InsertionContext offset": ic[0].args[3] if len(ic[0].args) > 3 else None, "_invoke_patch offset": ip[0].args[2] if len(ip[0].args) > 2 else None}
    for what, e in offs.items():
        ctx.check(e is not None and zero(e), fa, e or fa.node, f"function insertion: {what} is 0",
                  f"{what} is `{src(e) if e is not None else '?'}`: the body of an inserted function starts at offset 0 of its (empty) stub block; any other value is reported to the patch / "
                  "used for the unreachability test although no such offset exists", key=f"_apply_function_insertion::{what}")


@rule("GEN.missingreturn", ALL_PROPS, "a function annotated with a non-Optional result returns a value on every path", 1, scoped=True)
def gen_missingreturn(ctx: Ctx):
    from ..astx import satisfiable

    n = 0
    for q, fi in sorted(ctx.repo.funcs.items()):
        fn = fi.node
        if fn.returns is None or q.startswith(("driver.", "assembler.__main__")):
            continue
        r = src(fn.returns)
        if "None" in r:
            continue
        if any(isinstance(x, (ast.Yield, ast.YieldFrom)) for x in walk_no_nested(fn)):
            continue
        body = [s for s in fn.body if not (isinstance(s, ast.Expr) and isinstance(s.value, ast.Constant))]
        if any(src(d).endswith(("abstractmethod", "overload")) for d in fn.decorator_list):
            continue
        if not body or all(isinstance(s, ast.Pass) for s in body):
            # an empty body is a stub only for a hook that every direct subclass overrides (abstract method / protocol member)
            cls = next((c for c in ctx.repo.classes.values() if any(m is fi for m in c.methods.values())), None)
            subs = [c for c in ctx.repo.classes.values() if cls is not None and any(b.split(".")[-1] == cls.name for b in c.bases)]
            if cls is None or "Protocol" in " ".join(cls.bases) or (subs and all(fn.name in c.methods for c in subs)):
                continue
        n += 1
        lin = linear(fn)
        # typing.assert_never(...) does not return: paths through it do not reach the end
        from ..astx import f_and, f_not
        eg = lin.exit_guard
        for g in lin.stmts:
            if isinstance(g.node, ast.Expr) and isinstance(g.node.value, ast.Call) and src(g.node.value.func) in ("assert_never", "typing.assert_never") and not g.loops:
                eg = f_and(eg, f_not(g.guard))
        if satisfiable(eg):
            ctx.fail(fi, fn.body[-1], f"`{q.split('.')[-1]}` can fall off its end although it is declared `-> {r}`",
                     f"under `{f_show(eg)[:100]}` no return statement is reached and the caller receives None instead of a `{r}`: the first use (`.sizes`, iteration, arithmetic) fails "
                     "far from the cause, or None is silently taken as 'no'/'empty'", key=f"{q}::missing-return")
    ctx.ok(ctx.repo.mod("abi"), None, f"{n} annotated non-Optional functions end in return/raise on every path", nontrivial=False, key="GEN.missingreturn::scan")
    if n < 150:
        raise AnalysisError(f"only {n} annotated functions scanned")


@rule("GEN.emptyif", ALL_PROPS, "no condition is tested for nothing (`if c: pass` without else, a loop whose body is `pass`)", 1, scoped=True)
def gen_emptyif(ctx: Ctx):
    n = 0

    def only_pass(body):
        return bool(body) and all(isinstance(s, ast.Pass) for s in body)

    for name, m in sorted(ctx.repo.mods.items()):
        if name.startswith(("driver", "assembler.__main__")):
            continue
        raw = ast.parse(m.source)   # the loader drops `pass`; this lint is about exactly that statement
        funcs = {}
        for q, fi in ctx.repo.funcs.items():
            if fi.mod is m:
                funcs[(fi.node.lineno, fi.node.name)] = (q, fi)
        for fn in [x for x in ast.walk(raw) if isinstance(x, (ast.FunctionDef, ast.AsyncFunctionDef))]:
            hit = funcs.get((fn.lineno, fn.name))
            if hit is None:
                continue
            q, fi = hit
            for node in walk_no_nested(fn):
                if isinstance(node, ast.If):
                    n += 1
                    if only_pass(node.body) and not node.orelse:
                        ctx.fail(fi, node, f"`if {src(node.test)[:60]}: pass`",
                                 "the condition is evaluated and nothing happens: whatever this branch used to do (refuse the input, return early, record something) is gone and the function "
                                 "carries on as if the condition were false", key=f"{q}::emptyif::{src(node.test)[:60]}")
                    # (`if c: X else: pass` is not reported: it is the mirror image of the accepted idiom `if c: pass else: X`)
                elif isinstance(node, (ast.For, ast.While)):
                    n += 1
                    if only_pass(node.body):
                        ctx.fail(fi, node, f"loop `{src(node)[:50]}` has an empty body", "the loop iterates and does nothing", key=f"{q}::emptyloop::{node.lineno - fn.lineno}")
    ctx.ok(ctx.repo.mod("rewriting"), None, f"{n} if/for/while statements examined for empty bodies", nontrivial=False, key="GEN.emptyif::scan")
    if n < 700:
        raise AnalysisError(f"only {n} compound statements scanned")


@rule("C12.17", ["C12", "C05", "C08", "C02"], "assembler bookkeeping II: data operands are not branches; converted blocks take their table entries along; implicit procedures exist only in the text section", 5)
def c12_17(ctx: Ctx):
    repo = ctx.repo
    ev = repo.func("assembler.assembler._Streamer.emit_value_impl") if "assembler.assembler._Streamer.emit_value_impl" in repo.funcs else None
    sites = []
    for q, fi in repo.funcs.items():
        if q.startswith("assembler.assembler._Streamer.") and not q.endswith("_mcexpr_to_symbolic_operand"):
            for c in calls_in(fi.node):
                if src(c.func) == "self._mcexpr_to_symbolic_operand" and len(c.args) >= 2:
                    sites.append((q, fi, c))
    if len(sites) < 2:
        raise AnalysisError("call sites of _mcexpr_to_symbolic_operand not found")
    for q, fi, c in sites:
        a = c.args[1]
        if q.endswith(("emit_value_impl", "emit_value")):
            ok = isinstance(a, ast.Constant) and a.value is False
            ctx.check(ok, fi, c, "a data value (`.quad sym`) is converted with is_branch=False",
                      f"is_branch is `{src(a)}`: in a PIE every `.quad ext` / `.long ext` to an external symbol gets the PLT attribute meant for call/jmp operands", key="emit_value::not-a-branch")
        else:
            ok = isinstance(a, ast.Name)
            ctx.check(ok, fi, c, f"{q.split('.')[-1]}: is_branch is passed through from the instruction description", f"is_branch is the constant `{src(a)}`", key=f"{q.split('.')[-1]}::is-branch-passed")
    rs = repo.func("assembler.assembler.Assembler._replace_symbol_referents")
    d = rs.node.args.defaults
    ok = len(d) == 1 and isinstance(d[0], ast.Constant) and d[0].value is False
    ctx.check(ok, rs, rs.node, "_replace_symbol_referents leaves at_end alone unless asked (make_at_end defaults to False)",
              "make_at_end defaults to True: every label moved from a folded or converted block becomes an end-of-block label and designates the byte *after* the data it named",
              key="_replace_symbol_referents::default")
    cd = repo.func("assembler.assembler.Assembler._convert_data_blocks")
    lin = linear(cd.node)
    for tab in ("section.alignment", "section.line_map"):
        st = [g for g in lin.stmts if isinstance(g.node, ast.Assign) and src(g.node.targets[0]) == f"{tab}[new_block]"]
        dl = [g for g in lin.stmts if isinstance(g.node, ast.Delete) and any(src(t) == f"{tab}[block]" for t in g.node.targets)]
        dl += [g for g, c in lin.all_calls() if src(c.func) == f"{tab}.pop" and c.args and src(c.args[0]) == "block"]
        ok = len(st) == 1 and len(dl) >= 1 and implies(st[0].guard, dl[0].guard)
        ctx.check(ok, cd, st[0].node if st else cd.node, f"`{tab}` entry of a converted block moves to the DataBlock (old key removed)",
                  f"the CodeBlock that was replaced stays as a key of `{tab}`: insert() copies the table into the module's aux data, which then names a block that is not part of the module",
                  key=f"_convert_data_blocks::{tab}-moved")
    sp = repo.func("assembler.assembler._Streamer.emit_cfi_start_proc_impl")
    v = single_assign_value(sp.node, "is_implicit")
    ls = linear(sp.node)
    ok = v is not None
    if ok:
        a = ls.cond(v, {})
        b = ls.cond(ast.parse("self._state.implicit_cfi_procedure and self._state.current_section == self._state.text_section", mode="eval").body, {})
        ok = implies(a, b) and implies(b, a)
    ctx.check(ok, sp, sp.node, "a procedure is implicit only when implicit procedures are on *and* it starts in the text section",
              f"is_implicit = `{src(v)[:90] if v is not None else '?'}`: an explicit `.cfi_startproc` in another section of a block patch is treated as the implicit one - it gets no start offset "
              "and its .cfi_startproc/.cfi_endproc never reach cfiDirectives", key="emit_cfi_start_proc_impl::implicit-only-in-text")


@rule("C06.10", ["C06", "C05"], "entry promotion has no condition beyond the documented ones; an inserted function is entered in every function table on every file format", 6)
def c06_10(ctx: Ctx):
    repo = ctx.repo
    fi = repo.func("_modify.remove._update_functions_aux_data")
    lin = linear(fi.node)
    adds = [g for g, c in lin.all_calls() if isinstance(c.func, ast.Attribute) and c.func.attr == "add" and "aux_function_entries" in src(c.func.value)]
    if len(adds) != 1:
        raise AnalysisError("_update_functions_aux_data: promotion statement not found")
    g = adds[0]
    want = lin.cond_at(g, ast.parse(
        "isinstance(block, gtirb.CodeBlock) and function_uuid and aux_function_entries and block in aux_function_entries[function_uuid] "
        "and isinstance(next_block, gtirb.CodeBlock) and cache.in_same_function(block, next_block)", mode="eval").body)
    ctx.check(implies(want, g.guard), fi, g.node, "the next code block of the same function is promoted whenever the removed block was an entry",
              f"promotion happens only under `{f_show(g.guard)[:150]}`: with an extra condition (size, edges, ...) a function whose entry is deleted keeps blocks but has no entry block",
              key="_update_functions_aux_data::no-extra-condition")
    st = repo.func("rewriting.RewritingContext._insert_function_stub")
    ls = linear(st.node)
    tables = {"function_entries": "{block}", "function_blocks": "{block}", "function_names": "sym"}
    for tab, val in tables.items():
        ws = [x for x in ls.stmts if isinstance(x.node, ast.Assign) and src(x.node.targets[0]) == f"{tab}[func_uuid]"]
        ok = len(ws) == 1 and implies(TRUE, ws[0].guard) and src(ws[0].node.value) == val
        ctx.check(ok, st, ws[0].node if ws else st.node, f"the stub is entered in `{tab}` unconditionally",
                  f"`{tab}[func_uuid]` is {'not written' if not ws else 'written under `' + f_show(ws[0].guard)[:60] + '`'}: on some file formats the inserted function is in one function table "
                  "but not in the others", key=f"_insert_function_stub::{tab}")
    cw = [x for x in ls.stmts if isinstance(x.node, ast.Assign) and src(x.node.targets[0]) == "modify_cache.functions_by_block[block]"]
    ctx.check(len(cw) == 1 and implies(TRUE, cw[0].guard) and src(cw[0].node.value) == "func_uuid", st, cw[0].node if cw else st.node, "the cache learns the stub's function unconditionally",
              "functions_by_block is not updated for the stub", key="_insert_function_stub::cache")
    es = [x for x in ls.stmts if isinstance(x.node, ast.Assign) and src(x.node.targets[0]) == "symbol_info[sym]"]
    ok = len(es) == 1 and _equiv_guard(ls, es[0], "self._module.file_format == gtirb.Module.FileFormat.ELF") and "'FUNC'" in src(es[0].node.value)
    ctx.check(ok, st, es[0].node if es else st.node, "on ELF (and only there) the function symbol gets a FUNC elfSymbolInfo entry",
              "the elfSymbolInfo entry of the inserted function's symbol is missing / written for the wrong format", key="_insert_function_stub::elf-symbol-info")


def _uleb(v: int) -> bytes:
    out = bytearray()
    while True:
        b = v & 0x7F
        v >>= 7
        if v:
            out.append(b | 0x80)
        else:
            out.append(b)
            return bytes(out)


def _sleb(v: int) -> bytes:
    out = bytearray()
    while True:
        b = v & 0x7F
        v >>= 7
        done = (v == 0 and not b & 0x40) or (v == -1 and b & 0x40)
        out.append(b if done else b | 0x80)
        if done:
            return bytes(out)


@rule("C14.7", ["C14", "C15"], "LEB128 encoders: whatever shortcut precedes the library call produces exactly the DWARF encoding", 2)
def c14_7(ctx: Ctx):
    for cname, ref, lo in (("_ULEB128Encoder", _uleb, 0), ("_SLEB128Encoder", _sleb, -300)):
        fi = ctx.repo.func(f"dwarf._encoders.{cname}.encode")
        lin = linear(fi.node)
        rets = [g for g in lin.stmts if isinstance(g.node, ast.Return) and g.node.value is not None]
        if not rets:
            raise AnalysisError(f"{cname}.encode: no return found")
        short = [g for g in rets if not ("leb128." in src(g.node.value))]
        if not short:
            ctx.ok(fi, rets[0].node, f"{cname}.encode delegates to the leb128 library on every path", key=f"{cname}.encode::delegates")
            continue
        bad = None
        for g in short:
            v = g.node.value
            elems = None
            if isinstance(v, ast.Call) and src(v.func) in ("bytearray", "bytes") and len(v.args) == 1 and isinstance(v.args[0], (ast.Tuple, ast.List)):
                elems = v.args[0].elts
            if elems is None:
                raise AnalysisError(f"{cname}.encode: shortcut `{src(v)[:60]}` not interpretable")
            # the guard of the shortcut, as a predicate over `value`
            conds = [i.test for i in walk_no_nested(fi.node) if isinstance(i, ast.If) and any(s is g.node for st in i.body for s in ast.walk(st))]
            for val in range(lo, 400):
                try:
                    taken = all(bool(minieval(c, {"value": val})) for c in conds)
                    if not taken:
                        continue
                    got = bytes(int(minieval(e, {"value": val})) & 0xFF for e in elems)
                except Unknown as exc:
                    raise AnalysisError(f"{cname}.encode: shortcut not interpretable: {exc}")
                if got != ref(val):
                    bad = (val, got.hex(), ref(val).hex())
                    break
            if bad:
                break
        ctx.check(bad is None, fi, short[0].node, f"{cname}.encode: the shortcut agrees with the LEB128 definition on every value it accepts",
                  f"for value {bad[0] if bad else ''} the shortcut emits `{bad[1] if bad else ''}` but the DWARF encoding is `{bad[2] if bad else ''}`: the byte decodes to a different number",
                  key=f"{cname}.encode::shortcut")


@rule("C10.11", ["C10", "C04", "C05"], "what prepare_for_rewriting hands to the re-join is looked up *after* the rewrite (the rewrite may create aux-data tables)", 1)
def c10_11(ctx: Ctx):
    fi = ctx.repo.func("prepare.prepare_for_rewriting")
    ys = [n for n in walk_no_nested(fi.node) if isinstance(n, ast.Expr) and isinstance(n.value, ast.Yield)]
    if len(ys) != 1:
        raise AnalysisError("prepare_for_rewriting: single yield not found")
    yl = ys[0].lineno
    joins = [c for c in calls_in(fi.node) if src(c.func) == "join_byte_intervals" and c.lineno > yl]
    if not joins:
        raise AnalysisError("prepare_for_rewriting: join_byte_intervals after the yield not found")
    n = 0
    for c in joins:
        vals = list(c.args[2:]) + [k.value for k in c.keywords if k.arg in ("alignment", "tables")]
        for v in vals:
            if not isinstance(v, ast.Name):
                continue
            n += 1
            asg = [a for a in walk_no_nested(fi.node) if isinstance(a, (ast.Assign, ast.AnnAssign)) and any(isinstance(t, ast.Name) and t.id == v.id for t in (a.targets if isinstance(a, ast.Assign) else [a.target]))]
            fresh = any(a.lineno > yl and a.lineno < c.lineno for a in asg)
            ctx.check(fresh or not asg, fi, c, f"`{v.id}` passed to join_byte_intervals is (re)fetched after the yield",
                      f"`{v.id}` is only computed before the rewrite runs: a table the rewrite itself creates (symbolicExpressionSizes, comments, alignment on a module that had none) is missing from it, "
                      "so its entries are not relocated when the per-block intervals are joined and stay keyed on intervals that are then detached from the module",
                      key=f"prepare_for_rewriting::fresh::{v.id}")
    if n < 1:
        raise AnalysisError("prepare_for_rewriting: no table argument of join_byte_intervals recognised")


@rule("C20.13", ["C20", "C04"], "merging into an OffsetMapping never replaces an element's whole inner mapping", 1)
def c20_13(ctx: Ctx):
    cls = ctx.repo.cls("_adt.offset_mapping.OffsetMapping")
    n = 0
    for name, m in sorted(cls.methods.items()):
        if name in ("__setitem__", "__init__"):
            continue
        lin = linear(m.node)
        for g in lin.stmts:
            if not isinstance(g.node, ast.Assign):
                continue
            for t in g.node.targets:
                whole = isinstance(t, ast.Subscript) and src(t.value) in ("self", "self._data") and not (isinstance(t.slice, ast.Call) and "Offset" in src(t.slice.func))
                if not whole:
                    continue
                n += 1
                k = src(t.slice)
                ok = lin.under(g, f"{k} not in self._data") or lin.under(g, f"{k} not in self")
                ctx.check(ok, m, g.node, f"{name}: `{src(t)} = ...` only for an element that has no entries yet",
                          f"`{src(g.node)[:70]}` replaces everything recorded for `{k}`: Offsets of that element that are not in the source of the merge are dropped "
                          "(e.g. the cfiDirectives a block already had when a patch's directives are merged in)", key=f"OffsetMapping.{name}::whole-element-store")
    ctx.ok(cls.methods["__setitem__"], None, f"{n} whole-element stores outside __setitem__ examined", nontrivial=False, key="C20.13::scan")
