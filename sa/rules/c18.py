"""C18 - retarget_symbol_uses is complete and precise."""

from __future__ import annotations

import ast
import copy
from typing import Dict, List, Set

from .. import aux
from ..astx import calls_in, canon, dump, f_show, linear, single_assign_value, src, walk_no_nested
from ..core import AnalysisError, Ctx, rule
from ..region import Unknown, minieval

RT = "_modify.retarget."


@rule("C18.1", ["C18"], "uses of the old symbol in cfiDirectives, symbolForwarding targets and all symbolic expressions are rewritten; identity tables are not", 8)
def c18_1(ctx: Ctx):
    repo = ctx.repo
    fi = repo.func(RT + "retarget_symbol_uses")
    touched = aux.tables_touched(repo, fi)
    sym_tables = {v for v, t in aux.table_defs(repo).items() if "gtirb.Symbol" in t.py_type}
    use_tables = {"cfi_directives", "symbol_forwarding"}
    for t in sorted(sym_tables):
        name = aux.gt_name(repo, t)
        if t in use_tables:
            ctx.check(t in touched, fi, fi.node, f"{name} (holds *uses* of symbols) is rewritten", f"{name} is not consulted: references to the old symbol stay behind", key=f"C18.1::{t}")
        else:
            ctx.check(t not in touched, fi, fi.node, f"{name} (describes the symbol itself) is left alone", f"{name} is modified by retargeting: entries about A itself must stay", key=f"C18.1::{t}")
    lin = linear(fi.node)
    # cfi: directives[i] = (directive, args, retarget), no early exit
    st = [g for g in lin.stmts if isinstance(g.node, ast.Assign) and src(g.node.targets[0]) == "directives[i]"]
    ok = len(st) == 1 and src(st[0].node.value).replace(" ", "") == "(directive,args,retarget)" and lin.under(st[0], "isinstance(symbol, gtirb.Symbol)") and lin.under(st[0], "retarget")
    ctx.check(ok, fi, st[0].node if st else fi.node, "a directive naming A is rebuilt with the same name/operands and B", "CFI rewrite changed")
    rv = [g for g in lin.stmts if isinstance(g.node, ast.Assign) and src(g.node.targets[0]) == "retarget"]
    ctx.check(any(src(g.node.value) == "retargeted_symbols.get(symbol)" for g in rv) and any(src(g.node.value) == "retargeted_symbols.get(to_sym)" for g in rv) and any(src(g.node.value) == "retargeted_symbols.get(sym)" for g in rv),
              fi, fi.node, "the replacement is looked up for the directive's symbol, the forwarding *target*, and each expression symbol", "lookup keys changed")
    sf = [g for g in lin.stmts if isinstance(g.node, ast.Assign) and src(g.node.targets[0]) == "symbol_forwarding[from_sym]"]
    ctx.check(len(sf) == 1 and src(sf[0].node.value) == "retarget", fi, sf[0].node if sf else fi.node, "forwarding entries that point to A now point to B (keys untouched)", "symbolForwarding rewrite changed")
    for n in walk_no_nested(fi.node):
        if isinstance(n, (ast.Break, ast.Return)):
            ctx.fail(fi, n, f"`{type(n).__name__.lower()}` inside retarget_symbol_uses", "a loop is left early: only the first use (per offset / table / interval) would be rewritten")
    loops = [src(n.iter) for n in walk_no_nested(fi.node) if isinstance(n, ast.For)]
    for need in ("cfi_auxdata.values()", "enumerate(directives)", "symbol_forwarding.items()", "module.byte_intervals", "byte_interval.symbolic_expressions.items()", "expr.symbols"):
        ctx.check(need in loops, fi, fi.node, f"iterates {need}", f"loop over {need} is gone: {loops}")
    wr = [g for g in lin.stmts if isinstance(g.node, ast.Assign) and src(g.node.targets[0]) == "byte_interval.symbolic_expressions[offset]"]
    ctx.check(len(wr) == 1 and src(wr[0].node.value) == "new_expr" and lin.under(wr[0], "new_expr is not expr"), fi, wr[0].node if wr else fi.node,
              "only expressions that actually changed are written back, at their own offset", "write-back changed")


@rule("C18.2", ["C18"], "invalid retarget requests are refused before anything is recorded", 6)
def c18_2(ctx: Ctx):
    repo = ctx.repo
    fi = repo.func("rewriting.RewritingContext.retarget_symbol_uses")
    lin = linear(fi.node)
    store = [g for g in lin.stmts if isinstance(g.node, ast.Assign) and src(g.node.targets[0]) == "self._symbol_retargets[old_symbol]"]
    ctx.check(len(store) == 1 and src(store[0].node.value) == "new_symbol", fi, store[0].node if store else fi.node, "the request is recorded as old -> new", "recording changed")
    raises = [g for g in lin.stmts if isinstance(g.node, ast.Raise) and "ValueError" in src(g.node)]
    conds = {
        "foreign old symbol": "old_symbol.module is not self._module",
        "foreign new symbol": "new_symbol.module is not self._module",
        "old symbol retargeted twice": "old_symbol in self._symbol_retargets",
        "new symbol without referent": "new_symbol.referent is None",
    }
    for name, c in conds.items():
        hit = [g for g in raises if lin.under(g, c)]
        ok = bool(hit) and store and all(h.index < store[0].index for h in hit)
        # the refusal must depend on nothing else
        if hit:
            g = hit[0]
            from ..astx import f_atoms

            own = lin.cond_at(g, ast.parse(c, mode="eval").body)
            ok = ok and any(f_atoms(own) <= f_atoms(h.guard) for h in hit)
        ctx.check(bool(ok), fi, hit[0].node if hit else fi.node, f"refuses: {name}", f"no ValueError when `{c}` (or it is raised after the request was stored)", key=f"C18.2::{name}")
    ro = repo.func(RT + "_retarget_out_edges")
    lr = linear(ro.node)
    r = [g for g in lr.stmts if isinstance(g.node, ast.Raise)]
    ue = [(g, c) for g, c in lr.all_calls() if src(c.func) == "update_edge"]
    ok = len(r) == 1 and lr.under(r[0], "not isinstance(retarget.referent, gtirb.CfgNode)") and "AmbiguousIRError" in src(r[0].node) and ue and r[0].index < ue[0][0].index
    ctx.check(ok, ro, r[0].node if r else ro.node, "control flow is never retargeted into a non-CFG node (error before the edge moves)", "refusal changed")


@rule("C18.3", ["C18"], "exactly the Branch/Call edges to the old referent move, only for control-flow uses, only in the instruction's block", 8)
def c18_3(ctx: Ctx):
    repo = ctx.repo
    ro = repo.func(RT + "_retarget_out_edges")
    ifs = [n for n in walk_no_nested(ro.node) if isinstance(n, ast.If) and "edge.target" in src(n.test)]
    if len(ifs) != 1:
        raise AnalysisError("_retarget_out_edges: edge filter not found")
    t = ifs[0].test
    kinds: Set[str] = set()
    for n in ast.walk(t):
        if isinstance(n, ast.Compare) and isinstance(n.ops[0], ast.In) and src(n.left) == "edge.label.type":
            kinds = {src(e).split(".")[-1] for e in n.comparators[0].elts}
    ctx.check(kinds == {"Branch", "Call"}, ro, t, "moved edge kinds are exactly {Branch, Call}", f"moved kinds are {sorted(kinds)}: fallthrough/return edges do not come from the operand")
    conj = [src(v) for v in t.values] if isinstance(t, ast.BoolOp) and isinstance(t.op, ast.And) else []
    ctx.check("edge.target is sym.referent" in conj, ro, t, "only edges that lead to the old symbol's referent", f"filter is {conj}")
    allowed = {"edge.target is sym.referent", "edge.label"}
    extra = [c for c in conj if c not in allowed and not c.startswith("edge.label.type in")]
    ctx.check(not extra, ro, t, "no further condition narrows which Branch/Call edges follow the operand",
              f"additional condition(s) {extra}: edges that fail them (e.g. indirect `call *sym@GOTPCREL(%rip)` edges) stay on the old referent although the operand now names the new symbol")
    ue = [c for c in calls_in(ro.node) if src(c.func) == "update_edge"]
    ok = len(ue) == 1 and [src(a) for a in ue[0].args] == ["edge", "module.ir.cfg"] and [(k.arg, src(k.value)) for k in ue[0].keywords] == [("target", "retarget.referent")]
    ctx.check(ok, ro, ue[0] if ue else ro.node, "the edge keeps its source/label and gets B's referent as target", "edge update changed")
    lp = [n for n in walk_no_nested(ro.node) if isinstance(n, ast.For)]
    ctx.check(len(lp) == 1 and src(lp[0].iter) == "tuple(block.outgoing_edges)", ro, ro.node, "only out-edges of the block that holds the instruction", "loop changed")
    fi = repo.func(RT + "retarget_symbol_uses")
    lin = linear(fi.node)
    call = [(g, c) for g, c in lin.all_calls() if src(c.func) == "_retarget_out_edges"]
    ok = len(call) == 1 and lin.under(call[0][0], "access_type == _SymExprAttributeRule.AccessType.CONTROL_FLOW") and lin.under(call[0][0], "isinstance(block, gtirb.CfgNode)") and \
        [src(a) for a in call[0][1].args] == ["module", "sym", "retarget", "block"]
    ctx.check(ok, fi, call[0][1] if call else fi.node, "edges move only for control-flow uses (jump/call operands) in a CFG block", "edge retarget condition changed")
    # access type
    at = repo.func(RT + "_sym_expr_access_type")
    gens = [n for n in ast.walk(at.node) if isinstance(n, ast.GeneratorExp)]
    if len(gens) != 1 or not gens[0].generators[0].ifs:
        raise AnalysisError("_sym_expr_access_type: instruction lookup not found")
    cond = gens[0].generators[0].ifs[0]
    bad = []
    for a, s in ((100, 4),):
        for x in range(98, 107):
            try:
                got = bool(minieval(cond, {"inst.address": a, "inst.size": s, "expr_addr": x}))
            except Unknown as exc:
                raise AnalysisError(f"instruction lookup not interpretable: {exc}")
            if got != (a <= x < a + s):
                bad.append(x)
    ctx.check(not bad, at, cond, "an expression belongs to the instruction whose bytes [address, address+size) contain it",
              f"for an instruction at 100 of size 4 the lookup {'also ' if bad else ''}matches addresses {bad}: an expression at the first byte of the next "
              "instruction is attributed to the previous one (fixed-width ISAs: `nop; bl A` -> the call edge is not moved)")
    ea = single_assign_value(at.node, "expr_addr")
    ctx.check(ea is not None and src(ea).replace(" ", "") == "block.address+offset", at, ea or at.node, "expression address = block address + offset in block", "changed")
    t = " ".join(src(at.node).split())
    ctx.check("instruction.group(capstone.CS_GRP_JUMP) or instruction.group(capstone.CS_GRP_CALL)" in t and "return _SymExprAttributeRule.AccessType.CONTROL_FLOW" in t, at, at.node,
              "jumps and calls are control-flow uses", "classification changed")
    off = [c for c in calls_in(fi.node) if src(c.func) == "_sym_expr_access_type"]
    ctx.check(len(off) == 1 and [src(a).replace(" ", "") for a in off[0].args] == ["block", "offset-block.offset", "decoder"], fi, off[0] if off else fi.node,
              "the offset handed to the classifier is relative to the block", "argument changed")


@rule("C18.4", ["C18"], "attributes follow one matching internal/external rule; old and new symbol are classified the same way; addend kept", 6)
def c18_4(ctx: Ctx):
    repo = ctx.repo
    fi = repo.func(RT + "_retarget_sym_expr")
    od = single_assign_value(fi.node, "old_defined")
    nd = single_assign_value(fi.node, "new_defined")
    ok = od is not None and nd is not None

    def norm(e, name):
        class R(ast.NodeTransformer):
            def visit_Name(self, n):
                return ast.Name("SYM", n.ctx) if n.id == name else n

        return dump(R().visit(copy.deepcopy(e)))

    same = ok and norm(od, "old_symbol") == norm(nd, "new_symbol")
    ctx.check(bool(same), fi, nd or fi.node, "`defined` is decided by the same predicate for the old and the new symbol",
              f"old_defined = `{src(od) if od else '?'}` but new_defined = `{src(nd) if nd else '?'}`: e.g. a new symbol on a data block is treated as external and keeps A's PLT/GOT attributes")
    ctx.check(ok and "gtirb.ByteBlock" in src(od), fi, od or fi.node, "defined == referent is a ByteBlock (code or data)", f"old_defined = {src(od) if od else '?'}")
    lin = linear(fi.node)
    na = [g for g in lin.stmts if isinstance(g.node, ast.Assign) and src(g.node.targets[0]) == "new_attrs"]
    got = {}
    for g in na:
        if lin.under(g, "not matching_rules"):
            got["none"] = src(g.node.value)
        elif lin.under(g, "len(matching_rules) == 1"):
            got["one"] = src(g.node.value)
    ctx.check(got == {"none": "expr.attributes", "one": "matching_rules[0].get_relevant_attrs(new_defined)"}, fi, fi.node,
              "no rule -> attributes unchanged; one rule -> its attributes for the new symbol's kind", f"attribute selection: {got}")
    r = [g for g in lin.stmts if isinstance(g.node, ast.Raise) and "ValueError" in src(g.node)]
    ctx.check(len(r) == 1 and lin.under(r[0], "not (len(matching_rules) == 1)") and lin.under(r[0], "matching_rules"), fi, fi.node, "several matching rules -> ValueError", "changed")
    mr = single_assign_value(fi.node, "matching_rules")
    ctx.check(mr is not None and "access_type in rule.access_types" in src(mr) and canon("expr.attributes == rule.get_relevant_attrs(old_defined)") in src(mr), fi, mr or fi.node,
              "a rule matches on access type and on the attributes A's kind prescribes", "rule matching changed")
    rets = [n for n in walk_no_nested(fi.node) if isinstance(n, ast.Return)]
    ok = len(rets) == 1 and src(rets[0].value).replace(" ", "") == "gtirb.SymAddrConst(expr.offset,new_symbol,new_attrs)"
    ctx.check(ok, fi, rets[0] if rets else fi.node, "result is SymAddrConst(same addend, B, converted attributes)", "result construction changed")
    gr = repo.func("abi._SymExprAttributeRule.get_relevant_attrs")
    ctx.check("return self.internal_attrs if internal else self.external_attrs" in src(gr.node), gr, gr.node, "internal -> internal_attrs, external -> external_attrs", "swapped")


def _rule_tuples(fn: ast.FunctionDef):
    """return (...) statements of _sym_expr_rules -> list of lists of (internal, external, access) sets"""
    out = []
    for n in ast.walk(fn):
        if isinstance(n, ast.Return) and isinstance(n.value, ast.Tuple):
            rules = []
            for e in n.value.elts:
                if isinstance(e, ast.Call) and src(e.func) == "_SymExprAttributeRule":
                    kw = {k.arg: k.value for k in e.keywords}

                    def names(v):
                        if v is None:
                            return None
                        if isinstance(v, ast.Call) and src(v.func) == "set" and not v.args:
                            return frozenset()
                        if isinstance(v, ast.Set):
                            return frozenset(src(x).split(".")[-1] for x in v.elts)
                        return None

                    acc = names(kw.get("access_types"))
                    rules.append((names(kw.get("internal_attrs")), names(kw.get("external_attrs")), acc if acc is not None else frozenset({"CONTROL_FLOW", "CODE_REF", "DATA"}), e))
            out.append((n, rules))
    return out


# x86-64 / AArch64 ELF PIC conventions for a symbol that turns external (psABI): calls through the PLT,
# code references through the GOT.
SPEC_RULES = {
    ("_X86_64_ELF", "pie"): {(frozenset(), frozenset({"GOT", "PCREL"}), frozenset({"CODE_REF"})), (frozenset(), frozenset({"PLT"}), frozenset({"CONTROL_FLOW"}))},
    ("_X86_64_ELF", "nonpie"): {(frozenset(), frozenset({"PLT"}), frozenset({"CONTROL_FLOW", "CODE_REF"}))},
    ("_ARM64_ELF", "pie"): {(frozenset({"LO12"}), frozenset({"LO12", "GOT"}), frozenset({"CODE_REF"})), (frozenset(), frozenset({"GOT"}), frozenset({"CODE_REF"}))},
    ("_ARM64_ELF", "nonpie"): set(),
}


@rule("C18.5", ["C18"], "each ABI's attribute-conversion rules are unambiguous and follow the platform's PIC conventions", 6)
def c18_5(ctx: Ctx):
    repo = ctx.repo
    for cname in ("_X86_64_ELF", "_ARM64_ELF"):
        m = repo.func(f"abi.{cname}._sym_expr_rules")
        lin = linear(m.node)
        groups = _rule_tuples(m.node)
        if len(groups) != 2:
            raise AnalysisError(f"{cname}._sym_expr_rules: expected a PIE and a non-PIE rule tuple, found {len(groups)}")
        for ret, rules in groups:
            g = lin.of(ret)
            mode = "pie" if "_is_elf_pie" in f_show(g.guard) and not f_show(g.guard).startswith("not(") else "nonpie"
            for i in range(len(rules)):
                for j in range(i + 1, len(rules)):
                    a, b = rules[i], rules[j]
                    if None in (a[0], a[1], b[0], b[1]):
                        raise AnalysisError(f"{cname}._sym_expr_rules: rule attributes are not literal sets")
                    common = a[2] & b[2]
                    amb = bool(common) and (a[0] == b[0] or a[1] == b[1])
                    ctx.check(not amb, m, b[3], f"{cname} ({mode}): rules {i} and {j} cannot both match",
                              f"rules {i} and {j} share access type(s) {sorted(common)} and the same "
                              f"{'internal' if a[0] == b[0] else 'external'} attribute set: retargeting such an operand raises `multiple rules matched` "
                              "instead of converting its attributes", key=f"C18.5::{cname}::{mode}::{i}{j}")
            got = {(r[0], r[1], r[2]) for r in rules}
            want = SPEC_RULES[(cname, mode)]
            ctx.check(got == want, m, ret, f"{cname} ({mode}): rule set matches the platform convention",
                      f"rules are {sorted((sorted(a), sorted(b), sorted(c)) for a, b, c in got)}; the platform convention is "
                      f"{sorted((sorted(a), sorted(b), sorted(c)) for a, b, c in want)}", key=f"C18.5::{cname}::{mode}::table")
