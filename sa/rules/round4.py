"""
Rules added after the third round of independently seeded changes. The first
part are generic lints (scoped: a site is reported under every property whose
anchor files contain it); the second part are obligations of single
mechanisms. DESIGN.md section 10 lists the miss that motivated each.
"""

from __future__ import annotations

import ast
from typing import Dict, List, Optional, Set, Tuple

from .. import tables
from ..astx import TRUE, calls_in, canon, f_atoms, f_show, find_assign, implies, linear, single_assign_value, src, walk_no_nested
from ..core import ALL_PROPS, AnalysisError, Ctx, FuncInfo, rule
from ..region import Unknown, minieval

# ----------------------------------------------------------------------------
# generic lints
# ----------------------------------------------------------------------------

ADDITIVE = {"update", "append", "add", "extend", "setdefault", "insert", "appendleft"}


def _fresh(n: ast.AST) -> bool:
    if isinstance(n, ast.Dict):
        return not n.keys
    if isinstance(n, (ast.List, ast.Set)):
        return not n.elts
    return isinstance(n, ast.Call) and not n.args and not n.keywords and src(n.func) in ("dict", "list", "set")


def _is_get_with_fresh_default(v: ast.AST) -> bool:
    return (
        isinstance(v, ast.Call) and isinstance(v.func, ast.Attribute) and v.func.attr == "get"
        and len(v.args) == 2 and _fresh(v.args[1])
    )


def _reads(node: ast.AST, name: str) -> bool:
    return any(isinstance(x, ast.Name) and x.id == name and isinstance(x.ctx, ast.Load) for x in ast.walk(node))


@rule("GEN.lostdefault", ALL_PROPS, "an entry obtained with .get(key, <fresh container>) is not grown in place (the growth is lost when the key is absent)", 2, scoped=True)
def gen_lostdefault(ctx: Ctx):
    n = 0
    for q, fi in sorted(ctx.repo.funcs.items()):
        for node in walk_no_nested(fi.node):
            # D.get(k, {}).update(...)
            if isinstance(node, ast.Call) and isinstance(node.func, ast.Attribute) and node.func.attr in ADDITIVE and _is_get_with_fresh_default(node.func.value):
                n += 1
                ctx.fail(fi, node, f"`{src(node)[:70]}`", "the default container is a temporary: when the key is absent the added entries are dropped",
                         key=f"{q}::lostdefault::{src(node.func.value)[:50]}")
            if not (isinstance(node, ast.Assign) and len(node.targets) == 1 and isinstance(node.targets[0], ast.Name) and _is_get_with_fresh_default(node.value)):
                continue
            n += 1
            name = node.targets[0].id
            table = src(node.value.func.value)  # type: ignore[attr-defined]
            keyexpr = src(node.value.args[0])  # type: ignore[attr-defined]
            grown: List[ast.AST] = []
            stored = False
            rebound = [b.lineno for b in walk_no_nested(fi.node) if isinstance(b, ast.Name) and isinstance(b.ctx, ast.Store) and b.id == name and b.lineno > node.lineno]
            horizon = min(rebound) if rebound else 10 ** 9
            for m in walk_no_nested(fi.node):
                if not (node.lineno < getattr(m, "lineno", 0) < horizon):
                    continue
                if isinstance(m, ast.Call) and isinstance(m.func, ast.Attribute) and m.func.attr in ADDITIVE and src(m.func.value) == name:
                    grown.append(m)
                if isinstance(m, (ast.Assign, ast.AugAssign)):
                    tgs = m.targets if isinstance(m, ast.Assign) else [m.target]
                    for t in tgs:
                        if isinstance(t, ast.Subscript) and src(t.value) == name:
                            grown.append(m)
                        if isinstance(m, ast.AugAssign) and isinstance(t, ast.Name) and t.id == name:
                            grown.append(m)
                        # stored back: D[k] = name
                        if isinstance(m, ast.Assign) and isinstance(t, ast.Subscript) and src(t.value) == table and src(m.value) == name:
                            stored = True
            ctx.check(not grown or stored, fi, node, f"`{name} = {table}.get({keyexpr}, <fresh>)` is only read, or stored back",
                      f"`{name}` is the throw-away default when `{keyexpr}` is not in `{table}`, yet it is grown at line(s) {[g.lineno for g in grown]} and never stored back: "
                      "those entries are lost exactly when the key was absent",
                      key=f"{q}::lostdefault::{name}")
    if n < 2:
        raise AnalysisError(f"only {n} .get(key, <fresh>) sites found (the package has at least two)")


def _rebinding_between(fi: FuncInfo, name: str, lo: int, hi: int) -> bool:
    for b in ast.walk(fi.node):
        if isinstance(b, ast.Name) and isinstance(b.ctx, ast.Store) and b.id == name and lo < b.lineno <= hi:
            return True
        if isinstance(b, ast.comprehension) and any(isinstance(t, ast.Name) and t.id == name for t in ast.walk(b.target)) and lo < b.target.lineno <= hi + 3:
            return True
    return False


def _ordered_iterable(fi: FuncInfo, it: ast.AST) -> bool:
    """Is the iteration order of `it` fixed by the program (not by hashing)?"""
    if isinstance(it, (ast.List, ast.Tuple, ast.Constant)):
        return True
    if isinstance(it, ast.Call):
        f = src(it.func)
        if f in ("sorted", "range", "list", "tuple", "reversed"):
            return f in ("sorted", "range") or all(_ordered_iterable(fi, a) for a in it.args[:1])
        if f in ("enumerate", "zip", "itertools.chain", "chain"):
            return all(_ordered_iterable(fi, a) for a in it.args)
        return False
    if isinstance(it, ast.Name):
        for a in fi.params:
            if a.arg == it.id and a.annotation is not None:
                t = src(a.annotation)
                return t.startswith(("List[", "Sequence[", "Tuple[", "list[", "tuple[", "typing.List[", "typing.Sequence["))
        asg = find_assign(fi.node, it.id)
        if asg and all(isinstance(x, ast.Assign) and _ordered_iterable(fi, x.value) for x in asg):
            return True
        for x in walk_no_nested(fi.node):
            if isinstance(x, ast.AnnAssign) and isinstance(x.target, ast.Name) and x.target.id == it.id:
                return src(x.annotation).startswith(("List[", "Sequence[", "Tuple[", "list[", "tuple["))
    return False


@rule("GEN.loopescape", ALL_PROPS, "what a for-loop leaves behind does not depend on which element came last", 40, scoped=True)
def gen_loopescape(ctx: Ctx):
    """Two shapes: (a) the loop variable itself is read after a loop that has no break;
    (b) a variable is overwritten (not accumulated) in the body of a loop over an
    unordered collection and read after the loop."""
    nloops = 0
    for q, fi in sorted(ctx.repo.funcs.items()):
        loops = [n for n in walk_no_nested(fi.node) if isinstance(n, ast.For)]
        if not loops:
            continue
        bad = False
        for lp in loops:
            nloops += 1
            targets = {t.id for t in ast.walk(lp.target) if isinstance(t, ast.Name)}
            has_break = any(isinstance(x, ast.Break) for x in ast.walk(lp))
            end = lp.end_lineno or lp.lineno
            later_loads = [n for n in walk_no_nested(fi.node) if isinstance(n, ast.Name) and isinstance(n.ctx, ast.Load) and n.lineno > end]
            # (a)
            if not has_break:
                for n in later_loads:
                    if n.id in targets and not _rebinding_between(fi, n.id, end, n.lineno):
                        bad = True
                        ctx.fail(fi, n, f"`{n.id}` (loop variable of line {lp.lineno}) read after the loop",
                                 "after a loop without break the loop variable is whatever element came last (and unbound when the collection is empty): "
                                 "the statement was meant to run per element, or the result depends on iteration order",
                                 key=f"{q}::loopvar::{n.id}")
                        break
            # (b) - only for an iterable that is *known* to be unordered (a set, a gtirb node collection); an
            # iterable of unknown type (a loop variable of an enclosing loop, an untyped parameter) is not accused
            from .c11 import _is_unordered, _strip_wrappers

            if _ordered_iterable(fi, lp.iter) or not _is_unordered(fi, _strip_wrappers(lp.iter)):
                continue
            for a in ast.walk(lp):
                if not (isinstance(a, ast.Assign) and len(a.targets) == 1 and isinstance(a.targets[0], ast.Name)):
                    continue
                v = a.targets[0].id
                if v in targets or isinstance(a.value, ast.Constant) or _reads(a.value, v):
                    continue
                if not any(isinstance(b, ast.Name) and isinstance(b.ctx, ast.Store) and b.id == v and b.lineno < lp.lineno for b in walk_no_nested(fi.node)):
                    continue
                # carried state (read earlier in the iteration than it is written) is a fold, not a flag
                if any(isinstance(x, ast.Name) and x.id == v and isinstance(x.ctx, ast.Load) and x.lineno < a.lineno for x in ast.walk(lp)):
                    continue
                # find idiom: assignment immediately followed by break
                parent_lists = [getattr(p, f) for p in ast.walk(lp) for f in ("body", "orelse") if isinstance(getattr(p, f, None), list)]
                followed_by_break = any(a in pl and any(isinstance(s, ast.Break) for s in pl[pl.index(a) + 1:]) for pl in parent_lists)
                if followed_by_break:
                    continue
                reads_after = [n for n in later_loads if n.id == v and not _rebinding_between(fi, v, end, n.lineno)]
                if reads_after:
                    bad = True
                    ctx.fail(fi, a, f"`{v} = {src(a.value)[:50]}` inside `for … in {src(lp.iter)[:40]}`, read at line {reads_after[0].lineno}",
                             f"`{v}` is overwritten on every iteration, so after the loop it reflects only the element that happened to come last; "
                             f"`{src(lp.iter)[:40]}` has no defined order (set/dict-keyed), so the outcome varies between runs",
                             key=f"{q}::lastwins::{v}")
        if not bad:
            ctx.ok(fi, fi.node, f"{len(loops)} for-loop(s): nothing escapes but accumulations, constants and break-found elements", key=f"{q}::loopescape")
    if nloops < 100:
        raise AnalysisError(f"only {nloops} for-loops found in the package")


@rule("GEN.deadstore", ALL_PROPS, "a computed value is not overwritten before it is read (`x = a` … `x = b` where `x |= b` was meant)", 120, scoped=True)
def gen_deadstore(ctx: Ctx):
    nstores = 0
    for q, fi in sorted(ctx.repo.funcs.items()):
        bad = False
        count = 0
        for n in walk_no_nested(fi.node):
            for fld in ("body", "orelse", "finalbody"):
                body = getattr(n, fld, None)
                if not isinstance(body, list):
                    continue
                for i, st in enumerate(body):
                    if isinstance(st, ast.Assign) and len(st.targets) == 1:
                        tg, val = st.targets[0], st.value
                    elif isinstance(st, ast.AugAssign):
                        tg, val = st.target, st.value
                    elif isinstance(st, ast.AnnAssign) and st.value is not None:
                        tg, val = st.target, st.value
                    else:
                        continue
                    if not isinstance(tg, ast.Name):
                        continue
                    count += 1
                    if isinstance(val, ast.Constant) or _fresh(val):
                        continue  # placeholder initialisers are idiomatic
                    for st2 in body[i + 1:]:
                        if isinstance(st2, ast.Assign) and len(st2.targets) == 1 and isinstance(st2.targets[0], ast.Name) and st2.targets[0].id == tg.id and not _reads(st2.value, tg.id):
                            bad = True
                            ctx.fail(fi, st2, f"`{tg.id} = …` (line {st2.lineno}) overwrites the value computed at line {st.lineno} before anything read it",
                                     f"the value of `{src(val)[:50]}` is discarded: `{tg.id}` is reassigned without being used in between "
                                     "(an accumulation `|=`/`+=` turned into a plain assignment drops the earlier elements)",
                                     key=f"{q}::deadstore::{tg.id}")
                            break
                        if _reads(st2, tg.id):
                            break
                        if any(isinstance(x, (ast.Return, ast.Raise, ast.Break, ast.Continue)) for x in ast.walk(st2)) and not isinstance(st2, (ast.If, ast.For, ast.While, ast.Try, ast.With)):
                            break
        nstores += count
        if count and not bad:
            ctx.ok(fi, fi.node, f"{count} local store(s), none dead", key=f"{q}::deadstore")
    if nstores < 300:
        raise AnalysisError(f"only {nstores} local stores found in the package")


# variables that are *meant* to carry a value from one iteration to the next
# (confirmed by reading; anything else that does so is a leak between iterations)
INTENDED_FOLDS = {
    ("_adt.block_ordering.BlockOrdering._primitive_insert", "prev_entry"): "the chain is built by linking each new entry after the previous one",
    ("dwarf.cfi_eval.evaluate_cfi_directives", "state"): "the evaluator is a state machine over the ordered directive list",
    ("rewriting._ModificationStore.resolve_offsets", "last_end"): "overlap check against the end of the previous modification in sorted order",
    ("rewriting._CFIProcedureTracker.__init__", "procedure_start"): "a procedure opened in one block may be closed in a later one (blocks are visited in address order)",
    ("intervalutils.split_byte_interval", "offset"): "running end position while peeling groups off the tail of the interval",
}


def _stores(node: ast.AST) -> List[str]:
    if isinstance(node, ast.Assign):
        tg = node.targets
    elif isinstance(node, ast.AnnAssign):
        tg = [node.target] if node.value is not None else []
    elif isinstance(node, ast.For):
        tg = [node.target]
    elif isinstance(node, ast.With):
        tg = [i.optional_vars for i in node.items if i.optional_vars is not None]
    else:
        tg = []
    return [n.id for t in tg for n in ast.walk(t) if isinstance(n, ast.Name) and isinstance(n.ctx, ast.Store)]


def _header_reads(st: ast.AST) -> Set[str]:
    """Names the statement itself reads (not its nested bodies), minus comprehension-bound names."""
    if isinstance(st, (ast.If, ast.While)):
        parts: List[ast.AST] = [st.test]
    elif isinstance(st, ast.For):
        parts = [st.iter]
    elif isinstance(st, ast.With):
        parts = [i.context_expr for i in st.items]
    elif isinstance(st, ast.Try):
        parts = []
    else:
        parts = [st]
    out: Set[str] = set()
    for p in parts:
        bound = {n.id for c in ast.walk(p) if isinstance(c, ast.comprehension) for n in ast.walk(c.target) if isinstance(n, ast.Name)}
        bound |= {a.arg for l in ast.walk(p) if isinstance(l, ast.Lambda) for a in l.args.args}
        for x in ast.walk(p):
            if isinstance(x, ast.Name) and isinstance(x.ctx, ast.Load) and x.id not in bound:
                out.add(x.id)
    return out


@rule("GEN.carry", ALL_PROPS, "loop iterations are independent: no variable written in a loop body is read by a later iteration before it is written again (except accumulations and the listed folds)", 60, scoped=True)
def gen_carry(ctx: Ctx):
    from ..astx import FALSE, f_or

    nreads = 0
    seen_folds = set()
    reported = set()
    for q, fi in sorted(ctx.repo.funcs.items()):
        loops = [n for n in walk_no_nested(fi.node) if isinstance(n, ast.For)]
        if not loops:
            continue
        lin = linear(fi.node)
        bad = False
        for lp in loops:
            inl = [g for g in lin.stmts if lp in g.loops]
            ltargets = {n.id for n in ast.walk(lp.target) if isinstance(n, ast.Name)}
            assigned: Dict[str, list] = {}
            for g in inl:
                for v in _stores(g.node):
                    if isinstance(g.node, (ast.Assign, ast.AnnAssign)) and g.node.value is not None and _reads(g.node.value, v):
                        assigned.setdefault(v, [])  # accumulation: known, never "covers"
                        continue
                    assigned.setdefault(v, []).append(g)
            accum = {v for g in inl for v in _stores(g.node) if isinstance(g.node, (ast.Assign, ast.AnnAssign)) and g.node.value is not None and _reads(g.node.value, v)}
            accum |= {g.node.target.id for g in inl if isinstance(g.node, ast.AugAssign) and isinstance(g.node.target, ast.Name)}
            for g in inl:
                for v in sorted(_header_reads(g.node)):
                    if v not in assigned or v in ltargets or v in accum:
                        continue
                    nreads += 1
                    if not any(a.index < g.index for a in assigned[v]):
                        continue  # only updated *after* this read: loop state by construction (GEN.undef checks that it is initialised)
                    # lazy, loop-invariant value: every in-loop assignment sits under `if v is None:` and the right-hand side does not depend on the loop element
                    # (`name = None; for f in xs: if name is None: name = func.get_name()`): carrying it over is the point
                    lazy = True
                    for a in assigned[v]:
                        try:
                            under_none = lin.under(a, f"{v} is None")
                        except Exception:
                            under_none = False
                        rhs = getattr(a.node, "value", None)
                        dep = rhs is None or any(isinstance(y, ast.Name) and y.id in ltargets for y in ast.walk(rhs))
                        if not under_none or dep:
                            lazy = False
                    if lazy and assigned[v]:
                        continue
                    cover = FALSE
                    for a in assigned[v]:
                        if a.index < g.index:
                            cover = f_or(cover, a.guard)
                    for a in inl:  # typing.assert_never(...) never returns
                        if a.index < g.index and isinstance(a.node, ast.Expr) and isinstance(a.node.value, ast.Call) and src(a.node.value.func) == "assert_never":
                            cover = f_or(cover, a.guard)
                    gs = set(g.guard[1:]) if g.guard[0] == "and" else {g.guard}
                    dominated = any(a.index < g.index and (a.guard == TRUE or (set(a.guard[1:]) if a.guard[0] == "and" else {a.guard}) <= gs) for a in assigned[v])
                    if dominated:
                        continue
                    if any(q == fq for fq, _ in INTENDED_FOLDS):   # these functions are folds over an ordered sequence by design
                        seen_folds.add((q, v))
                        continue
                    if implies(g.guard, cover):
                        continue
                    if (q, v) in reported:
                        continue
                    reported.add((q, v))
                    bad = True
                    ctx.fail(fi, g.node, f"`{v}` read at line {g.node.lineno} in the loop of line {lp.lineno} without having been set in this iteration",
                             f"`{v}` is assigned inside the loop only on some paths ({[a.node.lineno for a in assigned[v]]}); on the others this statement sees the value "
                             "left by the previous iteration (a per-element value such as the current function leaks onto the next element)",
                             key=f"{q}::carry::{v}")
                    break
        if not bad:
            ctx.ok(fi, fi.node, f"{len(loops)} loop(s): every per-iteration variable is set before use", key=f"{q}::carry")
    # (a listed fold that is gone - the function was rewritten - needs no allowance any more)
    if nreads < 300:
        raise AnalysisError(f"only {nreads} reads of loop-assigned variables examined")


# ----------------------------------------------------------------------------
# single-mechanism obligations
# ----------------------------------------------------------------------------

FLAG_WRITERS = {"and", "andq", "andl", "sub", "subq", "subl", "add", "addq", "addl", "or", "xor", "test", "cmp", "neg", "inc", "dec", "shl", "shr", "sar", "imul"}


def _atoms(guard) -> List[str]:
    """Source text of the branch conditions in a guard (loop-iteration atoms left out)."""
    out = []
    for a in f_atoms(guard):
        t = a[0] if isinstance(a, tuple) and a and isinstance(a[0], str) else str(a)
        if "<iter" not in t:
            out.append(t)
    return sorted(set(out))


def _x86_prologues(repo):
    out = []
    for cname in ("_IA32", "_X86_64"):
        out.append(repo.func(f"abi.{cname}._create_prologue_and_epilogue"))
    return out


@rule("C16.9", ["C16", "C17"], "x86 prologues: flags are captured before any flag-writing snippet, and nothing is pushed after the stack was aligned", 6)
def c16_9(ctx: Ctx):
    from .c16 import appends

    for fi in _x86_prologues(ctx.repo):
        lin, pro, epi = appends(fi)
        if len(pro) < 3:
            raise AnalysisError(f"{fi.qual}: only {len(pro)} prologue snippets recognised")
        order = sorted(pro, key=lambda t: t[0].index)
        flags = [t for t in order if t[2].split()[0] in ("pushfd", "pushfq")]
        align = [t for t in order if any(l.split()[0] in ("and", "andq") and l.rstrip().endswith(("%esp", "%rsp")) for l in t[2].splitlines())]
        if len(flags) != 1 or len(align) != 1:
            raise AnalysisError(f"{fi.qual}: flags save / align snippet not recognised ({len(flags)}, {len(align)})")
        fidx = flags[0][0].index
        writers = [t for t in order if any(l.split()[0] in FLAG_WRITERS for l in t[2].splitlines())]
        early = [t for t in writers if t[0].index < fidx]
        ctx.check(not early, fi, flags[0][1], "EFLAGS are saved before the first snippet that modifies them",
                  f"`{early[0][2].splitlines()[0] if early else ''}...` (line {early[0][1].lineno if early else 0}) runs before pushf: the saved flags are already those of the patch prologue, so popf restores the wrong value",
                  key=f"{fi.qual}::flags-first")
        late = [t for t in order if t[0].index > align[0][0].index]
        ctx.check(not late, fi, align[0][1], "the alignment snippet is the last thing the prologue does to the stack pointer",
                  f"`{late[0][2].splitlines()[0] if late else ''}` (line {late[0][1].lineno if late else 0}) is emitted after the stack was aligned: "
                  "an odd number of pushes leaves the patch body (and any call in it) on a misaligned stack",
                  key=f"{fi.qual}::align-last")
        # and the epilogue undoes the alignment first (mirror)
        eorder = sorted(epi, key=lambda t: t[0].index)
        ealign = [t for t in eorder if "mov %eax, %esp" in t[2] or "movq %rax, %rsp" in t[2]]
        ctx.check(len(ealign) == 1 and not [t for t in eorder if t[0].index > ealign[0][0].index], fi, fi.node,
                  "the stack pointer is restored from the saved copy before anything is popped (epilogue is emitted reversed)",
                  "pops are emitted after the realignment undo in program order: they run before it and read the wrong slots",
                  key=f"{fi.qual}::align-undo-first")


@rule("C16.10", ["C16"], "ARM64: a register borrowed from the available pool is always recorded as clobbered (so it is saved)", 1)
def c16_10(ctx: Ctx):
    n = 0
    for q, fi in sorted(ctx.repo.funcs.items()):
        if not q.startswith("abi."):
            continue
        lin = linear(fi.node)
        for g in lin.stmts:
            if isinstance(g.node, ast.Assign) and isinstance(g.node.value, ast.Call) and src(g.node.value.func) == "register_use.available_registers.pop" and isinstance(g.node.targets[0], ast.Name):
                n += 1
                v = g.node.targets[0].id
                rec = [x for x, c in lin.all_calls() if src(c) == f"register_use.clobbered_registers.append({v})" and x.index > g.index]
                ok = any(implies(g.guard, x.guard) and x.loops == g.loops for x in rec)
                ctx.check(ok, fi, g.node, f"`{v}` taken from available_registers is appended to clobbered_registers on every path",
                          f"`{v}` is popped from the free pool but recorded as clobbered only under an extra condition: on the other paths the patch overwrites a live (possibly callee-saved) register without saving it",
                          key=f"{q}::borrowed::{v}")
    if n < 1:
        raise AnalysisError("no register borrowed from available_registers found (ARM64 flags temporary)")


@rule("C10.6", ["C10", "C05", "C12"], "empty-block folding keeps the strictest alignment and leaves no entry for a dropped block", 4)
def c10_6(ctx: Ctx):
    fi = ctx.repo.func("assembler.assembler.Assembler._remove_empty_blocks")
    lin = linear(fi.node)
    store = [g for g in lin.stmts if isinstance(g.node, ast.Assign) and src(g.node.targets[0]) == "section.alignment[main_block]"]
    if len(store) != 1 or not isinstance(store[0].node.value, ast.Name):
        raise AnalysisError("_remove_empty_blocks: store to section.alignment[main_block] not recognised")
    m = store[0].node.value.id
    defs = [g for g in lin.stmts if isinstance(g.node, ast.Assign) and src(g.node.targets[0]) == m]
    init = [g for g in defs if not g.loops or len(g.loops) < len(store[0].loops) + 1 and not _reads(g.node.value, m)]
    init = [g for g in defs if not _reads(g.node.value, m)]
    ok = len(init) == 1 and "section.alignment" in src(init[0].node.value) and "main_block" in src(init[0].node.value)
    ctx.check(ok, fi, init[0].node if init else fi.node, f"`{m}` starts from the surviving block's own alignment",
              f"`{m}` starts as `{src(init[0].node.value) if init else '?'}`: a weaker alignment on a folded label block overwrites the surviving block's stricter requirement",
              key="C10.6::init-from-main")
    upd = [g for g in defs if _reads(g.node.value, m)]
    ok = bool(upd) and all(isinstance(g.node.value, ast.Call) and src(g.node.value.func) == "max" and any("extra_block" in src(a) and "section.alignment" in src(a) for a in g.node.value.args) for g in upd)
    ctx.check(ok, fi, upd[0].node if upd else fi.node, f"`{m}` only grows: max({m}, alignment of the folded block)", "the folded block's alignment is not merged with max()", key="C10.6::max")
    # every extra block leaves section.alignment: `del section.alignment[extra_block]` / .pop(extra_block…) whenever it has an entry
    dels = [g for g in lin.stmts if isinstance(g.node, ast.Delete) and any(src(t) == "section.alignment[extra_block]" for t in g.node.targets)]
    pops = [g for g, c in lin.all_calls() if src(c.func) == "section.alignment.pop" and c.args and src(c.args[0]) == "extra_block"]
    ok = False
    for g in dels:
        # guard may only add `extra_block in section.alignment`
        ok = ok or all("extra_block in section.alignment" in a for a in _atoms(g.guard))
    ok = ok or bool(pops)
    ctx.check(ok, fi, (dels or pops or [store[0]])[0].node, "the folded block's alignment entry is removed",
              "the entry of a block that is dropped from the section stays in section.alignment: insert() copies it into the module's alignment table, "
              "which then names a block that is in no byte interval (dangling aux-data key)",
              key="C10.6::entry-removed")
    # the store happens for every group (only guarded by a non-zero alignment)
    ctx.check(lin.under(store[0], m) and len(_atoms(store[0].guard)) == 1, fi, store[0].node,
              "the merged alignment is written back whenever it is non-zero", "write-back condition changed", key="C10.6::writeback")


@rule("C08.9", ["C08", "C06", "C05"], "every code block of an inserted patch joins the function of the block it was inserted into", 1)
def c08_9(ctx: Ctx):
    fi = ctx.repo.func("_modify.edit.insert")
    lin = linear(fi.node)
    adds = [(g, c) for g, c in lin.all_calls() if src(c.func) == "add_function_block_aux"]
    if len(adds) != 1:
        raise AnalysisError(f"insert(): {len(adds)} add_function_block_aux calls")
    g, c = adds[0]
    atoms = _atoms(g.guard)
    allowed = lambda a: "isinstance(b, gtirb.CodeBlock)" in a or "isinstance(block, gtirb.CodeBlock)" in a or "func_uuid" in a
    extra = [a for a in atoms if not allowed(a)]
    loop_ok = len(g.loops) == 1 and isinstance(g.loops[0], ast.For) and src(g.loops[0].iter) == "text_section.blocks"
    ctx.check(not extra and loop_ok, fi, c, "all CodeBlocks of the patch's text section are added to the target's function (no further filter)",
              f"function membership is additionally filtered by {extra or src(g.loops[0].iter) if g.loops else extra}: a patch block left out of the function cannot be joined with its neighbours "
              "('not in the same function'), is removed instead, and remove_block drops its non-essential CFI directives",
              key="C08.9::insert-function-membership")


@rule("C01.8", ["C01", "C07", "C09"], "request loops have no early exit, and scopes are resolved against the blocks that existed before anything was inserted", 5)
def c01_8(ctx: Ctx):
    repo = ctx.repo
    cases = [
        ("rewriting.RewritingContext._apply_modifications", "self._modifications.resolve_offsets"),
        ("rewriting.RewritingContext.apply", "enumerate(sorted_blocks)"),
        ("rewriting.RewritingContext.apply", "self._function_insertions"),
    ]
    for q, it in cases:
        fi = repo.func(q)
        loops = [n for n in walk_no_nested(fi.node) if isinstance(n, ast.For) and src(n.iter).startswith(it)]
        if not loops:
            raise AnalysisError(f"{q}: loop over {it} not found")
        for lp in loops:
            exits = [x for st in lp.body for x in walk_no_nested(st) if isinstance(x, (ast.Return, ast.Break))]
            # a `break` belonging to a nested loop is that loop's business
            nested = [x for st in lp.body for n in walk_no_nested(st) if isinstance(n, (ast.For, ast.While)) for x in ast.walk(n) if isinstance(x, ast.Break)]
            exits = [x for x in exits if x not in nested]
            ctx.check(not exits, fi, exits[0] if exits else lp, f"`for … in {it}…`: every request is processed (no return/break in the body)",
                      f"`{src(exits[0]) if exits else ''}` at line {exits[0].lineno if exits else 0} leaves the loop: the remaining modifications of the block (or the remaining blocks) are silently not applied",
                      key=f"{q}::noexit::{it}")
    fa = repo.func("rewriting.RewritingContext.apply")
    lin = linear(fa.node)
    snap = [g for g in lin.stmts if isinstance(g.node, ast.Assign) and src(g.node.targets[0]) == "sorted_blocks"]
    if len(snap) != 1:
        raise AnalysisError("apply(): sorted_blocks snapshot not found")
    muts = [(g, c) for g, c in lin.all_calls() if src(c.func) in ("self._insert_function_stub", "self._apply_function_insertion", "self._apply_modifications")]
    if len(muts) < 3:
        raise AnalysisError("apply(): mutating steps not found")
    first = min(muts, key=lambda t: t[0].index)
    ctx.check(snap[0].index < first[0].index, fa, snap[0].node, "the block list that scopes are matched against is taken before the first mutation",
              f"`sorted_blocks` is computed after `{src(first[1].func)}` (line {first[1].lineno}): blocks created by this very rewrite (inserted function bodies) are matched by "
              "AllBlocksScope/AllFunctionsScope and get patched too - a registered insertion lands in blocks it was never asked for",
              key="apply::snapshot-before-mutation")
    ctx.check("self._module.byte_blocks" in src(snap[0].node.value), fa, snap[0].node, "the snapshot covers all byte blocks of the module", "snapshot source changed", key="apply::snapshot-source")


@rule("C19.6", ["C19", "C18"], "uses are retargeted before symbols are deleted; a deletion helper gives up early only when its table is absent/empty", 9)
def c19_6(ctx: Ctx):
    repo = ctx.repo
    fa = repo.func("rewriting.RewritingContext.apply")
    lin = linear(fa.node)
    rt = [g for g, c in lin.all_calls() if src(c.func) == "retarget_symbol_uses"]
    ds = [g for g, c in lin.all_calls() if src(c.func) == "delete_symbols"]
    if len(rt) != 1 or len(ds) != 1:
        raise AnalysisError("apply(): retarget/delete steps not found")
    ctx.check(rt[0].index < ds[0].index, fa, ds[0].node, "retarget_symbol_uses runs before delete_symbols",
              "symbols are deleted before their uses were retargeted: a symbol that is both retargeted and deleted still has uses at deletion time "
              "(SymbolUsesRemainingError, or with force=True the expressions that should have been retargeted are dropped)",
              key="apply::retarget-before-delete")
    mod = repo.mod("_modify.delete_symbols")
    n = 0
    for q, fi in sorted(repo.funcs.items()):
        if not q.startswith("_modify.delete_symbols._") or fi.parent is not None:
            continue
        lin = linear(fi.node)
        tabs = {g.node.targets[0].id for g in lin.stmts if isinstance(g.node, ast.Assign) and isinstance(g.node.targets[0], ast.Name)
                and isinstance(g.node.value, ast.Call) and src(g.node.value.func).startswith("_auxdata.") and src(g.node.value.func).endswith(".get")}
        for g in lin.stmts:
            if not (isinstance(g.node, ast.Return) and g.node.value is None and not g.loops):
                continue
            n += 1
            want = None
            for t in sorted(tabs):
                e = ast.parse(f"not {t}", mode="eval").body
                c = lin.cond_at(g, e)
                if implies(g.guard, c) and implies(c, g.guard):
                    want = t
            ctx.check(want is not None, fi, g.node, f"{fi.name}: early return exactly when the table is absent or empty",
                      f"early return under `{f_show(g.guard)[:120]}`: the helper also gives up when the table exists, so entries that mention a deleted symbol "
                      "(for instance only on the value side) stay behind",
                      key=f"{q}::early-return")
    if n < 7:
        raise AnalysisError(f"only {n} early returns found in the deletion helpers")


@rule("C03.10", ["C03"], "adding a call removes only placeholder (proxy) return edges of the callee", 1)
def c03_10(ctx: Ctx):
    fi = ctx.repo.func("_modify.edges.add_return_edges_to_callee")
    n = 0
    for lp in [x for x in walk_no_nested(fi.node) if isinstance(x, ast.For)]:
        for c in calls_in(lp):
            if isinstance(c.func, ast.Attribute) and c.func.attr == "discard" and c.args and isinstance(lp.target, ast.Name) and src(c.args[0]) == lp.target.id:
                n += 1
                ctx.check(isinstance(lp.iter, ast.Call) and src(lp.iter.func).endswith("block_proxy_return_edges"), fi, c,
                          "only edges from block_proxy_return_edges() are discarded",
                          f"edges drawn from `{src(lp.iter)[:60]}` are discarded: a callee that already returns to other call sites loses those Return edges when a new call is inserted",
                          key="add_return_edges_to_callee::discard-proxy-only")
    if n < 1:
        raise AnalysisError("add_return_edges_to_callee: discard loop not found")


@rule("C04.9", ["C04", "C01"], "edit_byte_interval performs every step for every edit (no early return; same-length replacements still drop covered annotations)", 5)
def c04_9(ctx: Ctx):
    fi = ctx.repo.func("_modify.edit.edit_byte_interval")
    lin = linear(fi.node)
    rets = [g for g in lin.stmts if isinstance(g.node, ast.Return)]
    ctx.check(not rets, fi, rets[0].node if rets else fi.node, "no return statement: all steps run",
              f"returns early under `{f_show(rets[0].guard)[:80] if rets else ''}`: the steps after it (removing symbolic expressions and aux-data entries inside the replaced range) are skipped for such edits",
              key="edit_byte_interval::no-early-return")
    steps = {
        "contents": lambda g: isinstance(g.node, ast.Assign) and src(g.node.targets[0]) == "bi.contents",
        "size": lambda g: isinstance(g.node, ast.AugAssign) and src(g.node.target) == "bi.size",
        "blocks": lambda g: isinstance(g.node, ast.For) and src(g.node.iter) == "bi.blocks",
        "symbolic expressions": lambda g: isinstance(g.node, ast.Assign) and src(g.node.targets[0]) == "bi.symbolic_expressions",
        "aux tables": lambda g: isinstance(g.node, ast.For) and src(g.node.iter) == "OFFSETMAP_AUX_DATA_TABLES",
    }
    for name, pred in steps.items():
        gs = [g for g in lin.stmts if pred(g)]
        ctx.check(len(gs) == 1 and implies(TRUE, gs[0].guard), fi, gs[0].node if gs else fi.node, f"step `{name}` runs unconditionally",
                  f"step `{name}` is {'missing' if not gs else 'conditional on ' + f_show(gs[0].guard)[:80]}", key=f"edit_byte_interval::step::{name}")


@rule("C18.6", ["C18", "C03"], "an edge is replaced by discarding the old one first; binaryType is tested by membership", 3)
def c18_6(ctx: Ctx):
    repo = ctx.repo
    n = 0
    for q, fi in sorted(repo.funcs.items()):
        if not q.startswith(("_modify.", "assembler.assembler.")):
            continue
        lin = None
        for c in calls_in(fi.node):
            if not (isinstance(c.func, ast.Attribute) and c.func.attr == "add" and c.args and isinstance(c.args[0], ast.Call)
                    and isinstance(c.args[0].func, ast.Attribute) and c.args[0].func.attr == "_replace" and isinstance(c.args[0].func.value, ast.Name)):
                continue
            e = c.args[0].func.value.id
            lin = lin or linear(fi.node)
            ga = lin.of(c)
            disc = [(g, d) for g, d in lin.all_calls() if isinstance(d.func, ast.Attribute) and d.func.attr == "discard" and d.args and src(d.args[0]) == e]
            if not disc:
                continue
            n += 1
            ok = any(g.index < ga.index for g, d in disc)
            ctx.check(ok, fi, c, f"`{src(c)[:50]}` comes after the discard of `{e}`",
                      f"the replacement of `{e}` is added before `{e}` is discarded: when the replacement equals the original (retarget to the same block, unchanged label) "
                      "the discard removes the edge that was just added and the CFG loses it",
                      key=f"{q}::discard-then-add::{e}")
    if n < 2:
        raise AnalysisError(f"only {n} replace-edge sites found")
    m = 0
    for q, fi in sorted(repo.funcs.items()):
        names = {a.arg for a in fi.params if a.arg in ("binary_type",)}
        names |= {g.targets[0].id for g in walk_no_nested(fi.node) if isinstance(g, ast.Assign) and isinstance(g.targets[0], ast.Name) and "_auxdata.binary_type.get" in src(g.value)}
        for cmp_ in [x for x in walk_no_nested(fi.node) if isinstance(x, ast.Compare)]:
            used = [nm for nm in names if _reads(cmp_, nm)]
            if not used:
                continue
            m += 1
            ok = len(cmp_.ops) == 1 and isinstance(cmp_.ops[0], (ast.In, ast.NotIn)) and isinstance(cmp_.comparators[0], ast.Name) and cmp_.comparators[0].id in names
            ctx.check(ok, fi, cmp_, f"`{src(cmp_)}`: binaryType is a list of descriptors, tested with `in`",
                      f"`{src(cmp_)}` compares the whole binaryType list: a PIE whose table carries further descriptors (['DYN','PIE']) is classified as non-PIE and gets the non-PIC attribute rules",
                      key=f"{q}::binary-type-membership")
    if m < 1:
        raise AnalysisError("no test of binary_type found")


@rule("C20.8", ["C20", "C04"], "OffsetMapping decides presence by key membership, never by the stored value", 3)
def c20_8(ctx: Ctx):
    cls = ctx.repo.cls("_adt.offset_mapping.OffsetMapping")
    n = 0
    for name in ("__getitem__", "__delitem__", "__contains__"):
        m = cls.methods.get(name)
        if m is None:
            raise AnalysisError(f"OffsetMapping.{name} not found")
        lin = linear(m.node)
        suspects = []
        for g in lin.stmts:
            exprs: List[ast.AST] = []
            if isinstance(g.node, ast.Raise) and g.node.exc is not None and "KeyError" in src(g.node.exc):
                exprs = [x for x in lin.stmts if isinstance(x.node, ast.If) and x.index < g.index]
                exprs = [x.node.test for x in exprs]
            if isinstance(g.node, ast.Return) and name == "__contains__" and g.node.value is not None:
                exprs = [g.node.value]
            for e in exprs:
                for nm in [x for x in ast.walk(e) if isinstance(x, ast.Name) and isinstance(x.ctx, ast.Load)]:
                    for a in find_assign(m.node, nm.id):
                        v = getattr(a, "value", None)
                        if isinstance(v, ast.Call) and isinstance(v.func, ast.Attribute) and v.func.attr == "get" and src(v.func.value) != "self._data" and "self._data" in src(v.func.value):
                            suspects.append((nm.id, v))
                # inline: self._data[...].get(x) is None
                for c in [x for x in ast.walk(e) if isinstance(x, ast.Call) and isinstance(x.func, ast.Attribute) and x.func.attr == "get"]:
                    if src(c.func.value) != "self._data" and "self._data" in src(c.func.value):
                        suspects.append(("<inline>", c))
        n += 1
        ctx.check(not suspects, m, suspects[0][1] if suspects else m.node, f"{name}: presence is decided with `in` on the displacement map",
                  f"`{src(suspects[0][1]) if suspects else ''}` fetches the stored value and its None-ness decides presence: an entry whose value is None (or falsy) is reported missing "
                  "although it is counted by len() and yielded by iteration",
                  key=f"OffsetMapping.{name}::presence-by-key")
    if n < 3:
        raise AnalysisError("OffsetMapping methods not found")


@rule("C12.10", ["C12", "C03"], "per-ISA indirect-call opcode tables contain the register and memory forms of the native call", 4)
def c12_10(ctx: Ctx):
    repo = ctx.repo
    ind = repo.mod("assembler._mc_utils").toplevel_assign("_INDIRECT_CALL_INSTRS")
    if not isinstance(ind, ast.Dict):
        raise AnalysisError("_INDIRECT_CALL_INSTRS is not a dict literal")
    got: Dict[str, Set[str]] = {}
    for k, v in zip(ind.keys, ind.values):
        if not isinstance(v, ast.Set) or not all(isinstance(e, ast.Constant) for e in v.elts):
            raise AnalysisError("_INDIRECT_CALL_INSTRS entry is not a set literal of names")
        got[src(k).rsplit(".", 1)[-1]] = {e.value for e in v.elts}  # type: ignore
    for isa, need in sorted(tables.INDIRECT_CALL_REQUIRED.items()):
        have = got.get(isa)
        if have is None:
            raise AnalysisError(f"_INDIRECT_CALL_INSTRS has no {isa} entry")
        ctx.check(need <= have, repo.mod("assembler._mc_utils"), ind, f"{isa}: {sorted(need)} are classified as indirect calls",
                  f"{isa}: {sorted(need - have)} missing from the table: such a call is treated as a direct call (assert on its fixups / Call edge to a symbol instead of an indirect edge to a proxy)",
                  key=f"C12.10::{isa}")


@rule("C13.5", ["C13"], "symbols are created only by the four functions that enforce the naming discipline; an extern is reused whenever a symbol of that name exists", 5)
def c13_5(ctx: Ctx):
    repo = ctx.repo
    allowed = {
        "rewriting.RewritingContext.get_or_insert_extern_symbol": "extern symbols, after a lookup by name",
        "rewriting.RewritingContext.register_insert_function": "the symbol of an inserted function (explicit name given by the caller)",
        "assembler.assembler._SymbolCreator._precreate_label": "labels and assignments of a patch (duplicate check + temporary suffix)",
        "assembler.assembler._Streamer._resolve_symbol": "undefined names, when allowed, as proxy-backed symbols",
    }
    seen = set()
    for q, fi in sorted(repo.funcs.items()):
        if q.startswith("driver."):
            continue
        for c in calls_in(fi.node):
            if src(c.func) == "gtirb.Symbol":
                top = fi
                while top.parent is not None:
                    top = top.parent
                seen.add(top.qual)
                ctx.check(top.qual in allowed, fi, c, f"gtirb.Symbol(...) in {top.qual}: {allowed.get(top.qual, '')}",
                          f"a symbol is created in {top.qual}, outside the functions that check for duplicate definitions and apply the temporary-label suffix: "
                          "a patch inserted twice defines the same name twice (or shadows a module symbol) without MultipleDefinitionsError",
                          key=f"symbol-created-in::{top.qual}")
    for q in allowed:
        if q not in seen:
            # the stub may create its symbol through a helper; only the assembler ones are mandatory
            if q.startswith("assembler."):
                raise AnalysisError(f"{q} no longer creates symbols (anchor moved)")
    fe = repo.func("rewriting.RewritingContext.get_or_insert_extern_symbol")
    gens = [n for n in walk_no_nested(fe.node) if isinstance(n, ast.GeneratorExp) and "self._module.symbols" in src(n.generators[0].iter)]
    if len(gens) != 1:
        raise AnalysisError("get_or_insert_extern_symbol: lookup generator not found")
    conds = gens[0].generators[0].ifs
    ok = len(conds) == 1 and isinstance(conds[0], ast.Compare) and len(conds[0].ops) == 1 and isinstance(conds[0].ops[0], ast.Eq) and {src(conds[0].left), src(conds[0].comparators[0])} == {"sym.name", "name"}
    ctx.check(ok, fe, gens[0], "the existing-symbol lookup matches on the name alone",
              f"lookup filter is `{' and '.join(src(c) for c in conds)}`: a symbol of that name which the module defines itself is not recognised, a second symbol with the same name is created and patches bind to it",
              key="get_or_insert_extern_symbol::lookup-by-name")


@rule("C06.8", ["C06", "C02"], "delete_function deletes every block of the function, whole, towards a proxy", 1)
def c06_8(ctx: Ctx):
    fi = ctx.repo.func("rewriting.RewritingContext.delete_function")
    lin = linear(fi.node)
    calls = [(g, c) for g, c in lin.all_calls() if src(c.func) == "self.delete_at"]
    if len(calls) != 1:
        raise AnalysisError(f"delete_function: {len(calls)} delete_at calls")
    g, c = calls[0]
    loop_ok = len(g.loops) == 1 and isinstance(g.loops[0], ast.For) and src(g.loops[0].iter) == "function.get_all_blocks()" and isinstance(g.loops[0].target, ast.Name)
    b = g.loops[0].target.id if loop_ok else "block"
    extra = _atoms(g.guard)
    args_ok = [src(a) for a in c.args] == [b, "0", f"{b}.size"] and any(k.arg == "retarget_to_proxy" and src(k.value) == "True" for k in c.keywords)
    ctx.check(loop_ok and not extra and args_ok, fi, c, "every block returned by get_all_blocks() is deleted from 0 to its size with retarget_to_proxy=True",
              f"the deletion is filtered by {extra} / called as `{src(c)[:80]}`: a block of the function that is skipped (for example a zero-sized end-label block) survives, "
              "so the deleted function keeps entries in functionBlocks/functionNames (functionEntries left with an empty set)",
              key="delete_function::all-blocks")


@rule("C02.5", ["C02", "C05"], "join_blocks refuses before it touches anything", 1)
def c02_5(ctx: Ctx):
    fi = ctx.repo.func("_modify.join.join_blocks")
    lin = linear(fi.node)
    raises = [g for g in lin.stmts if isinstance(g.node, ast.Raise) and g.node.exc is not None and "UnjoinableBlocksError" in src(g.node.exc)]
    if len(raises) != 1:
        raise AnalysisError(f"join_blocks: {len(raises)} refusal points")
    r = raises[0]
    impure = []
    for g in lin.stmts:
        if g.index >= r.index:
            break
        n = g.node
        if isinstance(n, (ast.Assert, ast.If, ast.Pass)):
            continue
        if isinstance(n, ast.Expr) and isinstance(n.value, ast.Constant):
            continue
        if isinstance(n, (ast.Assign, ast.AnnAssign)):
            tg = n.targets if isinstance(n, ast.Assign) else [n.target]
            val = n.value
            pure_val = val is None or not any(isinstance(c.func, ast.Attribute) and c.func.attr in ("set_referent", "retarget_references", "pop", "discard", "add", "remove", "update", "setdefault", "clear", "append") for c in calls_in(val))
            if all(isinstance(t, (ast.Name, ast.Tuple)) for t in tg) and pure_val:
                continue
        impure.append(g)
    ctx.check(not impure, fi, impure[0].node if impure else r.node, "everything before `raise UnjoinableBlocksError` only reads (are_joinable and local bindings)",
              f"`{src(impure[0].node)[:70] if impure else ''}` (line {impure[0].node.lineno if impure else 0}) runs before the joinability check: when the join is refused "
              "the blocks are left half-merged (block2's end labels already moved in front of its bytes)",
              key="join_blocks::refuse-before-mutation")


@rule("C02.6", ["C02"], "are_joinable refuses to grow a block past its own end labels", 1)
def c02_6(ctx: Ctx):
    from ..effects import predicate_formula
    from .c06 import _strip_implies

    repo = ctx.repo
    fi = repo.func("_modify.join.are_joinable")
    pf = predicate_formula(repo, fi)
    if pf is None:
        raise AnalysisError("are_joinable: not a boolean cascade")
    lin = linear(fi.node)
    pre = "block1.size and type(block1) is type(block2) and block1.byte_interval is block2.byte_interval and module and block1.offset + block1.size == block2.offset and "
    text = "block2.size and any((sym.at_end for sym in cache.reference_cache.get_references(block1)))"
    cond = lin.cond(ast.parse(pre + text, mode="eval").body, {})
    ctx.check(_strip_implies(cond, pf, negate=True), fi, fi.node, "refuses: block1 carries an end label and block2 has bytes",
              "are_joinable can return true for two non-empty blocks although block1 has at_end symbols: after the join those symbols sit behind block2's bytes "
              "(a label that ended an inserted data patch lands after the original tail of the block)",
              key="C02.6::block1-end-labels")


@rule("C03.11", ["C03"], "an empty block is merged into a predecessor with a terminator only when that predecessor falls through into it", 2)
def c03_11(ctx: Ctx):
    from ..effects import predicate_formula
    from .c06 import _strip_implies

    repo = ctx.repo
    fi = repo.func("_modify.join.are_joinable")
    pf = predicate_formula(repo, fi)
    if pf is None:
        raise AnalysisError("are_joinable: not a boolean cascade")
    # a local that says "block1 falls through to block2"
    ft = None
    for a in [n for n in walk_no_nested(fi.node) if isinstance(n, ast.Assign) and isinstance(n.targets[0], ast.Name)]:
        t = src(a.value)
        if "block1.outgoing_edges" in t and "_is_fallthrough_edge(edge)" in t and (canon("edge.target == block2") in t or canon("edge.target is block2") in t) and "not _is_fallthrough_edge" not in t:
            ft = a.targets[0].id
    ctx.check(ft is not None, fi, fi.node, "are_joinable asks whether block1 falls through to block2",
              "are_joinable never establishes that block1 falls through to block2: an empty block2 (which carries the fallthrough to the rest of the original block after a patch "
              "ending in jmp/ret) is merged into a block1 that ends in that jmp/ret, and block1 inherits a Fallthrough edge it cannot take",
              key="C03.11::falls-through-known")
    if ft is None:
        return
    lin = linear(fi.node)
    pre = "block1.size and type(block1) is type(block2) and block1.byte_interval is block2.byte_interval and module and block1.offset + block1.size == block2.offset and isinstance(block1, gtirb.CodeBlock) and "
    cond = lin.cond(ast.parse(pre + f"any_out_edges and not {ft}", mode="eval").body, {})
    ctx.check(_strip_implies(cond, pf, negate=True), fi, fi.node, "refuses: block1 has a non-fallthrough terminator and does not fall through to block2",
              f"are_joinable can return true although block1 has other outgoing edges and `{ft}` is false", key="C03.11::refuses")


@rule("C03.12", ["C03", "C11", "C07"], "several calls to one callee in one patch each get their return edge", 1)
def c03_12(ctx: Ctx):
    fi = ctx.repo.func("_modify.edges.add_return_edges_to_callee")
    lin = linear(fi.node)
    params = [a.arg for a in fi.params]
    if "cfg" not in params:
        raise AnalysisError("add_return_edges_to_callee: parameter cfg not found")
    adds = [c for g, c in lin.all_calls() if src(c.func) == "cfg.add"]
    discards_ir = [c for g, c in lin.all_calls() if src(c.func).endswith("ir.cfg.discard")]
    if not adds or not discards_ir:
        raise AnalysisError("add_return_edges_to_callee: expected IR-side discard and cfg-side add")
    skips = [g for g in lin.stmts if isinstance(g.node, ast.Continue)]
    if len(skips) != 1:
        raise AnalysisError(f"add_return_edges_to_callee: {len(skips)} skip points")
    tests = [x.node.test for x in lin.stmts if isinstance(x.node, ast.If) and any(s is skips[0].node for s in ast.walk(x.node))]
    reads_new = any(isinstance(n, ast.Name) and n.id == "cfg" for t in tests for n in ast.walk(t))
    ctx.check(reads_new, fi, skips[0].node, "the 'block does not return' skip also looks at return edges already placed in `cfg`",
              "the skip test reads only the IR-side return cache, but this function moves a block's placeholder return edge out of the IR and adds its replacement to `cfg` (the patch's CFG, "
              "merged later): on the second call for the same callee the block looks as if it never returned and the second call site gets no Return edge",
              key="add_return_edges_to_callee::read-your-writes")


@rule("C03.13", ["C03"], "code that ends up without a terminator in front of other code gets a fallthrough edge to it", 2)
def c03_13(ctx: Ctx):
    """Two ways to produce a block whose last instruction can fall through while the block has
    no Fallthrough edge: deleting the terminator of a block, and inserting after a terminator
    that does not fall through. Either needs an edge to the *physically next* block, which only
    the block ordering (adjacent_blocks / next_block) knows."""
    repo = ctx.repo
    cases = {
        "delete": ("_modify.edit.delete", "the deleted range reaches the end of the block (its terminator is deleted): the remaining head has no outgoing edge at all, "
                   "although it now runs into the following block (push; pop; ret  ->  delete ret  ->  no Fallthrough to the next block)"),
        "insert": ("_modify.edit.insert", "the patch is inserted at the end of a block whose terminator does not fall through (after ret/jmp): the inserted code has no "
                   "Fallthrough edge to the block that physically follows it"),
    }
    helpers = ["_modify.edit._cleanup_modified_blocks", "_modify.remove.remove_block", "_modify.split.split_block"]
    for name, (q, why) in sorted(cases.items()):
        fi = repo.func(q)
        found = None
        for f in [fi] + [repo.func(h) for h in helpers]:
            for c in calls_in(f.node):
                t = src(c)
                establishes = (src(c.func) == "update_fallthrough_target" or ("gtirb.Edge(" in t and "Fallthrough" in t and src(c.func).endswith(".add")))
                if establishes and ("next_block" in t or "adjacent_blocks" in t):
                    found = (f, c)
        ctx.check(found is not None, fi, fi.node, f"{name}: a tail without terminator is linked to the physically next block",
                  why, key=f"C03.13::{name}::no-fallthrough-to-next-block")


@rule("C05.10", ["C05", "C01"], "an edit accounts for every block that contains the edit point, not only the edited one", 1)
def c05_10(ctx: Ctx):
    fi = ctx.repo.func("_modify.edit.edit_byte_interval")
    loops = [n for n in walk_no_nested(fi.node) if isinstance(n, ast.For) and src(n.iter) == "bi.blocks" and isinstance(n.target, ast.Name)]
    if len(loops) != 1:
        raise AnalysisError("edit_byte_interval: block loop not found")
    lp = loops[0]
    b = lp.target.id
    tests = [n.test for n in ast.walk(lp) if isinstance(n, ast.If)]
    straddle = [t for t in tests if f"{b}.size" in src(t)]
    ctx.check(bool(straddle), fi, lp, "blocks that straddle the edit point are resized (or refused)",
              f"the loop only shifts blocks with `{b}.offset >= offset`; a block that starts before the edit point and extends over it (an overlapping block other than the edited one) "
              "keeps its size, so after a deletion it extends past the end of its byte interval (and after an insertion it no longer covers its last bytes)",
              key="C05.10::edit_byte_interval::straddling-blocks")


# ----------------------------------------------------------------------------
# rules for defects found on the unchanged tree by the bug-hunt round (DESIGN 7, F25-...)
# ----------------------------------------------------------------------------


def _truthiness_operands(test: ast.AST) -> List[ast.AST]:
    """Sub-expressions whose *truthiness* decides `test` (through not/and/or)."""
    if isinstance(test, ast.UnaryOp) and isinstance(test.op, ast.Not):
        return _truthiness_operands(test.operand)
    if isinstance(test, ast.BoolOp):
        return [x for v in test.values for x in _truthiness_operands(v)]
    return [test]


@rule("GEN.zerofalsy", ALL_PROPS, "an address/offset is tested with `is None`, never by truthiness (0 is a valid address)", 1, scoped=True)
def gen_zerofalsy(ctx: Ctx):
    n = 0
    # attributes declared `Optional[int]` anywhere in the package: None means absent, 0 is a value
    optint = set()
    for m in ctx.repo.mods.values():
        for a in ast.walk(m.tree):
            if isinstance(a, ast.AnnAssign) and src(a.annotation) in ("Optional[int]", "int | None", "typing.Optional[int]"):
                t = a.target
                if isinstance(t, ast.Name):
                    optint.add(t.id)
                elif isinstance(t, ast.Attribute):
                    optint.add(t.attr)
    optint -= {"lineno"}  # 1-based: 0 is not a line
    for q, fi in sorted(ctx.repo.funcs.items()):
        if q.startswith(("driver.", "assembler.__main__")):
            continue
        for node in walk_no_nested(fi.node):
            if isinstance(node, ast.Assert):
                tests = [node.test]
            elif isinstance(node, (ast.If, ast.While)):
                tests = [node.test]
            elif isinstance(node, ast.IfExp):
                tests = [node.test]
            else:
                continue
            for op in [o for t in tests for o in _truthiness_operands(t)]:
                n += 1
                if isinstance(op, ast.Attribute) and op.attr in optint and op.attr not in ("address", "offset", "displacement"):
                    ctx.fail(fi, node, f"`{src(op)}` used as a truth value",
                             f"`{op.attr}` is declared Optional[int]: None means 'not given', 0 is a legitimate value (register/column 0, no adjustment) that this test treats as absent",
                             key=f"{q}::zerofalsy::{src(op)}")
                elif isinstance(op, ast.Attribute) and op.attr in ("address", "offset", "displacement"):
                    ctx.fail(fi, node, f"`{src(op)}` used as a truth value",
                             f"`{src(op)}` is an integer that may be 0 (a module laid out from address 0, the first block of an interval): the test treats 0 like None, "
                             "so a valid request is refused (AssertionError) or takes the 'absent' branch",
                             key=f"{q}::zerofalsy::{src(op)}")
    ctx.ok(ctx.repo.mod("_modify.retarget"), None, f"{n} truth-value operands of assert/if/while scanned", nontrivial=False, key="GEN.zerofalsy::scan")
    if n < 300:
        raise AnalysisError(f"only {n} conditions scanned")


@rule("C20.9", ["C20", "C04"], "OffsetMapping.clear() empties the element level too", 1)
def c20_9(ctx: Ctx):
    cls = ctx.repo.cls("_adt.offset_mapping.OffsetMapping")
    dele = cls.methods.get("__delitem__")
    if dele is None:
        raise AnalysisError("OffsetMapping.__delitem__ not found")
    # does deleting the last Offset of an element drop the element key? (then the inherited clear() would be enough)
    prunes = any(isinstance(n, ast.Delete) and any(src(t) in ("self._data[elem]", "self._data[key.element_id]") for t in n.targets) for n in ast.walk(dele.node)) and \
        any("isinstance(key, gtirb.Offset)" in src(i.test) for i in ast.walk(dele.node) if isinstance(i, ast.If))
    clr = cls.methods.get("clear")
    own = clr is not None and any(src(c.func) == "self._data.clear" for c in calls_in(clr.node))
    pruning_offset_branch = False
    if prunes:
        for i in [x for x in ast.walk(dele.node) if isinstance(x, ast.If) and "isinstance(key, gtirb.Offset)" in src(x.test)]:
            pruning_offset_branch = any(isinstance(n, ast.Delete) and any(src(t) == "self._data[elem]" for t in n.targets) for st in i.body for n in ast.walk(st))
    ctx.check(own, cls.methods.get("clear") or dele, (clr or dele).node, "clear() resets `_data`",
              "OffsetMapping inherits MutableMapping.clear(), which pops Offset by Offset through __delitem__; that leaves every element key behind with an empty dict, so after clear() "
              "`elem in m` is True, `m[elem]` is {} and node_keys() still yields the element - unlike the dictionary-of-dictionaries model (and unlike a fresh OffsetMapping)",
              key="OffsetMapping.clear::element-level")


@rule("C15.7", ["C15", "C14"], "DWARF decoders never use a short read: truncated input is a ValueError, and an operation cannot run past its expression block", 5)
def c15_7(ctx: Ctx):
    repo = ctx.repo
    n = 0
    for q, fi in sorted(repo.funcs.items()):
        if not q.startswith("dwarf."):
            continue
        for c in calls_in(fi.node):
            f = src(c.func)
            if f.endswith(".read") and len(c.args) == 1 and isinstance(c.func, ast.Attribute) and isinstance(c.func.value, ast.Name) and c.func.value.id in ("io", "reader", "stream"):
                n += 1
                # the result must be bound to a name whose length is compared with the requested size, with a ValueError on mismatch
                holder = [a for a in walk_no_nested(fi.node) if isinstance(a, ast.Assign) and a.value is c and isinstance(a.targets[0], ast.Name)]
                ok = False
                if holder:
                    nm = holder[0].targets[0].id
                    for i in [x for x in walk_no_nested(fi.node) if isinstance(x, ast.If)]:
                        t = src(i.test)
                        if f"len({nm})" in t and any(isinstance(r, ast.Raise) and r.exc is not None and "ValueError" in src(r.exc) for st in i.body for r in ast.walk(st)):
                            ok = True
                ctx.check(ok, fi, c, f"`{src(c)}` is length-checked before use",
                          f"`{src(c)}` may return fewer bytes than asked at the end of a truncated `.cfi_escape`; the short (even empty) result is decoded as if complete, so an operand is fabricated "
                          "(`0f 01 08` yields DW_OP_const1u 0) instead of ValueError",
                          key=f"{q}::checked-read")
            if f == "_read_exact":
                n += 1
                ctx.ok(fi, c, f"`{src(c)}`: read through the length-checking helper", key=f"{q}::checked-read::{src(c)[:40]}")
            if f in ("leb128.u.decode_reader", "leb128.i.decode_reader"):
                n += 1
                tries = [t for t in walk_no_nested(fi.node) if isinstance(t, ast.Try) and any(c is x for st in t.body for x in ast.walk(st))]
                ok = any(any(h.type is not None and "EOFError" in src(h.type) and any(isinstance(r, ast.Raise) and r.exc is not None and "ValueError" in src(r.exc) for st in h.body for r in ast.walk(st)) for h in t.handlers) for t in tries)
                ctx.check(ok, fi, c, f"`{f}` EOFError is turned into ValueError",
                          f"`{f}` raises EOFError when the input ends inside a LEB128 value; nothing translates it, so evaluate_cfi_directives leaks an exception type other than CFIStateError/ValueError "
                          "for a truncated escape such as `.cfi_escape 0x0f`",
                          key=f"{q}::leb-eof")
    ee = repo.cls("dwarf.cfi._ExprEncoder").methods["decode"]
    lin = linear(ee.node)
    loops = [g for g in lin.stmts if isinstance(g.node, ast.While)]
    post = [g for g in lin.stmts if isinstance(g.node, ast.Raise) and g.node.exc is not None and "ValueError" in src(g.node.exc) and not g.loops and loops and g.index > loops[0].index]
    ok = bool(post) and any("op_bytes_read" in a and "length" in a for g in post for a in _atoms(g.guard))
    n += 1
    ctx.check(ok, ee, ee.node, "after the operation loop the bytes consumed equal the declared block length",
              "the loop stops when op_bytes_read >= length, but nothing rejects `>`: an operation whose operands extend past the declared block (`0f 01 08 2a`: a 1-byte block holding the 2-byte "
              "DW_OP_const1u 42) is accepted and the following instruction bytes are swallowed",
              key="dwarf.cfi._ExprEncoder.decode::exact-fill")
    if n < 5:
        raise AnalysisError(f"only {n} stream reads found in dwarf/")


@rule("C12.11", ["C12", "C08", "C13", "C04"], "several empty label blocks folded into one keep their CFI directives in program order", 1)
def c12_11(ctx: Ctx):
    repo = ctx.repo
    rb = repo.func("assembler.assembler.Assembler.Result.CFIProcedure._replace_block")
    prepends = any(isinstance(n, ast.Assign) and isinstance(n.targets[0], ast.Subscript) and isinstance(n.targets[0].slice, ast.Slice)
                   and n.targets[0].slice.lower is None and n.targets[0].slice.upper is not None and src(n.targets[0].slice.upper) == "0" for n in ast.walk(rb.node))
    appends = any(isinstance(c.func, ast.Attribute) and c.func.attr == "extend" for c in calls_in(rb.node))
    if prepends == appends:
        raise AnalysisError("_replace_block: neither clearly prepends nor appends")
    fi = repo.func("assembler.assembler.Assembler._remove_empty_blocks")
    loops = [lp for lp in walk_no_nested(fi.node) if isinstance(lp, ast.For) and any(src(c.func) == "self._replace_cfi_referents" for c in calls_in(lp))]
    inner = [lp for lp in loops if not any(isinstance(x, ast.For) and x is not lp and any(src(c.func) == "self._replace_cfi_referents" for c in calls_in(x)) for x in ast.walk(lp))]
    if len(inner) != 1:
        raise AnalysisError("_remove_empty_blocks: loop over the folded blocks not found")
    it = src(inner[0].iter)
    backwards = it.startswith("reversed(")
    ctx.check(backwards == prepends, fi, inner[0], f"folded blocks are visited {'last-to-first' if prepends else 'first-to-last'} (each one's directives are {'prepended' if prepends else 'appended'})",
              f"the blocks are visited as `{it}` while _replace_block {'prepends' if prepends else 'appends'} each block's directives: with two empty label blocks at one offset "
              "(`.cfi_def_cfa_offset 16; a:; .cfi_def_cfa_offset 24; b:; nop`) the later directive ends up in front of the earlier one (final CFA offset 16 instead of 24)",
              key="_remove_empty_blocks::cfi-order")


@rule("C02.7", ["C02", "C05", "C10", "C09"], "split_byte_interval and apply() order a zero-sized block before a sized block at the same position (as the block-ordering cache does)", 3)
def c02_7(ctx: Ctx):
    repo = ctx.repo

    def sort_key(q: str, over: str):
        fi = repo.func(q)
        for c in calls_in(fi.node, nested=True):
            if isinstance(c.func, ast.Name) and c.func.id == "sorted" and c.args and over in src(c.args[0]):
                kw = next((k.value for k in c.keywords if k.arg == "key"), None)
                if isinstance(kw, ast.Lambda):
                    return fi, c, kw
        raise AnalysisError(f"{q}: sorted({over}, key=lambda ...) not found")

    def zero_first(lam: ast.Lambda):
        """The first key component that mentions the size decides where a zero-sized block goes among blocks at one position:
        `x.size != 0`, `bool(x.size)`, `x.size > 0` (False < True) and a bare ascending `x.size` all put it first."""
        a = lam.args.args[0].arg
        parts = [src(e) for e in lam.body.elts] if isinstance(lam.body, ast.Tuple) else [src(lam.body)]
        for i, p in enumerate(parts):
            if f"{a}.size" in p:
                return parts, i, p in (f"{a}.size != 0", f"{a}.size", f"bool({a}.size)", f"{a}.size > 0", f"0 != {a}.size", f"0 < {a}.size")
        return parts, None, False

    fr, cr, ref = sort_key("_modify.cache.ModifyCache.__init__", "byte_blocks")
    rparts, ri, rok = zero_first(ref)
    ctx.check(ri is not None and ri >= 1 and rok, fr, cr, f"reference order of the cache: position, then zero-sized first (`{rparts[ri] if ri is not None else '?'}`)",
              f"the cache orders blocks by `{', '.join(rparts)}`: a zero-sized block is no longer placed before a sized block at the same address", key="C02.7::reference")
    fi, c, lam = sort_key("intervalutils.split_byte_interval", "interval.blocks")
    parts, si, sok = zero_first(lam)
    a2 = lam.args.args[0].arg
    ctx.check(si == 1 and sok and parts[0] == f"{a2}.offset", fi, c, f"blocks are grouped in the order ({a2}.offset, zero-sized first)",
              f"blocks are sorted by `{', '.join(parts)}`: when a zero-sized block and a sized block share an offset, the zero-sized one is not guaranteed to come first; if the sized block does, "
              "the zero-sized block is grouped into *its* interval, and a later edit at offset 0 of that block shifts the zero-sized block too (its label moves back over untouched bytes, "
              "the offset can become negative and the IR unserialisable)",
              key="split_byte_interval::zero-sized-first")
    fa, ca, la = sort_key("rewriting.RewritingContext.apply", "self._module.byte_blocks")
    pa, ai, aok = zero_first(la)
    ctx.check(ai == 1 and aok, fa, ca, "apply() visits blocks in the order (address, zero-sized first)",
              f"apply() sorts the blocks it visits by `{', '.join(pa)}`, the neighbour cache by (address, zero-sized first): for a zero-sized block Z kept at the address of the following data block D, "
              "set order decides whether D is visited first - then D's deletion also removes Z and Z's own pending modification runs on a detached block (AssertionError in about half of the runs), "
              "while one-at-a-time application never fails",
              key="apply::zero-sized-first")


@rule("C03.14", ["C03"], "remove_block drops the block's own outgoing edges (and its call's return edges) before it moves its incoming edges", 1)
def c03_14(ctx: Ctx):
    fi = ctx.repo.func("_modify.remove.remove_block")
    lin = linear(fi.node)
    out = [g for g, c in lin.all_calls() if src(c.func) == "_remove_outgoing_edges"]
    inc = [g for g, c in lin.all_calls() if src(c.func) == "_retarget_incoming_edges"]
    if len(out) != 1 or not inc:
        raise AnalysisError("remove_block: edge steps not found")
    late = [g for g in inc if g.index < out[0].index]
    ctx.check(not late, fi, out[0].node, "_remove_outgoing_edges runs before every _retarget_incoming_edges",
              f"incoming edges are retargeted (line {late[0].node.lineno if late else 0}) before the outgoing ones are removed: when the removed block is a call whose predecessor calls the same function, "
              "the callee's Return edge to the removed block is first moved onto the next block, where it coincides with the removed call's own return edge, and "
              "remove_return_edges_from_callee then deletes that single edge - the surviving call loses its return edge (`call g; call g; ret`, delete the second call)",
              key="remove_block::outgoing-before-incoming")


@rule("C03.15", ["C03"], "return edges for calls in a patch are computed on the blocks as they are after the split", 1)
def c03_15(ctx: Ctx):
    fi = ctx.repo.func("_modify.edit.insert")
    lin = linear(fi.node)
    add = [g for g, c in lin.all_calls() if src(c.func) == "_add_return_edges_for_patch_calls"]
    splits = [g for g, c in lin.all_calls() if src(c.func) in ("split_block", "remove_block")]
    if len(add) != 1 or not splits:
        raise AnalysisError("insert(): steps not found")
    late = [g for g in splits if g.index > add[0].index]
    ctx.check(not late, fi, add[0].node, "_add_return_edges_for_patch_calls runs after the target block was split (and the replaced range removed)",
              f"the callee's return edges are staged in the patch CFG before `{src(late[0].node)[:50] if late else ''}` (line {late[0].node.lineno if late else 0}): when the patch calls the function it is "
              "inserted into, the staged Return edge has the *unsplit* block as source; split_block only moves edges that are in the IR, so the edge stays on the head that ends with the "
              "inserted call and the function's real `ret` never gets it",
              key="insert::return-edges-after-split")


@rule("C01.9", ["C01", "C04"], "an edit beyond the initialised prefix of a byte interval materialises the bytes in front of it first", 1)
def c01_9(ctx: Ctx):
    fi = ctx.repo.func("_modify.edit.edit_byte_interval")
    lin = linear(fi.node)
    splice = [g for g in lin.stmts if isinstance(g.node, ast.Assign) and src(g.node.targets[0]) == "bi.contents"]
    if len(splice) != 1:
        raise AnalysisError("edit_byte_interval: contents splice not found")
    # `bi.contents` only holds the initialised prefix; slicing it at `offset` is only right when offset <= len(contents)
    pre = [g for g in lin.stmts if g.index < splice[0].index and isinstance(g.node, ast.Assign) and src(g.node.targets[0]) == "bi.initialized_size"]
    guards = [a for g in pre for a in _atoms(g.guard)]
    ok = bool(pre) and any("len(bi.contents)" in a or "bi.initialized_size" in a for a in guards)
    ctx.check(ok, fi, splice[0].node, "when `offset` lies beyond len(bi.contents) the gap is initialised before the splice",
              "`bi.contents[:offset] + content + ...` silently clamps `offset` to the length of the initialised prefix: in a partly or wholly uninitialised interval (.bss-like, size 8, no contents) "
              "insert_at(d, 5, b'\\xAA\\xBB') puts the bytes at block offset 0 instead of 5",
              key="edit_byte_interval::uninitialised-prefix")


@rule("C04.10", ["C04", "C12"], "the PC-relative adjustment is only stripped from fixups on the ISAs whose emitter adds it", 1)
def c04_10(ctx: Ctx):
    fi = ctx.repo.func("assembler.assembler._Streamer._fixup_to_symbolic_operand")
    lin = linear(fi.node)
    unwrap = [g for g in lin.stmts if isinstance(g.node, ast.Assign) and src(g.node.targets[0]) == "expr" and src(g.node.value) == "expr.lhs"]
    if len(unwrap) != 1:
        raise AnalysisError("_fixup_to_symbolic_operand: unwrap not found")
    atoms = _atoms(unwrap[0].guard)
    ok = any("isa" in a and ("IA32" in a or "X64" in a) for a in atoms)
    ctx.check(ok, fi, unwrap[0].node, "the unwrap is restricted to IA32/X64",
              f"the unwrap fires on any ISA whenever the addend happens to equal fixup.offset - len(encoding) (conditions: {atoms}): only the x86 emitter adds that adjustment, so on AArch64 a "
              "user-written `ldr x1, var+(-4)` (4-byte instruction, fixup at 0) loses its addend and becomes a reference to `var`",
              key="_fixup_to_symbolic_operand::unwrap-x86-only")


@rule("C18.7", ["C18"], "a use is control flow when capstone puts the instruction in the jump, call *or relative-branch* group", 1)
def c18_7(ctx: Ctx):
    fi = ctx.repo.func("_modify.retarget._sym_expr_access_type")
    t = src(fi.node)
    groups = {g for g in ("CS_GRP_JUMP", "CS_GRP_CALL", "CS_GRP_BRANCH_RELATIVE") if g in t}
    ctx.check({"CS_GRP_JUMP", "CS_GRP_CALL"} <= groups, fi, fi.node, "jump and call groups are recognised", "jump/call group test removed", key="C18.7::jump-call")
    ctx.check("CS_GRP_BRANCH_RELATIVE" in groups, fi, fi.node, "relative branches outside the jump group (x86 loop/loope/loopne/jrcxz, MIPS bal) are recognised",
              "only CS_GRP_JUMP and CS_GRP_CALL are tested: capstone files `loop`, `loope`, `loopne` (and MIPS `bal`) under CS_GRP_BRANCH_RELATIVE only, so `loop A` is treated as a plain code "
              "reference - retargeting A moves the operand but not the Branch edge, and an external target gets GOT/PCREL instead of PLT",
              key="C18.7::branch-relative")
    ctx.check("MIPS_INS_JAL" in t, fi, fi.node, "MIPS `jal` (in no capstone semantic group) is recognised by instruction id",
              "capstone puts MIPS `jal` in none of the jump/call/relative-branch groups, and nothing tests the instruction id: retargeting the callee of `jal A` rewrites the operand but leaves the Call edge on A",
              key="C18.7::mips-jal")


@rule("C12.12", ["C12", "C04"], "only the target operand of a *direct* transfer is a branch operand (PLT inference)", 1)
def c12_12(ctx: Ctx):
    fi = ctx.repo.func("assembler.assembler._Streamer.emit_instruction")
    calls = [c for c in calls_in(fi.node) if src(c.func) == "self._fixup_to_symbolic_operand"]
    if len(calls) != 1 or len(calls[0].args) < 3:
        raise AnalysisError("emit_instruction: _fixup_to_symbolic_operand call not found")
    arg = calls[0].args[2]
    text = src(arg)
    if isinstance(arg, ast.Name):
        v = single_assign_value(fi.node, arg.id)
        text = src(v) if v is not None else text
    lin = linear(fi.node)
    got = lin.cond(ast.parse(text, mode="eval").body, {})
    want = lin.cond(ast.parse("(inst.desc.is_call or inst.desc.is_branch) and not (inst.desc.is_indirect_branch or _is_indirect_call(self._state.target.isa, inst))", mode="eval").body, {})
    ok = implies(got, want) and implies(want, got)
    ctx.check(ok, fi, calls[0], "is_branch = call/branch and not an indirect transfer",
              f"every fixup of a call/branch instruction is converted with is_branch=`{text[:70]}`, also the *memory operand* of an indirect `call *ext(%rip)`/`jmp *ext(%rip)`: "
              "for an external symbol in a PIE the PLT attribute is inferred, so the operand reads `ext@PLT` (load a pointer out of the PLT stub) instead of the plain data reference",
              key="emit_instruction::is-branch-direct-only")


def _running_max_of_block_ends(repo, outer_q: str, name: str) -> bool:
    """Is `name` (a local of the outer function, possibly `nonlocal` in a nested one) only ever assigned
    `max(b.offset + b.size for b in <blocks>)` or `max(name, <x>.offset + <x>.size [...])`?  Then it *is* the greatest end offset."""
    asgs = []
    for q, f in repo.funcs.items():
        if q == outer_q or q.startswith(outer_q + "."):
            asgs += [n for n in walk_no_nested(f.node) if isinstance(n, ast.Assign) and any(isinstance(t, ast.Name) and t.id == name for t in n.targets)]
    if not asgs:
        return False
    for a in asgs:
        v = a.value
        if not (isinstance(v, ast.Call) and isinstance(v.func, ast.Name) and v.func.id == "max"):
            return False
        t = src(v)
        initial = "for " in t and ".blocks" in t and ".offset + " in t and ".size" in t
        update = any(isinstance(arg, ast.Name) and arg.id == name for arg in v.args)   # max(name, <anything>): never below the true maximum it started from
        if not (initial or update):
            return False
    return True



@rule("C10.7", ["C10", "C05"], "join_byte_intervals: the padding block starts where the existing blocks end; the strictest alignment of an interval decides its padding", 2)
def c10_7(ctx: Ctx):
    fi = ctx.repo.func("intervalutils.join_byte_intervals")
    inner = [f for q, f in ctx.repo.funcs.items() if q.startswith("intervalutils.join_byte_intervals.") and f.name == "insert_padding"]
    if len(inner) != 1:
        raise AnalysisError("join_byte_intervals.insert_padding not found")
    ip = inner[0]
    asg = [n for n in ast.walk(ip.node) if isinstance(n, ast.Assign) and src(n.targets[0]) == "padding_block_offset" and src(n.value) != "0"]
    if len(asg) != 1:
        raise AnalysisError("insert_padding: padding_block_offset not found")
    t = src(asg[0].value)
    ok = ("max(" in t and ".offset + " in t and ".size" in t and "destination.blocks" in t) or \
        (isinstance(asg[0].value, ast.Name) and _running_max_of_block_ends(ctx.repo, "intervalutils.join_byte_intervals", asg[0].value.id))
    ctx.check(ok, ip, asg[0], "the cover block starts at the greatest end offset of the blocks already in the destination",
              f"the cover block starts at `{t}`, the end of the block with the greatest *start* offset: with nested/overlapping blocks (A=[2,8) containing B=[4,6)) it starts at 6 and covers "
              "A's bytes [6,8); two paddings in one join both start at the same offset and overlap each other (newly created blocks overlap)",
              key="join_byte_intervals::padding-block-start")
    mins = [c for c in calls_in(fi.node) if isinstance(c.func, ast.Name) and c.func.id == "min" and c.args and "module_alignment" in src(c.args[0])]
    if len(mins) != 1:
        raise AnalysisError("join_byte_intervals: alignment node selection not found")
    kw = next((k.value for k in mins[0].keywords if k.arg == "key"), None)
    kt = src(kw.body) if isinstance(kw, ast.Lambda) else "?"
    first = src(kw.body.elts[0]) if isinstance(kw, ast.Lambda) and isinstance(kw.body, ast.Tuple) and kw.body.elts else kt
    ok = first.replace(" ", "").startswith("-module_alignment[")
    ctx.check(ok, fi, mins[0], "the block with the strictest alignment requirement decides the interval's padding",
              f"the aligned block with the lowest offset decides (`key={kt}`): in an overlapping group A (align 2) / B (align 16) only A's requirement is re-established after an edit in front "
              "of the group, B ends up misaligned although alignment[B] is still 16 (keeping the strictest block's residue keeps every weaker power-of-two requirement too)",
              key="join_byte_intervals::strictest-alignment")


ONESHOT_MAKERS = {"reversed", "iter", "map", "filter", "zip", "enumerate", "itertools.chain", "chain", "itertools.islice"}


def _oneshot_expr(fi: FuncInfo, e: ast.AST, depth: int = 0) -> bool:
    """Does evaluating `e` give a one-shot iterator (exhausted by the first pass)?"""
    if isinstance(e, ast.GeneratorExp):
        return True
    if isinstance(e, ast.Call) and src(e.func) in ONESHOT_MAKERS:
        return True
    if isinstance(e, ast.Name) and depth < 2:
        asg = find_assign(fi.node, e.id)
        vals = [a.value for a in asg if isinstance(a, ast.Assign)]
        return bool(vals) and all(_oneshot_expr(fi, v, depth + 1) for v in vals)
    return False


def _return_shape(callee: FuncInfo):
    """('all', bool) when the whole result is/isn't one-shot, or ('tuple', [bool, ...]) per element."""
    if any(isinstance(n, (ast.Yield, ast.YieldFrom)) for n in walk_no_nested(callee.node)):
        return ("all", True)
    rets = [n.value for n in walk_no_nested(callee.node) if isinstance(n, ast.Return) and n.value is not None]
    if not rets:
        return ("all", False)
    if all(isinstance(r, ast.Tuple) for r in rets) and len({len(r.elts) for r in rets}) == 1:
        n = len(rets[0].elts)
        return ("tuple", [any(_oneshot_expr(callee, r.elts[i]) for r in rets) for i in range(n)])
    return ("all", any(_oneshot_expr(callee, r) for r in rets))


@rule("GEN.oneshot", ALL_PROPS, "a value that some producer hands out as a one-shot iterator (generator, reversed(), map(), ...) is walked at most once", 1, scoped=True)
def gen_oneshot(ctx: Ctx):
    from ..astx import exclusive
    from ..resolve import callgraph, resolve_call

    repo = ctx.repo
    cg = callgraph(repo)
    n = 0
    for q, fi in sorted(repo.funcs.items()):
        if q.startswith(("driver.", "assembler.__main__")):
            continue
        env = None
        for a in [x for x in walk_no_nested(fi.node) if isinstance(x, ast.Assign) and isinstance(x.value, ast.Call)]:
            env = env or cg.env(q)
            callees = [t for t in resolve_call(repo, fi, a.value, env) if isinstance(t, FuncInfo)]
            if not callees:
                continue
            shapes = [(_return_shape(c), c) for c in callees]
            tgt = a.targets[0]
            names: Dict[str, List[str]] = {}
            if isinstance(tgt, ast.Name):
                prod = [c.qual for (k, v), c in shapes if k == "all" and v]
                if prod:
                    names[tgt.id] = prod
            elif isinstance(tgt, ast.Tuple):
                for i, el in enumerate(tgt.elts):
                    if isinstance(el, ast.Name):
                        prod = [c.qual for (k, v), c in shapes if k == "tuple" and i < len(v) and v[i]]
                        if prod:
                            names[el.id] = prod
            for name, producers in names.items():
                n += 1
                lin = linear(fi.node)
                ga = lin.of(a)
                sites = []
                for g in lin.stmts:
                    if g.index <= ga.index:
                        continue
                    node = g.node
                    heads: List[ast.AST] = []
                    if isinstance(node, (ast.For, ast.AsyncFor)):
                        heads = [node.iter]
                    elif isinstance(node, (ast.If, ast.While)):
                        heads = [node.test]
                    elif isinstance(node, ast.With):
                        heads = [i.context_expr for i in node.items]
                    elif isinstance(node, ast.Try):
                        heads = []
                    else:
                        heads = [node]
                    for h in heads:
                        for x in ast.walk(h):
                            if isinstance(x, ast.Name) and x.id == name and isinstance(x.ctx, ast.Load):
                                # a consumption inside a loop that does not contain the binding repeats
                                repeats = [lp for lp in g.loops if lp not in ga.loops]
                                # `for x in name:` itself is one pass although its body is "in" the loop
                                if isinstance(node, (ast.For, ast.AsyncFor)) and h is node.iter and isinstance(node.iter, ast.Name):
                                    repeats = [lp for lp in g.loops if lp not in ga.loops]
                                sites.append((g, bool(repeats)))
                                break
                multi = any(rep for _, rep in sites)
                for i in range(len(sites)):
                    for j in range(i + 1, len(sites)):
                        if not exclusive(sites[i][0].guard, sites[j][0].guard):
                            multi = True
                ctx.check(not multi, fi, a, f"`{name}` (from {producers[0].split('.')[-2] + '.' + producers[0].split('.')[-1]}) is consumed once",
                          f"`{name}` can be a one-shot iterator ({', '.join(p.rsplit('.', 2)[-2] + '.' + p.rsplit('.', 1)[-1] for p in producers[:3])} return generator/reversed()/map() objects) "
                          f"but is walked at {len(sites)} places (lines {[s[0].node.lineno for s in sites]}{', inside a loop' if any(r for _, r in sites) else ''}): the first pass exhausts it, "
                          "the later ones see nothing - for the patch wrapper that means the epilogue is never emitted (registers, flags and stack pointer are not restored)",
                          key=f"{q}::oneshot::{name}")
                # the same obligation seen from the producer's side (so that it is reported under the properties anchored in the producer's file)
                for pq in producers[:1]:
                    pf = repo.funcs[pq]
                    ctx.check(not multi, pf, pf.node, f"the one-shot iterator returned by {pq.rsplit('.', 2)[-2]}.{pf.name} is consumed once by {q.rsplit('.', 1)[-1]}",
                              f"{q} walks `{name}` (a one-shot iterator produced here) at {len(sites)} places: only the first pass sees the elements",
                              key=f"{pq}::oneshot-consumer::{q.rsplit('.', 1)[-1]}::{name}")
    if n < 1:
        raise AnalysisError("no one-shot producer/consumer pair found (expected: the reversed() epilogue of _create_prologue_and_epilogue)")
