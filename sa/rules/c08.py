"""C08 - rewriting preserves call-frame information (structural part)."""

from __future__ import annotations

import ast
import re
from typing import Dict, List, Set

from ..astx import (
    calls_in,
    const_str,
    f_show,
    implies,
    linear,
    single_assign_value,
    src,
    walk_no_nested,
)
from ..core import AnalysisError, Ctx, rule
from ..region import Unknown, minieval

CFI_RE = re.compile(r"^\.cfi_[a-z_]+$")


def evaluator_vocabulary(repo) -> Set[str]:
    fi = repo.func("dwarf.cfi_eval.evaluate_cfi_directives")
    out = set()
    for n in ast.walk(fi.node):
        if isinstance(n, ast.Compare) and isinstance(n.left, ast.Name) and n.left.id == "name" and isinstance(n.ops[0], ast.Eq):
            s = const_str(n.comparators[0])
            if s and CFI_RE.match(s):
                out.add(s)
    if len(out) < 15:
        raise AnalysisError(f"evaluator dispatch vocabulary too small: {sorted(out)}")
    return out


@rule("C08.1", ["C08", "C15"], "every .cfi_* literal in the package is a directive the evaluator knows", 40)
def c08_1(ctx: Ctx):
    repo = ctx.repo
    vocab = evaluator_vocabulary(repo)
    for mod in repo.mods.values():
        seen: Dict[str, int] = {}
        for n in ast.walk(mod.tree):
            s = const_str(n)
            if s is None or not CFI_RE.match(s):
                continue
            k = seen.get(s, 0)
            seen[s] = k + 1
            ctx.check(s in vocab, mod, n, f"literal {s}",
                      f"`{s}` is not a directive name evaluate_cfi_directives dispatches on: a comparison against it never matches "
                      "(a misspelt directive is silently never found)", key=f"{mod.name}::{s}#{k}")


@rule("C08.2", ["C08", "C04", "C11"], "deleting code keeps startproc/endproc/remember/restore and re-homes them in order", 9)
def c08_2(ctx: Ctx):
    repo = ctx.repo
    fi = repo.func("_modify.remove._required_cfi_directives")
    kept: Set[str] = set()
    for n in ast.walk(fi.node):
        if isinstance(n, ast.Compare) and src(n.left) == "directive[0]":
            c = n.comparators[0]
            if isinstance(c, ast.Constant):
                kept.add(c.value)
            elif isinstance(c, (ast.Tuple, ast.List, ast.Set)):
                kept.update(e.value for e in c.elts if isinstance(e, ast.Constant))
    want = {".cfi_startproc", ".cfi_endproc", ".cfi_remember_state", ".cfi_restore_state"}
    ctx.check(want <= kept, fi, fi.node, "structural directives are recognised as required",
              f"{sorted(want - kept)} no longer kept: deleting the code that carried them un-balances the procedure/state stack")
    # iteration in offset order
    loops = [n for n in walk_no_nested(fi.node) if isinstance(n, ast.For) and "displacement_map" in src(n.iter)]
    ok = len(loops) == 1 and src(loops[0].iter).replace(" ", "") == "sorted(displacement_map.items())"
    ctx.check(ok, fi, loops[0] if loops else fi.node, "directives are visited in offset order (sorted(displacement_map.items()))",
              f"iterates `{src(loops[0].iter) if loops else '?'}`: the balanced-pair detection depends on seeing startproc before its endproc; "
              "dict insertion order is not offset order once directives were moved to offset 0 of a block")
    # balanced pair dropping: startproc goes to procedure_directives, endproc clears them
    lin = linear(fi.node)
    sp = [(g, c) for g, c in lin.all_calls() if src(c.func) == "procedure_directives.append" and lin.under(g, "directive[0] == '.cfi_startproc'")]
    clr = [(g, c) for g, c in lin.all_calls() if src(c.func) == "procedure_directives.clear" and lin.under(g, "directive[0] == '.cfi_endproc'")]
    ep = [(g, c) for g, c in lin.all_calls() if src(c.func) == "append_to.append" and lin.under(g, "directive[0] == '.cfi_endproc'")]
    ctx.check(len(sp) == 1 and len(clr) == 1 and len(ep) == 1 and ep[0][0].index < clr[0][0].index, fi, fi.node,
              "a startproc...endproc pair inside the block is dropped as a whole; an unmatched endproc is kept", "pair handling changed")
    at = [g for g in lin.stmts if isinstance(g.node, ast.Assign) and src(g.node.targets[0]) == "append_to"]
    ctx.check(len(at) == 1 and src(at[0].node.value) == "procedure_directives or results" and len(at[0].loops) == 2, fi, at[0].node if at else fi.node,
              "append_to is re-evaluated for every directive", "append_to binding changed")
    ext = [(g, c) for g, c in lin.all_calls() if src(c) == "results.extend(procedure_directives)"]
    ctx.check(len(ext) == 1 and not ext[0][0].loops, fi, fi.node, "an unmatched startproc (and what follows it) is kept at the end", "trailing procedure directives are dropped")
    # re-homing
    fr = repo.func("_modify.remove._remove_cfi_directives")
    lr = linear(fr.node)
    nxt = [g for g in lr.stmts if isinstance(g.node, ast.Assign) and src(g.node.targets[0]) == "next_directives[:0]" and src(g.node.value) == "keep_directives"]
    ok = len(nxt) == 1 and lr.under(nxt[0], "isinstance(next_block, gtirb.CodeBlock)")
    ctx.check(ok, fr, nxt[0].node if nxt else fr.node, "next is code: kept directives are *prepended* at its offset 0",
              "kept directives are no longer put in front of the next block's own offset-0 directives (a startproc would follow the directives it must precede)")
    nd = single_assign_value(fr.node, "next_directives")
    ctx.check(nd is not None and src(nd).replace(" ", "") == "cfi_table.setdefault(next_block,{}).setdefault(0,[])", fr, nd or fr.node,
              "target list is next_block's offset 0", f"next_directives = {src(nd) if nd else '?'}")
    prv = [(g, c) for g, c in lr.all_calls() if src(c) == "prev_directives.extend(keep_directives)"]
    ok = len(prv) == 1 and lr.under(prv[0][0], "isinstance(prev_block, gtirb.CodeBlock)") and lr.under(prv[0][0], "not isinstance(next_block, gtirb.CodeBlock)")
    ctx.check(ok, fr, prv[0][1] if prv else fr.node, "else prev is code: kept directives are *appended* at its end", "re-homing onto the previous block changed")
    pd = single_assign_value(fr.node, "prev_directives")
    ctx.check(pd is not None and src(pd).replace(" ", "") == "cfi_table.setdefault(prev_block,{}).setdefault(prev_block.size,[])", fr, pd or fr.node,
              "target list is prev_block's end offset", f"prev_directives = {src(pd) if pd else '?'}")
    stay = [g for g in lr.stmts if isinstance(g.node, ast.Assign) and src(g.node.targets[0]) == "cfi_table[block]"]
    ok = len(stay) == 1 and src(stay[0].node.value).replace(" ", "") == "{0:keep_directives}" and lr.under(stay[0], "not isinstance(next_block, gtirb.CodeBlock)") and lr.under(stay[0], "not isinstance(prev_block, gtirb.CodeBlock)")
    ctx.check(ok, fr, stay[0].node if stay else fr.node, "no code neighbour: kept directives stay on the (kept, zero-sized) block at offset 0", "fallback changed")
    drop = [(g, c) for g, c in lr.all_calls() if src(c) == "cfi_table.pop(block, None)"]
    ctx.check(len(drop) == 1 and lr.under(drop[0][0], "not keep_directives"), fr, fr.node, "nothing to keep: the block's entry is dropped", "changed")
    # remove_block computes the required set before anything is removed and passes it on
    rb = repo.func("_modify.remove.remove_block")
    lb = linear(rb.node)
    cd = [g for g in lb.stmts if isinstance(g.node, ast.Assign) and src(g.node.targets[0]) == "cfi_directives"]
    rc = [(g, c) for g, c in lb.all_calls() if src(c.func) == "_remove_cfi_directives"]
    ok = len(cd) == 1 and src(cd[0].node.value) == "_required_cfi_directives(block)" and len(rc) == 1 and \
        [src(a) for a in rc[0][1].args] == ["block", "cfi_directives", "prev_block", "next_block"] and rc[0][0].top
    ctx.check(ok, rb, rc[0][1] if rc else rb.node, "remove_block: required directives are computed once and re-homed unconditionally", "wiring changed")


@rule("C08.4", ["C08", "C15"], "every directive the assembler can emit is handled by the evaluator", 15)
def c08_4(ctx: Ctx):
    repo = ctx.repo
    vocab = evaluator_vocabulary(repo)
    emitted: Dict[str, ast.AST] = {}
    for q in [q for q in repo.funcs if q.startswith("assembler.assembler._Streamer.emit_cfi")] + ["assembler._create_gtirb.create_cfi_directives"]:
        fi = repo.func(q)
        for n in ast.walk(fi.node):
            if isinstance(n, ast.Tuple) and n.elts:
                s = const_str(n.elts[0])
                if s and CFI_RE.match(s):
                    emitted.setdefault(s, n)
                    ctx.check(s in vocab, fi, n, f"emitted directive {s}", f"the assembler emits `{s}` but evaluate_cfi_directives has no arm for it (NotImplementedError)",
                              key=f"{q}::{s}")
    for must in (".cfi_startproc", ".cfi_endproc", ".cfi_def_cfa", ".cfi_adjust_cfa_offset", ".cfi_escape"):
        if must not in emitted:
            raise AnalysisError(f"emitter extraction blind: {must} not found")


@rule("C08.5", ["C08", "C09", "C04"], "patch CFI is dropped outside procedures (decided on the original offset) and implicit inside", 6)
def c08_5(ctx: Ctx):
    repo = ctx.repo
    fi = repo.func("rewriting.RewritingContext._apply_modifications")
    lin = linear(fi.node)
    clr = [(g, c) for g, c in lin.all_calls() if src(c.func) == "sect.cfi_procedures.clear"]
    ok = len(clr) == 1
    ctx.check(ok, fi, fi.node, "cfi_procedures.clear() present", f"{len(clr)} clear() calls")
    if ok:
        g = clr[0][0]
        ctx.check(lin.under(g, "not in_cfi_procedure(offset)"), fi, clr[0][1],
                  "patch CFI is dropped iff not in_cfi_procedure(offset) - the offset in the *original* block",
                  f"guard is {f_show(g.guard)}: the tracker's intervals describe the pre-rewrite layout, so it must be asked with the original offset "
                  "(not the shifted actual_offset)")
        ctx.check(len(g.loops) == 2 and "assembler_result.sections.values()" in src(g.loops[1].iter), fi, clr[0][1], "for every section of the result", "loop changed")
        ins = [(g2, c2) for g2, c2 in lin.all_calls() if src(c2.func) == "self._insert_assembler_result"]
        ctx.check(bool(ins) and g.index < ins[0][0].index, fi, clr[0][1], "decided before the insertion", "CFI is dropped after the patch was inserted")
    ap = repo.func("rewriting.RewritingContext.apply")
    lam = [n for n in ast.walk(ap.node) if isinstance(n, ast.Lambda) and "cfi_tracker.in_procedure" in src(n)]
    ok = len(lam) == 1 and src(lam[0].body).replace(" ", "") == "cfi_tracker.in_procedure(idx,offset)" and any(
        a.arg == "idx" for a in lam[0].args.args) and len(lam[0].args.defaults) == 1 and src(lam[0].args.defaults[0]) == "idx"
    ctx.check(ok, ap, lam[0] if lam else ap.node, "in_cfi_procedure binds the block's own index (idx=idx)", "the lambda no longer captures the per-block index")
    tr = [c for c in calls_in(ap.node) if src(c.func) == "_CFIProcedureTracker"]
    ctx.check(len(tr) == 1 and [src(a) for a in tr[0].args] == ["self._module", "sorted_blocks"], ap, tr[0] if tr else ap.node,
              "the tracker is built over the same sorted block list the loop enumerates", "tracker arguments changed")
    inv = repo.func("rewriting.RewritingContext._invoke_patch")
    d = {a.arg: dv for a, dv in zip(inv.node.args.kwonlyargs, inv.node.args.kw_defaults)}
    ctx.check("implicit_cfi_procedure" in d and src(d["implicit_cfi_procedure"]) == "True", inv, inv.node,
              "inline patches are assembled inside an implicit CFI procedure by default", "default changed")
    fa = repo.func("rewriting.RewritingContext._apply_function_insertion")
    cs = [c for c in calls_in(fa.node) if src(c.func) == "self._invoke_patch"]
    ctx.check(len(cs) == 1 and any(k.arg == "implicit_cfi_procedure" and src(k.value) == "False" for k in cs[0].keywords), fa, cs[0] if cs else fa.node,
              "function bodies are assembled without an implicit procedure", "changed")
    cc = repo.func("assembler._create_gtirb.create_cfi_directives")
    lc = linear(cc.node)
    st = [(g, c) for g, c in lc.all_calls() if src(c.func) == "append_instruction" and ".cfi_startproc" in src(c)]
    en = [(g, c) for g, c in lc.all_calls() if src(c.func) == "append_instruction" and ".cfi_endproc" in src(c)]
    ok = len(st) == 1 and len(en) == 1 and lc.under(st[0][0], "not procedure.is_implicit") and lc.under(en[0][0], "not procedure.is_implicit")
    ctx.check(ok, cc, cc.node, "implicit procedures contribute no startproc/endproc of their own", "implicit procedure handling changed")
    body = [(g, c) for g, c in lc.all_calls() if src(c) == "append_instruction(offset, instruction)"]
    ctx.check(len(body) == 1 and st and en and st[0][0].index < body[0][0].index < en[0][0].index, cc, cc.node,
              "order: startproc (+personality/lsda/return column), instructions, endproc", "emission order changed")


@rule("C08.7", ["C08"], "the procedure tracker answers `inside` from startproc up to and including the endproc offset", 5)
def c08_7(ctx: Ctx):
    repo = ctx.repo
    fi = repo.func("rewriting._CFIProcedureTracker.__init__")
    adds = [c for c in calls_in(fi.node) if src(c.func) == "self._tree.addi"]
    if len(adds) != 1:
        raise AnalysisError("_CFIProcedureTracker: addi call not found")
    b, e = adds[0].args[0], adds[0].args[1]
    bv = single_assign_value(fi.node, src(b)) if isinstance(b, ast.Name) else b
    ev = single_assign_value(fi.node, src(e)) if isinstance(e, ast.Name) else e
    if ev is None:
        raise AnalysisError("_CFIProcedureTracker: interval end not a single assignment")
    # begin: assigned in the startproc arm
    lin = linear(fi.node)
    ps = [g for g in lin.stmts if isinstance(g.node, ast.Assign) and src(g.node.targets[0]) == "procedure_start" and g.loops]
    ctx.check(len(ps) == 1 and src(ps[0].node.value).replace(" ", "") == "(idx,offset)" and lin.under(ps[0], "directive == '.cfi_startproc'"), fi,
              ps[0].node if ps else fi.node, "interval begins at (block index, offset) of .cfi_startproc", "start binding changed")
    g_add = lin.of(adds[0])
    ctx.check(lin.under(g_add, "directive == '.cfi_endproc'") and lin.under(g_add, "procedure_start is not None"), fi, adds[0],
              "an interval is added at each .cfi_endproc of an open procedure", "guard changed")
    # IntervalTree.addi(b, e) / .at(p) are half-open [b, e): inside(p) iff b <= p < e
    try:
        end = minieval(ev, {"idx": 2, "offset": 5})
    except Unknown as exc:
        raise AnalysisError(f"interval end not interpretable: {exc}")
    start = (2, 1)
    rows = [((2, 0), False, "before startproc"), ((2, 1), True, "at startproc"), ((2, 3), True, "inside"),
            ((2, 5), True, "at the offset of .cfi_endproc (code inserted there lands before the endproc)"), ((2, 6), False, "after endproc"), ((3, 0), False, "next block")]
    for p, want, why in rows:
        got = start <= p < end
        ctx.check(got == want, fi, ev, f"in_procedure{p} for procedure (2,1)..(2,5)",
                  f"{why}: tracker says {'inside' if got else 'outside'}, split_block's rule puts it {'inside' if want else 'outside'}; "
                  "a patch inserted there would lose (or wrongly keep) its own CFI directives", key=f"C08.7::{p}")
    q = repo.func("rewriting._CFIProcedureTracker.in_procedure")
    ctx.check("self._tree.at((block_idx, offset))" in src(q.node), q, q.node, "membership is a point query at (block index, offset)", "query changed")
    srt = [n for n in walk_no_nested(fi.node) if isinstance(n, ast.For) and "displacement_map" in src(n.iter)]
    ctx.check(len(srt) == 1 and src(srt[0].iter).replace(" ", "") == "sorted(displacement_map.items())", fi, srt[0] if srt else fi.node,
              "directives of a block are scanned in offset order", "scan order changed")
