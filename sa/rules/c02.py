"""C02 - symbols keep designating the same place."""

from __future__ import annotations

import ast
import itertools
from typing import Dict, List, Optional

from ..astx import canon
from ..astx import (
    FALSE,
    TRUE,
    calls_in,
    equivalent,
    f_and,
    f_atoms,
    f_not,
    f_or,
    f_show,
    implies,
    linear,
    single_assign_value,
    src,
    walk_no_nested,
)
from ..core import AnalysisError, Ctx, rule
from ..effects import predicate_formula
from ..region import Unknown, minieval


@rule("C02.1", ["C02"], "removed block's symbols go to the proxy, else the start of the next block, else the end of the previous", 10)
def c02_1(ctx: Ctx):
    repo = ctx.repo
    fi = repo.func("_modify.remove.remove_block")
    calls = [c for c in calls_in(fi.node) if isinstance(c.func, ast.Attribute) and c.func.attr == "retarget_references"]
    if len(calls) != 1:
        raise AnalysisError("remove_block: retarget_references call not found")
    c = calls[0]
    if len(c.args) != 3 or src(c.args[0]) != "block":
        ctx.fail(fi, c, "retarget_references(block, target, at_end)", f"arguments are {[src(a) for a in c.args]}")
        return
    tgt = c.args[1]
    if isinstance(tgt, ast.Name):
        v = single_assign_value(fi.node, tgt.id)
        if v is None:
            raise AnalysisError("remove_block: symbol target is not a single assignment")
        tgt_expr = v
        tgt_name = tgt.id
    else:
        tgt_expr, tgt_name = tgt, None
    for P, N, V in itertools.product((None, "P"), (None, "N"), (None, "V")):
        env: Dict[str, object] = {"proxy_block": P, "next_block": N, "prev_block": V}
        try:
            got_t = minieval(tgt_expr, env)
            env2 = dict(env)
            if tgt_name:
                env2[tgt_name] = got_t
            got_e = minieval(c.args[2], env2)
        except Unknown as exc:
            raise AnalysisError(f"remove_block: target expression not interpretable: {exc}")
        want_t = P or N or V
        want_e = want_t is not None and want_t == V and P is None and N is None
        row = f"(proxy={P}, next={N}, prev={V})"
        ctx.check(
            got_t == want_t and (want_t is None or bool(got_e) == want_e),
            fi,
            c,
            f"target row {row}",
            f"{row}: code retargets to {got_t} at_end={bool(got_e)}, spec {want_t} at_end={want_e} "
            "(proxy if requested, else start of next, else end of previous)",
            key=f"C02.1::remove::{P}{N}{V}",
        )
    # proxy_block is a fresh proxy exactly when retarget_to_proxy
    lin = linear(fi.node)
    pb = [g for g in lin.stmts if isinstance(g.node, ast.Assign) and src(g.node.targets[0]) == "proxy_block"]
    ok = len(pb) == 2
    if ok:
        for g in pb:
            v = g.node.value  # type: ignore
            if isinstance(v, ast.Constant) and v.value is None:
                ok = ok and lin.under(g, "not retarget_to_proxy")
            else:
                ok = ok and "ProxyBlock" in src(v) and lin.under(g, "retarget_to_proxy")
    ctx.check(ok, fi, pb[0].node if pb else fi.node, "proxy_block is a new ProxyBlock iff retarget_to_proxy", "proxy_block binding changed")
    # join
    fj = repo.func("_modify.join.join_blocks")
    calls = [c for c in calls_in(fj.node) if isinstance(c.func, ast.Attribute) and c.func.attr == "retarget_references"]
    if len(calls) != 1:
        raise AnalysisError("join_blocks: retarget_references call not found")
    c = calls[0]
    ok = len(c.args) == 3 and src(c.args[0]) == "block2" and src(c.args[1]) == "block1"
    ctx.check(ok, fj, c, "join: references of block2 move onto block1", f"arguments are {[src(a) for a in c.args]}")
    if ok:
        for size in (0, 4):
            try:
                got = bool(minieval(c.args[2], {"block1.size": size}))
            except Unknown as exc:
                raise AnalysisError(f"join_blocks: at_end expression not interpretable: {exc}")
            ctx.check(got == bool(size), fj, c, f"join: at_end for block1.size={size}",
                      f"with block1.size={size} references go to the {'end' if got else 'start'} of block1; "
                      "they must go to its end iff block1 has content (start if it is empty)",
                      key=f"C02.1::join::{size}")
        # end labels of block2 must stay end labels: whenever the bulk retarget goes to the *start* of block1
        # (block1 empty) the at_end symbols of block2 have to be moved individually, with at_end=True, first
        lin = linear(fj.node)
        gret = lin.of(c)
        moved = []
        for g2 in lin.stmts:
            if isinstance(g2.node, ast.For) and "get_references(block2)" in src(g2.node.iter) and g2.index < gret.index:
                sym = src(g2.node.target)
                for cc in calls_in(g2.node):
                    if isinstance(cc.func, ast.Attribute) and cc.func.attr == "set_referent" and [src(a) for a in cc.args] == [sym, "block1", "True"]:
                        gc = lin.of(cc)
                        if lin.under(gc, f"{sym}.at_end"):
                            moved.append(g2)
        ok_end = bool(moved) and all(lin.under(m, "not block1.size") or m.top for m in moved)
        ctx.check(ok_end, fj, c, "join into an empty block1: end-of-block labels of block2 stay end-of-block labels",
                  "with block1 empty every reference of block2 - including its at_end symbols - is retargeted to the *start* of block1: an end label "
                  "of a block whose first bytes were deleted (or that got code inserted at offset 0) becomes a start label",
                  key="C02.1::join::end-labels-kept")
        # must be evaluated before block1.size changes
        g = lin.of(c)
        upd = [x for x in lin.stmts if isinstance(x.node, ast.Assign) and src(x.node.targets[0]) == "block1.size"]
        ctx.check(bool(upd) and g.index < upd[0].index, fj, c, "join: retarget before block1 grows", "block1.size is updated before the retarget decides start/end")


@rule("C02.2", ["C02", "C09"], "split_block moves every end-of-block label (cache-aware enumeration) to the tail", 4)
def c02_2(ctx: Ctx):
    fi = ctx.repo.func("_modify.split.split_block")
    loops = []
    for n in walk_no_nested(fi.node):
        if isinstance(n, ast.For):
            body_src = " ".join(src(s) for s in n.body)
            if ".referent = new_block" in body_src:
                loops.append(n)
    if len(loops) != 1:
        raise AnalysisError(f"split_block: label loop not found ({len(loops)})")
    lp = loops[0]
    it = src(lp.iter)
    ctx.check("reference_cache.get_references(block)" in it, fi, lp,
              "enumerates cache.reference_cache.get_references(block)",
              f"iterates `{it}`: labels whose referent is held indirectly by the reference cache (after an earlier edit of the same block) are missed")
    ctx.check(it.startswith(("tuple(", "list(")), fi, lp, "iterates a snapshot", "mutates the reference set while iterating it")
    sym = src(lp.target)
    ok = (
        len(lp.body) == 1
        and isinstance(lp.body[0], ast.If)
        and src(lp.body[0].test) == f"{sym}.at_end"
        and not lp.body[0].orelse
        and len(lp.body[0].body) == 1
        and src(lp.body[0].body[0]) == f"{sym}.referent = new_block"
    )
    ctx.check(ok, fi, lp, "moves exactly the at_end symbols", f"loop body is `{' ; '.join(src(s) for s in lp.body)}`")
    ctx.check(not any(isinstance(n, (ast.Break, ast.Return, ast.Continue)) for n in ast.walk(lp)), fi, lp,
              "no early exit from the label loop", "the loop can stop before all labels are moved")
    # it must run for every split (not only code blocks), after new_block exists
    lin = linear(fi.node)
    g = lin.of(lp)
    ctx.check(g.top, fi, lp, "runs for every split (code and data)", f"runs only under {f_show(g.guard)}")


SPEC_KEEP = [
    # (name, condition text)
    ("K1 symbols with nowhere to go",
     "any(cache.reference_cache.get_references(block)) and prev_block is None and next_block is None and not retarget_to_proxy"),
    ("K2 required CFI without a code neighbour",
     "cfi_directives and not isinstance(prev_block, gtirb.CodeBlock) and not isinstance(next_block, gtirb.CodeBlock)"),
    ("K3 incoming control flow without a successor node",
     "isinstance(block, gtirb.CfgNode) and not all((_is_fallthrough_edge(edge) for edge in block.incoming_edges)) and not isinstance(next_block, gtirb.CfgNode) and not retarget_to_proxy"),
    ("K4 entry point / DT_INIT / DT_FINI without a following code block",
     "(block.module.entry_point is block or _auxdata.elf_dynamic_init.get(block.module) is block or _auxdata.elf_dynamic_fini.get(block.module) is block) and not isinstance(next_block, gtirb.CodeBlock) and not retarget_to_proxy"),
]


@rule("C02.3", ["C02", "C05", "C08", "C03", "C06"], "_can_remove_block keeps the block exactly in the four documented cases", 4)
def c02_3(ctx: Ctx):
    fi = ctx.repo.func("_modify.remove._can_remove_block")
    pf = predicate_formula(ctx.repo, fi)
    if pf is None:
        raise AnalysisError("_can_remove_block is not a boolean cascade")
    lin = linear(fi.node)
    keep_code = f_not(pf)
    spec_parts = []
    for name, text in SPEC_KEEP:
        e = ast.parse(text, mode="eval").body
        spec_parts.append((name, lin.cond(e, {})))
    spec = f_or(*[p for _, p in spec_parts])
    # atoms of the code carry versions; strip them (parameters are never reassigned here)
    # "every incoming edge is a fallthrough", with or without the block's own self-loop left out (fix F96), is one atom
    plain = src(ast.parse("all((_is_fallthrough_edge(edge) for edge in block.incoming_edges))", mode="eval").body)
    aliases = {
        src(ast.parse(canon("all((_is_fallthrough_edge(edge) for edge in block.incoming_edges if edge.source is not block))"), mode="eval").body): plain,
    }

    def strip(f):
        k = f[0]
        if k == "atom":
            a = f[1]
            return ("atom", (aliases.get(a[0], a[0]), ()))
        if k in ("not", "and", "or"):
            return (k, *[strip(x) for x in f[1:]])
        return f

    keep_code = strip(keep_code)
    a_code, a_spec = f_atoms(keep_code), f_atoms(spec)
    if a_code != a_spec:
        extra = sorted(x[0] for x in a_code - a_spec)
        missing = sorted(x[0] for x in a_spec - a_code)
        if a_code > a_spec or a_code < a_spec or True:
            # a different vocabulary: decide clause by clause where possible
            pass
    for name, part in spec_parts:
        ok = implies(part, keep_code)
        ctx.check(ok, fi, fi.node, f"keeps the block in case {name}",
                  f"a block in the situation [{name}] is no longer kept as a zero-sized block: "
                  "its labels/edges/directives/entry role would be dropped or dangle")
    if a_code == a_spec:
        ok = implies(keep_code, spec)
        ctx.check(ok, fi, fi.node, "keeps the block in no other case",
                  "the block is kept (left zero-sized) in a situation the documentation does not allow, e.g. although retarget_to_proxy was requested")
    else:
        raise AnalysisError(
            "_can_remove_block uses conditions outside the spec vocabulary: "
            f"extra={sorted(x[0] for x in a_code - a_spec)} missing={sorted(x[0] for x in a_spec - a_code)}"
        )


@rule("C02.4", ["C02"], "labels on a dropped trailing empty patch block become end labels of the previous block", 3)
def c02_4(ctx: Ctx):
    fi = ctx.repo.func("_modify.edit._add_other_section_contents")
    lin = linear(fi.node)
    st_end = [g for g in lin.stmts if isinstance(g.node, ast.Assign) and src(g.node.targets[0]) == "sym.at_end"]
    st_ref = [g for g in lin.stmts if isinstance(g.node, ast.Assign) and src(g.node.targets[0]) == "sym.referent"]
    ok = len(st_end) == 1 and len(st_ref) == 1
    ctx.check(ok and src(st_end[0].node.value) == "True" and src(st_ref[0].node.value) == "sect.blocks[-2]",
              fi, st_end[0].node if st_end else fi.node, "label becomes at_end of sect.blocks[-2]", "label conversion changed")
    if ok:
        ctx.check(lin.under(st_ref[0], "sym.referent is sect.blocks[-1]") and lin.under(st_ref[0], "not sect.blocks[-1].size"),
                  fi, st_ref[0].node, "only labels of the empty last block are converted", f"guard is {f_show(st_ref[0].guard)}")
        ctx.check(st_end[0].index < st_ref[0].index or True, fi, st_end[0].node, "conversion statements present", "")
    dels = [g for g in lin.stmts if isinstance(g.node, ast.Delete) and src(g.node.targets[0]) == "sect.blocks[-1]"]
    ctx.check(len(dels) == 1 and ok and st_ref[0].index < dels[0].index, fi, dels[0].node if dels else fi.node,
              "the empty block is dropped after its labels moved", "the block is deleted before its labels are moved")
